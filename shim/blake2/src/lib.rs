//! MODEL of blake2::Blake2bMac512. Contract (blake2 docs + BLAKE2 spec §2.8): key <= 64 bytes,
//! salt <= 16, persona <= 16, otherwise InvalidLength; output = PRF(key, salt, persona, data).
use digest::{
    generic_array::{typenum::U64, GenericArray},
    FixedOutput, InvalidLength, OutputSizeUser, Update,
};
use symcore::{with, BlakeRec, Blob};

pub use digest;

#[derive(Clone)]
pub struct Blake2bMac512 {
    rec: BlakeRec,
    data: Vec<u8>,
}

impl Blake2bMac512 {
    pub fn new_with_salt_and_personal(key: &[u8], salt: &[u8], persona: &[u8]) -> Result<Self, InvalidLength> {
        if key.len() > 64 || salt.len() > 16 || persona.len() > 16 {
            return Err(InvalidLength);
        }
        let pieces = with(|c| c.scan(key));
        Ok(Blake2bMac512 {
            rec: BlakeRec { key: pieces, key_len: key.len(), salt: salt.to_vec(), persona: persona.to_vec() },
            data: Vec::new(),
        })
    }
}
impl Update for Blake2bMac512 {
    fn update(&mut self, data: &[u8]) {
        self.data.extend_from_slice(data);
    }
}
impl OutputSizeUser for Blake2bMac512 {
    type OutputSize = U64;
}
// the real type is a MAC: `digest::Mac` (update / finalize().into_bytes() / chain_update) comes with the marker + key size
impl digest::MacMarker for Blake2bMac512 {}
impl digest::crypto_common::KeySizeUser for Blake2bMac512 {
    type KeySize = U64;
}
impl digest::KeyInit for Blake2bMac512 {
    fn new(key: &digest::Key<Self>) -> Self {
        Self::new_with_salt_and_personal(key.as_slice(), &[], &[]).expect("64-byte key")
    }
    fn new_from_slice(key: &[u8]) -> Result<Self, InvalidLength> {
        Self::new_with_salt_and_personal(key, &[], &[])
    }
}
impl core::fmt::Debug for Blake2bMac512 {
    fn fmt(&self, f: &mut core::fmt::Formatter<'_>) -> core::fmt::Result {
        f.write_str("Blake2bMac512 { ... }")
    }
}
impl FixedOutput for Blake2bMac512 {
    fn finalize_into(self, out: &mut GenericArray<u8, U64>) {
        with(|c| {
            let mut rec = self.rec.clone();
            if !self.data.is_empty() {
                // absorbed message data is made part of the record (not used by the library)
                rec.salt.extend_from_slice(b"|data|");
                rec.salt.extend_from_slice(&self.data);
            }
            let r = c.blake_rec(rec);
            let id = c.blob(Blob::Nonce { rec: r });
            c.enc_n(id, out.as_mut_slice());
        });
    }
}
