//! MODEL of merlin 3.0.0. Contract modelled (merlin docs): a transcript is a running hash of framed
//! messages `(label, length, bytes)`; `challenge_bytes` also mutates the state (label, length);
//! the transcript RNG is a clone of the state, rekeyed with labelled witness bytes and finally with
//! 32 bytes drawn from an external RNG; its outputs are a PRF of all of that.
use rand_core::{CryptoRng, RngCore};
use symcore::{with, Blob, LogEntry, LogId, Piece, RngState, U64Reg};

#[derive(Clone)]
pub struct Transcript {
    log: LogId,
}

impl Transcript {
    pub fn new(label: &'static [u8]) -> Transcript {
        Transcript { log: with(|c| c.log(LogEntry::Init { label: label.to_vec() })) }
    }
    /// model API: id of the current absorb log
    pub fn log_id(&self) -> LogId {
        self.log
    }
    pub fn append_message(&mut self, label: &'static [u8], message: &[u8]) {
        // merlin's append_u64(label, x) IS append_message(label, LE64(x)): an 8-byte message holding a registered u64 is recorded the same way
        if message.len() == 8 {
            let x = u64::from_le_bytes([message[0], message[1], message[2], message[3], message[4], message[5], message[6], message[7]]);
            if with(|c| c.lookup_u64(x).is_some()) {
                return self.append_u64(label, x);
            }
        }
        self.log = with(|c| {
            let pieces = c.scan(message);
            c.log(LogEntry::Append { parent: self.log, label: label.to_vec(), len: message.len(), pieces })
        });
    }
    pub fn commit_bytes(&mut self, label: &'static [u8], message: &[u8]) {
        self.append_message(label, message);
    }
    pub fn append_u64(&mut self, label: &'static [u8], x: u64) {
        self.log = with(|c| {
            let pieces = match c.lookup_u64(x) {
                Some((i, _)) => vec![Piece::U64(i)],
                None => vec![Piece::Lit(x.to_le_bytes().to_vec())],
            };
            c.log(LogEntry::Append { parent: self.log, label: label.to_vec(), len: 8, pieces })
        });
    }
    pub fn commit_u64(&mut self, label: &'static [u8], x: u64) {
        self.append_u64(label, x);
    }
    pub fn challenge_bytes(&mut self, label: &'static [u8], dest: &mut [u8]) {
        with(|c| {
            self.log = c.log(LogEntry::Challenge { parent: self.log, label: label.to_vec(), len: dest.len() });
            let id = c.blob(Blob::Chal { log: self.log });
            c.enc_n(id, dest);
        });
    }
    pub fn build_rng(&self) -> TranscriptRngBuilder {
        TranscriptRngBuilder { log: self.log, rekeys: Vec::new() }
    }
}

pub struct TranscriptRngBuilder {
    log: LogId,
    rekeys: Vec<(Vec<u8>, Vec<Piece>, usize)>,
}

impl TranscriptRngBuilder {
    pub fn rekey_with_witness_bytes(mut self, label: &'static [u8], witness: &[u8]) -> TranscriptRngBuilder {
        let pieces = with(|c| c.scan(witness));
        self.rekeys.push((label.to_vec(), pieces, witness.len()));
        self
    }
    pub fn commit_witness_bytes(self, label: &'static [u8], witness: &[u8]) -> TranscriptRngBuilder {
        self.rekey_with_witness_bytes(label, witness)
    }
    pub fn finalize<R>(self, rng: &mut R) -> TranscriptRng
    where R: RngCore + CryptoRng {
        let mut bytes = [0u8; 32];
        rng.fill_bytes(&mut bytes);
        let state = with(|c| {
            let ext = c.scan(&bytes);
            c.rng_state(RngState { log: self.log, rekeys: self.rekeys.clone(), ext })
        });
        TranscriptRng { state, ctr: 0 }
    }
}

pub struct TranscriptRng {
    state: u32,
    ctr: u32,
}

impl TranscriptRng {
    /// model API
    pub fn state_id(&self) -> u32 {
        self.state
    }
}

impl RngCore for TranscriptRng {
    fn next_u32(&mut self) -> u32 {
        self.next_u64() as u32
    }
    /// a u64 cannot carry a tag: a pseudo-random concrete number is returned and registered so that
    /// `append_u64` / `Scalar::from` recognise it as output `ctr` of this RNG state
    fn next_u64(&mut self) -> u64 {
        let ctr = self.ctr;
        self.ctr += 1;
        with(|c| {
            let id = c.blob(Blob::Rnd { state: self.state, ctr, len: 8 });
            let b = symcore::fl::pseudo_random(0x52_4e_44 ^ ((id as u64) << 8) ^ c.seed.rotate_left(17)).to_bytes();
            let x = u64::from_le_bytes([b[0], b[1], b[2], b[3], b[4], b[5], b[6], b[7]]) | (1u64 << 63);
            c.register_u64(x, U64Reg::Rnd(id));
            x
        })
    }
    fn fill_bytes(&mut self, dest: &mut [u8]) {
        // eight bytes are exactly what next_u64 returns (rand_core builds next_u64 from fill_bytes, little-endian): same registered stand-in
        if dest.len() == 8 {
            let x = self.next_u64();
            dest.copy_from_slice(&x.to_le_bytes());
            return;
        }
        let ctr = self.ctr;
        self.ctr += 1;
        with(|c| {
            let id = c.blob(Blob::Rnd { state: self.state, ctr, len: dest.len() as u32 });
            c.enc_n(id, dest);
        });
    }
    fn try_fill_bytes(&mut self, dest: &mut [u8]) -> Result<(), rand_core::Error> {
        self.fill_bytes(dest);
        Ok(())
    }
}
impl CryptoRng for TranscriptRng {}
