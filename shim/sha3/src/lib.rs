//! MODEL of sha3::{Shake256, Sha3_512}. Contract: output is a function of the concatenation of all
//! absorbed bytes; the XOF stream is read in order. The reader core uses a 64-byte block so that every
//! 64-byte read of the library (hash-to-group input) is exactly one tagged block `(input, block#)`.
use digest::{
    core_api::{
        AlgorithmName, Block, BlockSizeUser, Buffer, BufferKindUser, CoreWrapper, ExtendableOutputCore, FixedOutputCore,
        UpdateCore, XofReaderCore,
    },
    generic_array::typenum::{U136, U64, U72},
    HashMarker, Output, OutputSizeUser, Reset,
};
use digest::block_buffer::Eager;
use symcore::{with, Blob};

pub use digest::{self, Digest};

#[derive(Clone, Default)]
pub struct Shake256Core {
    absorbed: Vec<u8>,
}
impl HashMarker for Shake256Core {}
impl BlockSizeUser for Shake256Core {
    type BlockSize = U136;
}
impl BufferKindUser for Shake256Core {
    type BufferKind = Eager;
}
impl UpdateCore for Shake256Core {
    fn update_blocks(&mut self, blocks: &[Block<Self>]) {
        for b in blocks {
            self.absorbed.extend_from_slice(b);
        }
    }
}
impl ExtendableOutputCore for Shake256Core {
    type ReaderCore = Shake256ReaderCore;
    fn finalize_xof_core(&mut self, buffer: &mut Buffer<Self>) -> Self::ReaderCore {
        self.absorbed.extend_from_slice(buffer.get_data());
        let input = with(|c| c.hash_input(&self.absorbed));
        Shake256ReaderCore { input, block: 0 }
    }
}
impl Reset for Shake256Core {
    fn reset(&mut self) {
        self.absorbed.clear();
    }
}
impl AlgorithmName for Shake256Core {
    fn write_alg_name(f: &mut core::fmt::Formatter<'_>) -> core::fmt::Result {
        f.write_str("Shake256(model)")
    }
}

#[derive(Clone)]
pub struct Shake256ReaderCore {
    input: u32,
    block: u32,
}
impl BlockSizeUser for Shake256ReaderCore {
    type BlockSize = U64;
}
impl XofReaderCore for Shake256ReaderCore {
    fn read_block(&mut self) -> Block<Self> {
        let mut out = Block::<Self>::default();
        with(|c| {
            let id = c.blob(Blob::Xof { input: self.input, block: self.block });
            c.enc_n(id, out.as_mut_slice());
        });
        self.block += 1;
        out
    }
}

pub type Shake256 = CoreWrapper<Shake256Core>;

#[derive(Clone, Default)]
pub struct Sha3_512Core {
    absorbed: Vec<u8>,
}
impl HashMarker for Sha3_512Core {}
impl BlockSizeUser for Sha3_512Core {
    type BlockSize = U72;
}
impl BufferKindUser for Sha3_512Core {
    type BufferKind = Eager;
}
impl OutputSizeUser for Sha3_512Core {
    type OutputSize = U64;
}
impl UpdateCore for Sha3_512Core {
    fn update_blocks(&mut self, blocks: &[Block<Self>]) {
        for b in blocks {
            self.absorbed.extend_from_slice(b);
        }
    }
}
impl FixedOutputCore for Sha3_512Core {
    fn finalize_fixed_core(&mut self, buffer: &mut Buffer<Self>, out: &mut Output<Self>) {
        self.absorbed.extend_from_slice(buffer.get_data());
        with(|c| {
            let input = c.hash_input(&self.absorbed);
            let id = c.blob(Blob::Sha3 { input });
            c.enc_n(id, out.as_mut_slice());
        });
    }
}
impl Reset for Sha3_512Core {
    fn reset(&mut self) {
        self.absorbed.clear();
    }
}
impl AlgorithmName for Sha3_512Core {
    fn write_alg_name(f: &mut core::fmt::Formatter<'_>) -> core::fmt::Result {
        f.write_str("Sha3_512(model)")
    }
}
pub type Sha3_512 = CoreWrapper<Sha3_512Core>;
