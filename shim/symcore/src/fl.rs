//! Arithmetic in F_l, l = 2^252 + 27742317777372353535851937790883648493 (the Ristretto scalar field).
//! Used only for the concrete *shadow* values that steer branches; never for a verdict.

#[derive(Copy, Clone, PartialEq, Eq, Hash, Debug, PartialOrd, Ord)]
pub struct Fl(pub [u64; 4]);

pub const L: [u64; 4] = [0x5812631a5cf5d3ed, 0x14def9dea2f79cd6, 0x0, 0x1000000000000000];
const C: [u64; 2] = [0x5812631a5cf5d3ed, 0x14def9dea2f79cd6]; // l - 2^252

fn geq(a: &[u64; 4], b: &[u64; 4]) -> bool {
    for i in (0..4).rev() {
        if a[i] != b[i] {
            return a[i] > b[i];
        }
    }
    true
}
fn sub_raw(a: &[u64; 4], b: &[u64; 4]) -> ([u64; 4], bool) {
    let mut r = [0u64; 4];
    let mut borrow = 0u64;
    for i in 0..4 {
        let (d1, b1) = a[i].overflowing_sub(b[i]);
        let (d2, b2) = d1.overflowing_sub(borrow);
        r[i] = d2;
        borrow = (b1 || b2) as u64;
    }
    (r, borrow != 0)
}
fn add_raw(a: &[u64; 4], b: &[u64; 4]) -> ([u64; 4], bool) {
    let mut r = [0u64; 4];
    let mut carry = 0u64;
    for i in 0..4 {
        let (s1, c1) = a[i].overflowing_add(b[i]);
        let (s2, c2) = s1.overflowing_add(carry);
        r[i] = s2;
        carry = (c1 || c2) as u64;
    }
    (r, carry != 0)
}
/// multi-limb multiply a (n limbs) * b (m limbs) -> n+m limbs
fn mul_limbs(a: &[u64], b: &[u64]) -> Vec<u64> {
    let mut r = vec![0u64; a.len() + b.len()];
    for i in 0..a.len() {
        let mut carry = 0u128;
        for j in 0..b.len() {
            let t = (a[i] as u128) * (b[j] as u128) + (r[i + j] as u128) + carry;
            r[i + j] = t as u64;
            carry = t >> 64;
        }
        r[i + b.len()] = carry as u64;
    }
    r
}
/// split x (any number of limbs) as lo (252 bits) + 2^252 * hi
fn split252(x: &[u64]) -> ([u64; 4], Vec<u64>) {
    let mut lo = [0u64; 4];
    for i in 0..4 {
        lo[i] = *x.get(i).unwrap_or(&0);
    }
    lo[3] &= 0x0fff_ffff_ffff_ffff;
    // hi = x >> 252
    let mut hi = Vec::new();
    let n = x.len();
    let mut i = 3;
    while i < n {
        let a = x[i] >> 60;
        let b = if i + 1 < n { x[i + 1] << 4 } else { 0 };
        hi.push(a | b);
        i += 1;
    }
    while hi.last() == Some(&0) {
        hi.pop();
    }
    (lo, hi)
}
/// reduce an arbitrary-length non-negative integer modulo l
fn reduce(x: &[u64]) -> Fl {
    let (lo, hi) = split252(x);
    let lo = Fl(lo); // < 2^252 < l
    if hi.is_empty() {
        return lo;
    }
    // x = lo + 2^252*hi = lo - c*hi (mod l)
    let t = mul_limbs(&hi, &C);
    let r = reduce(&t);
    lo.sub(r)
}

impl Fl {
    pub const ZERO: Fl = Fl([0, 0, 0, 0]);
    pub const ONE: Fl = Fl([1, 0, 0, 0]);
    pub fn from_u64(x: u64) -> Fl {
        Fl([x, 0, 0, 0])
    }
    pub fn from_u128(x: u128) -> Fl {
        Fl([x as u64, (x >> 64) as u64, 0, 0])
    }
    pub fn is_zero(&self) -> bool {
        self.0 == [0, 0, 0, 0]
    }
    pub fn add(self, o: Fl) -> Fl {
        let (r, _c) = add_raw(&self.0, &o.0); // both < l < 2^253: no carry out of 256 bits
        if geq(&r, &L) {
            Fl(sub_raw(&r, &L).0)
        } else {
            Fl(r)
        }
    }
    pub fn sub(self, o: Fl) -> Fl {
        let (r, borrow) = sub_raw(&self.0, &o.0);
        if borrow {
            Fl(add_raw(&r, &L).0)
        } else {
            Fl(r)
        }
    }
    pub fn neg(self) -> Fl {
        Fl::ZERO.sub(self)
    }
    pub fn mul(self, o: Fl) -> Fl {
        reduce(&mul_limbs(&self.0, &o.0))
    }
    pub fn pow(self, e: &[u64; 4]) -> Fl {
        let mut r = Fl::ONE;
        for i in (0..256).rev() {
            r = r.mul(r);
            if (e[i / 64] >> (i % 64)) & 1 == 1 {
                r = r.mul(self);
            }
        }
        r
    }
    /// inverse; inverse of zero is zero (as in curve25519-dalek)
    pub fn inv(self) -> Fl {
        let (e, _) = sub_raw(&L, &[2, 0, 0, 0]);
        self.pow(&e)
    }
    pub fn from_le_bytes_reduce(b: &[u8]) -> Fl {
        let mut limbs = vec![0u64; (b.len() + 7) / 8];
        for (i, byte) in b.iter().enumerate() {
            limbs[i / 8] |= (*byte as u64) << (8 * (i % 8));
        }
        reduce(&limbs)
    }
    /// Some(x) iff the 32 bytes encode an integer < l
    pub fn from_canonical(b: &[u8; 32]) -> Option<Fl> {
        let mut l = [0u64; 4];
        for (i, byte) in b.iter().enumerate() {
            l[i / 8] |= (*byte as u64) << (8 * (i % 8));
        }
        if geq(&l, &L) {
            None
        } else {
            Some(Fl(l))
        }
    }
    pub fn to_bytes(self) -> [u8; 32] {
        let mut r = [0u8; 32];
        for i in 0..32 {
            r[i] = (self.0[i / 8] >> (8 * (i % 8))) as u8;
        }
        r
    }
    pub fn to_decimal(self) -> String {
        // big decimal conversion by repeated division by 10^18
        let mut limbs = self.0.to_vec();
        let mut parts: Vec<u64> = Vec::new();
        loop {
            if limbs.iter().all(|x| *x == 0) {
                break;
            }
            let mut rem = 0u128;
            for i in (0..limbs.len()).rev() {
                let cur = (rem << 64) | (limbs[i] as u128);
                limbs[i] = (cur / 1_000_000_000_000_000_000u128) as u64;
                rem = cur % 1_000_000_000_000_000_000u128;
            }
            parts.push(rem as u64);
        }
        if parts.is_empty() {
            return "0".to_string();
        }
        let mut s = format!("{}", parts.pop().unwrap());
        while let Some(p) = parts.pop() {
            s.push_str(&format!("{:018}", p));
        }
        s
    }
}

/// splitmix-style deterministic pseudo-random field element from a 64-bit key
pub fn pseudo_random(key: u64) -> Fl {
    let mut out = [0u8; 64];
    let mut s = key;
    for chunk in out.chunks_mut(8) {
        s = s.wrapping_add(0x9e3779b97f4a7c15);
        let mut z = s;
        z = (z ^ (z >> 30)).wrapping_mul(0xbf58476d1ce4e5b9);
        z = (z ^ (z >> 27)).wrapping_mul(0x94d049bb133111eb);
        z ^= z >> 31;
        chunk.copy_from_slice(&z.to_le_bytes());
    }
    Fl::from_le_bytes_reduce(&out)
}

#[cfg(test)]
mod tests {
    use super::*;
    #[test]
    fn basics() {
        let a = pseudo_random(1);
        let b = pseudo_random(2);
        assert_eq!(a.mul(b), b.mul(a));
        assert_eq!(a.mul(a.inv()), Fl::ONE);
        assert_eq!(a.add(b).sub(b), a);
        assert_eq!(a.add(a.neg()), Fl::ZERO);
        // (l-1)*(l-1) = 1
        let lm1 = Fl::ZERO.sub(Fl::ONE);
        assert_eq!(lm1.mul(lm1), Fl::ONE);
        assert_eq!(Fl::from_u64(7).to_decimal(), "7");
        assert_eq!(lm1.to_decimal(), "7237005577332262213973186563042994240857116359379907606001950938285454250988");
        let c = a.mul(b).add(a);
        assert_eq!(c, a.mul(b.add(Fl::ONE)));
    }
}
