//! symcore — the shared symbolic state behind the model dependency crates (Engine S, DESIGN.md §2.1).
//!
//! * scalars are nodes of a hash-consed term DAG with a concrete F_l shadow,
//! * group elements are linear forms over named basis generators,
//! * hashes / transcripts / RNGs are recorded logs whose outputs are tagged byte blobs,
//! * every comparison the library performs on such values is recorded as a branch event.
//!
//! Nothing in here produces a verdict; verdicts come from the SMT solver run on the dumped state.

pub mod fl;
use fl::Fl;
use serde_json::{json, Value};
use std::collections::{BTreeMap, HashMap};
use std::sync::Mutex;

pub type NodeId = u32;
pub type PointId = u32;
pub type BlobId = u32;
pub type LogId = u32;
pub type BasisId = u32;

#[derive(Clone, PartialEq, Eq, Hash, Debug)]
pub enum Op {
    Const(Fl),
    Var(u32),
    Add(NodeId, NodeId),
    Sub(NodeId, NodeId),
    Mul(NodeId, NodeId),
    Neg(NodeId),
    Inv(NodeId),
}

#[derive(Clone, Debug)]
pub struct VarInfo {
    pub name: String,
    pub kind: String,
    pub shadow: Fl,
    pub meta: Value,
}

#[derive(Clone, PartialEq, Eq, Hash, Debug)]
pub enum Blob {
    /// a scalar handle
    Scalar(NodeId),
    /// a compressed point; `None` = bytes that do not decompress
    Point(PointId),
    /// 64 challenge bytes squeezed from transcript log `log` (the log id *includes* the challenge entry)
    Chal { log: LogId },
    /// output `ctr` of transcript RNG state `state` (`len` bytes)
    Rnd { state: u32, ctr: u32, len: u32 },
    /// Blake2bMac512 output of record `rec`
    Nonce { rec: u32 },
    /// 64-byte block `block` of the SHAKE256 stream of hash input `input`
    Xof { input: u32, block: u32 },
    /// SHA3-512 digest of hash input `input`
    Sha3 { input: u32 },
    /// output `ctr` of external (harness supplied) RNG stream `stream`
    Ext { stream: u32, ctr: u32, len: u32 },
    /// an opaque adversarial 32-byte element
    Elem { k: u32 },
}

#[derive(Clone, PartialEq, Eq, Hash, Debug)]
pub enum Piece {
    Lit(Vec<u8>),
    Blob(BlobId),
    /// a registered u64 (value / promise variable, or an RNG-derived u64)
    U64(u32),
}

#[derive(Clone, PartialEq, Eq, Hash, Debug)]
pub enum LogEntry {
    Init { label: Vec<u8> },
    Append { parent: LogId, label: Vec<u8>, len: usize, pieces: Vec<Piece> },
    Challenge { parent: LogId, label: Vec<u8>, len: usize },
}

#[derive(Clone, PartialEq, Eq, Hash, Debug)]
pub struct RngState {
    pub log: LogId,
    pub rekeys: Vec<(Vec<u8>, Vec<Piece>, usize)>,
    pub ext: Vec<Piece>,
}

#[derive(Clone, PartialEq, Eq, Hash, Debug)]
pub struct BlakeRec {
    pub key: Vec<Piece>,
    pub key_len: usize,
    pub salt: Vec<u8>,
    pub persona: Vec<u8>,
}

#[derive(Clone, PartialEq, Eq, Hash, Debug, PartialOrd, Ord)]
pub enum Basis {
    Basepoint,
    /// hash-to-group of 64 uniform bytes that came from blob `blob` (Xof or Sha3 block)
    Gen { kind: u8, input: Vec<u8>, block: u32 },
    /// adversarially chosen point
    Free(u32),
    /// from_uniform_bytes on bytes we know nothing about
    Opaque(Vec<u8>),
}

#[derive(Clone, Debug)]
pub enum U64Reg {
    Var(u32),
    Rnd(BlobId),
}

pub struct Core {
    pub seed: u64,
    pub enc: u8,
    pub nodes: Vec<(Op, Fl)>,
    node_ix: HashMap<Op, NodeId>,
    pub vars: Vec<VarInfo>,
    var_ix: HashMap<String, u32>,
    pub blobs: Vec<Blob>,
    blob_ix: HashMap<Blob, BlobId>,
    pub points: Vec<BTreeMap<BasisId, NodeId>>,
    point_ix: HashMap<Vec<(BasisId, NodeId)>, PointId>,
    /// compressed encoding class of a point: keyed by its shadow form
    pub comp_class: HashMap<Vec<(BasisId, Fl)>, PointId>,
    pub basis: Vec<Basis>,
    basis_ix: HashMap<Basis, BasisId>,
    pub logs: Vec<LogEntry>,
    log_ix: HashMap<LogEntry, LogId>,
    pub rng_states: Vec<RngState>,
    rng_ix: HashMap<RngState, u32>,
    pub blake: Vec<BlakeRec>,
    blake_ix: HashMap<BlakeRec, u32>,
    pub hash_inputs: Vec<Vec<u8>>,
    hash_ix: HashMap<Vec<u8>, u32>,
    pub u64_reg: Vec<(u64, U64Reg)>,
    u64_ix: HashMap<u64, u32>,
    pub events: Vec<Value>,
    /// forced outcomes for branch events: key = (kind, ordinal among events of that kind)
    pub forced: HashMap<(String, u32), bool>,
    pub branch_counts: HashMap<String, u32>,
    /// decompression failures: blob ids of 32-byte elements that must not decompress
    pub undecodable: Vec<BlobId>,
    pub noncanonical: Vec<BlobId>,
    pub ext_streams: u32,
    pub elem_count: u32,
    pub free_count: u32,
    pub work: u64,
}

static CORE: Mutex<Option<Core>> = Mutex::new(None);

pub fn with<R>(f: impl FnOnce(&mut Core) -> R) -> R {
    let mut g = match CORE.lock() {
        Ok(g) => g,
        Err(p) => p.into_inner(),
    };
    if g.is_none() {
        *g = Some(Core::new());
    }
    f(g.as_mut().unwrap())
}

/// compressed Ristretto basepoint (a literal the library may hold in a `const`)
pub const BASEPOINT_BYTES: [u8; 32] = [
    0xe2, 0xf2, 0xae, 0x0a, 0x6a, 0xbc, 0x4e, 0x71, 0xa8, 0x84, 0xa9, 0x61, 0xc5, 0x00, 0x51, 0x5f, 0x58, 0xe3, 0x0b, 0x6a,
    0xa5, 0x82, 0xdd, 0x8d, 0xb6, 0xa6, 0x59, 0x45, 0xe0, 0x8d, 0x2d, 0x76,
];

const MAGIC_A: [u8; 8] = [0x53, 0x59, 0x4d, 0x58, 0x21, 0x7e, 0xc3, 0xa5];
const MAGIC_B: [u8; 8] = [0x91, 0x1c, 0x77, 0x0b, 0xee, 0x42, 0x5a, 0xf3];

impl Core {
    pub fn new() -> Core {
        let seed = std::env::var("VERIF_SEED").ok().and_then(|s| s.parse::<u64>().ok()).unwrap_or(1);
        let enc = std::env::var("SYMX_ENC").ok().and_then(|s| s.parse::<u8>().ok()).unwrap_or(0);
        let mut c = Core {
            seed,
            enc,
            nodes: Vec::new(),
            node_ix: HashMap::new(),
            vars: Vec::new(),
            var_ix: HashMap::new(),
            blobs: Vec::new(),
            blob_ix: HashMap::new(),
            points: Vec::new(),
            point_ix: HashMap::new(),
            comp_class: HashMap::new(),
            basis: Vec::new(),
            basis_ix: HashMap::new(),
            logs: Vec::new(),
            log_ix: HashMap::new(),
            rng_states: Vec::new(),
            rng_ix: HashMap::new(),
            blake: Vec::new(),
            blake_ix: HashMap::new(),
            hash_inputs: Vec::new(),
            hash_ix: HashMap::new(),
            u64_reg: Vec::new(),
            u64_ix: HashMap::new(),
            events: Vec::new(),
            forced: HashMap::new(),
            branch_counts: HashMap::new(),
            undecodable: Vec::new(),
            noncanonical: Vec::new(),
            ext_streams: 0,
            elem_count: 0,
            free_count: 0,
            work: 0,
        };
        // reserved ids: node 0 = 0, node 1 = 1; point 0 = identity, point 1 = basepoint
        c.konst(Fl::ZERO);
        c.konst(Fl::ONE);
        c.intern_point(BTreeMap::new());
        let b = c.basis_id(Basis::Basepoint);
        let mut f = BTreeMap::new();
        f.insert(b, 1);
        c.intern_point(f);
        c
    }

    // ---------------------------------------------------------------- scalars
    pub fn shadow(&self, n: NodeId) -> Fl {
        self.nodes[n as usize].1
    }
    pub fn op(&self, n: NodeId) -> &Op {
        &self.nodes[n as usize].0
    }
    fn mk(&mut self, op: Op, sh: Fl) -> NodeId {
        if let Some(id) = self.node_ix.get(&op) {
            return *id;
        }
        let id = self.nodes.len() as NodeId;
        self.nodes.push((op.clone(), sh));
        self.node_ix.insert(op, id);
        self.work += 1;
        id
    }
    pub fn konst(&mut self, v: Fl) -> NodeId {
        self.mk(Op::Const(v), v)
    }
    fn const_of(&self, n: NodeId) -> Option<Fl> {
        match self.op(n) {
            Op::Const(v) => Some(*v),
            _ => None,
        }
    }
    pub fn var(&mut self, name: &str, kind: &str, shadow: Option<Fl>, meta: Value) -> NodeId {
        if let Some(v) = self.var_ix.get(name) {
            let sh = self.vars[*v as usize].shadow;
            return self.mk(Op::Var(*v), sh);
        }
        let vid = self.vars.len() as u32;
        let sh = shadow.unwrap_or_else(|| {
            let mut h = self.seed.wrapping_mul(0x100000001b3) ^ 0xcbf29ce484222325;
            for b in name.bytes() {
                h = (h ^ b as u64).wrapping_mul(0x100000001b3);
            }
            fl::pseudo_random(h)
        });
        self.vars.push(VarInfo { name: name.to_string(), kind: kind.to_string(), shadow: sh, meta });
        self.var_ix.insert(name.to_string(), vid);
        self.mk(Op::Var(vid), sh)
    }
    pub fn add(&mut self, a: NodeId, b: NodeId) -> NodeId {
        if let (Some(x), Some(y)) = (self.const_of(a), self.const_of(b)) {
            return self.konst(x.add(y));
        }
        if a == 0 {
            return b;
        }
        if b == 0 {
            return a;
        }
        let (a, b) = if a <= b { (a, b) } else { (b, a) };
        let sh = self.shadow(a).add(self.shadow(b));
        self.mk(Op::Add(a, b), sh)
    }
    pub fn sub(&mut self, a: NodeId, b: NodeId) -> NodeId {
        if let (Some(x), Some(y)) = (self.const_of(a), self.const_of(b)) {
            return self.konst(x.sub(y));
        }
        if b == 0 {
            return a;
        }
        if a == b {
            return 0;
        }
        if a == 0 {
            return self.neg(b);
        }
        let sh = self.shadow(a).sub(self.shadow(b));
        self.mk(Op::Sub(a, b), sh)
    }
    pub fn mul(&mut self, a: NodeId, b: NodeId) -> NodeId {
        if let (Some(x), Some(y)) = (self.const_of(a), self.const_of(b)) {
            return self.konst(x.mul(y));
        }
        if a == 0 || b == 0 {
            return 0;
        }
        if a == 1 {
            return b;
        }
        if b == 1 {
            return a;
        }
        let (a, b) = if a <= b { (a, b) } else { (b, a) };
        let sh = self.shadow(a).mul(self.shadow(b));
        self.mk(Op::Mul(a, b), sh)
    }
    pub fn neg(&mut self, a: NodeId) -> NodeId {
        if let Some(x) = self.const_of(a) {
            return self.konst(x.neg());
        }
        if let Op::Neg(x) = self.op(a) {
            return *x;
        }
        let sh = self.shadow(a).neg();
        self.mk(Op::Neg(a), sh)
    }
    pub fn inv(&mut self, a: NodeId) -> NodeId {
        if let Some(x) = self.const_of(a) {
            return self.konst(x.inv());
        }
        if let Op::Inv(x) = self.op(a) {
            return *x;
        }
        if self.shadow(a).is_zero() {
            self.events.push(json!({"ev":"invert_zero","node":a}));
        } else {
            self.events.push(json!({"ev":"invert","node":a}));
        }
        let sh = self.shadow(a).inv();
        self.mk(Op::Inv(a), sh)
    }

    // ---------------------------------------------------------------- blobs / byte encodings
    pub fn blob(&mut self, b: Blob) -> BlobId {
        if let Some(id) = self.blob_ix.get(&b) {
            return *id;
        }
        let id = self.blobs.len() as BlobId;
        self.blobs.push(b.clone());
        self.blob_ix.insert(b, id);
        id
    }
    fn magic(&self) -> [u8; 8] {
        if self.enc == 0 {
            MAGIC_A
        } else {
            MAGIC_B
        }
    }
    /// 32-byte tagged encoding of a blob id. The top byte is >= 0xa5/0xf3, so the value is >= l and
    /// can never collide with a canonical scalar; it also never equals the all-zero identity encoding.
    pub fn enc32(&self, id: BlobId) -> [u8; 32] {
        let mut r = [0u8; 32];
        let off = if self.enc == 0 { 0 } else { 12 };
        r[off..off + 4].copy_from_slice(&id.to_le_bytes());
        r[off + 4] = 0x01;
        r[24..32].copy_from_slice(&self.magic());
        r
    }
    pub fn dec32(&self, b: &[u8]) -> Option<BlobId> {
        if b.len() != 32 || b[24..32] != self.magic() {
            return None;
        }
        let off = if self.enc == 0 { 0 } else { 12 };
        for (i, x) in b[..24].iter().enumerate() {
            if (i < off || i > off + 4) && *x != 0 {
                return None;
            }
        }
        if b[off + 4] != 0x01 {
            return None;
        }
        let id = u32::from_le_bytes([b[off], b[off + 1], b[off + 2], b[off + 3]]);
        if (id as usize) < self.blobs.len() {
            Some(id)
        } else {
            None
        }
    }
    pub fn enc_n(&self, id: BlobId, dest: &mut [u8]) {
        for x in dest.iter_mut() {
            *x = 0;
        }
        if dest.len() >= 32 {
            let e = self.enc32(id);
            dest[..32].copy_from_slice(&e);
            if dest.len() > 32 {
                let l = dest.len();
                dest[l - 1] = 0x5a; // mark of a wide blob
            }
        } else {
            // short outputs cannot carry a tag: deterministic literal bytes derived from the id
            let r = fl::pseudo_random(0xabcdef ^ (id as u64)).to_bytes();
            let l = dest.len();
            dest.copy_from_slice(&r[..l]);
        }
    }
    pub fn dec_n(&self, b: &[u8]) -> Option<BlobId> {
        if b.len() < 32 {
            return None;
        }
        if b.len() > 32 {
            if b[b.len() - 1] != 0x5a || b[32..b.len() - 1].iter().any(|x| *x != 0) {
                return None;
            }
        }
        self.dec32(&b[..32])
    }
    /// split arbitrary bytes into literal runs and tagged 32-byte / 64-byte blobs
    pub fn scan(&self, bytes: &[u8]) -> Vec<Piece> {
        let mut out = Vec::new();
        let mut lit: Vec<u8> = Vec::new();
        let mut i = 0;
        while i < bytes.len() {
            let mut hit = None;
            if i + 64 <= bytes.len() {
                if let Some(id) = self.dec_n(&bytes[i..i + 64]) {
                    hit = Some((id, 64));
                }
            }
            if hit.is_none() && i + 32 <= bytes.len() {
                if let Some(id) = self.dec32(&bytes[i..i + 32]) {
                    hit = Some((id, 32));
                }
            }
            if let Some((id, l)) = hit {
                if !lit.is_empty() {
                    out.push(Piece::Lit(std::mem::take(&mut lit)));
                }
                out.push(Piece::Blob(id));
                i += l;
            } else {
                lit.push(bytes[i]);
                i += 1;
            }
        }
        if !lit.is_empty() {
            out.push(Piece::Lit(lit));
        }
        out
    }

    /// bytes of a scalar node: canonical little-endian for constants, a tagged handle otherwise
    pub fn scalar_bytes(&mut self, n: NodeId) -> [u8; 32] {
        if let Some(v) = self.const_of(n) {
            return v.to_bytes();
        }
        let id = self.blob(Blob::Scalar(n));
        self.enc32(id)
    }
    /// node of scalar bytes that were produced by `scalar_bytes` or by a `const`
    pub fn scalar_node(&mut self, b: &[u8; 32]) -> NodeId {
        if let Some(id) = self.dec32(b) {
            match self.blobs[id as usize].clone() {
                Blob::Scalar(n) => return n,
                Blob::Elem { k } => {
                    return self.var(&format!("elem_{}", k), "elem", None, json!({"k":k}));
                },
                other => {
                    // bytes of some other object used as a scalar: an opaque variable named by the blob
                    let _ = other;
                    return self.var(&format!("asscalar_{}", id), "opaque", None, json!({"blob":id}));
                },
            }
        }
        match Fl::from_canonical(b) {
            Some(v) => self.konst(v),
            None => {
                let v = Fl::from_le_bytes_reduce(b);
                self.konst(v)
            },
        }
    }
    /// variable for a 64-byte (or 32-byte) uniformly random blob reduced modulo l
    pub fn scalar_from_wide(&mut self, b: &[u8]) -> NodeId {
        if let Some(id) = self.dec_n(b) {
            let (name, kind) = self.blob_var_name(id);
            return self.var(&name, &kind, None, json!({"blob":id}));
        }
        let v = Fl::from_le_bytes_reduce(b);
        self.konst(v)
    }
    pub fn blob_var_name(&self, id: BlobId) -> (String, String) {
        match &self.blobs[id as usize] {
            Blob::Chal { log } => (format!("chal_{}", log), "chal".into()),
            Blob::Rnd { state, ctr, .. } => (format!("rnd_{}_{}", state, ctr), "rnd".into()),
            Blob::Nonce { rec } => (format!("nonce_{}", rec), "nonce".into()),
            Blob::Ext { stream, ctr, .. } => (format!("ext_{}_{}", stream, ctr), "ext".into()),
            Blob::Xof { input, block } => (format!("xofs_{}_{}", input, block), "hash".into()),
            Blob::Sha3 { input } => (format!("sha3s_{}", input), "hash".into()),
            Blob::Elem { k } => (format!("elem_{}", k), "elem".into()),
            Blob::Scalar(n) => (format!("wide_of_scalar_{}", n), "opaque".into()),
            Blob::Point(p) => (format!("wide_of_point_{}", p), "opaque".into()),
        }
    }

    // ---------------------------------------------------------------- u64 registry
    pub fn register_u64(&mut self, concrete: u64, r: U64Reg) -> u32 {
        if let Some(i) = self.u64_ix.get(&concrete) {
            return *i;
        }
        let i = self.u64_reg.len() as u32;
        self.u64_reg.push((concrete, r));
        self.u64_ix.insert(concrete, i);
        i
    }
    pub fn lookup_u64(&self, concrete: u64) -> Option<(u32, U64Reg)> {
        self.u64_ix.get(&concrete).map(|i| (*i, self.u64_reg[*i as usize].1.clone()))
    }
    pub fn scalar_from_u64(&mut self, x: u64) -> NodeId {
        if let Some((_, U64Reg::Var(v))) = self.lookup_u64(x) {
            let sh = self.vars[v as usize].shadow;
            return self.mk(Op::Var(v), sh);
        }
        self.konst(Fl::from_u64(x))
    }

    // ---------------------------------------------------------------- points
    pub fn basis_id(&mut self, b: Basis) -> BasisId {
        if let Some(id) = self.basis_ix.get(&b) {
            return *id;
        }
        let id = self.basis.len() as BasisId;
        self.basis.push(b.clone());
        self.basis_ix.insert(b, id);
        id
    }
    pub fn intern_point(&mut self, form: BTreeMap<BasisId, NodeId>) -> PointId {
        let form: BTreeMap<BasisId, NodeId> = form.into_iter().filter(|(_, n)| *n != 0).collect();
        let key: Vec<(BasisId, NodeId)> = form.iter().map(|(a, b)| (*a, *b)).collect();
        if let Some(id) = self.point_ix.get(&key) {
            return *id;
        }
        let id = self.points.len() as PointId;
        self.points.push(form);
        self.point_ix.insert(key, id);
        id
    }
    pub fn point_basis(&mut self, b: Basis) -> PointId {
        let bid = self.basis_id(b);
        let mut f = BTreeMap::new();
        f.insert(bid, 1);
        self.intern_point(f)
    }
    pub fn free_point(&mut self) -> PointId {
        let k = self.free_count;
        self.free_count += 1;
        self.point_basis(Basis::Free(k))
    }
    pub fn point_add(&mut self, a: PointId, b: PointId) -> PointId {
        let mut f = self.points[a as usize].clone();
        let g = self.points[b as usize].clone();
        for (k, v) in g {
            let cur = f.get(&k).copied().unwrap_or(0);
            let s = self.add(cur, v);
            f.insert(k, s);
        }
        self.intern_point(f)
    }
    pub fn point_neg(&mut self, a: PointId) -> PointId {
        let f = self.points[a as usize].clone();
        let mut r = BTreeMap::new();
        for (k, v) in f {
            let n = self.neg(v);
            r.insert(k, n);
        }
        self.intern_point(r)
    }
    pub fn point_scale(&mut self, a: PointId, s: NodeId) -> PointId {
        let f = self.points[a as usize].clone();
        let mut r = BTreeMap::new();
        for (k, v) in f {
            let n = self.mul(v, s);
            r.insert(k, n);
        }
        self.intern_point(r)
    }
    pub fn msm(&mut self, scalars: &[NodeId], points: &[PointId]) -> PointId {
        let mut acc: BTreeMap<BasisId, NodeId> = BTreeMap::new();
        for (s, p) in scalars.iter().zip(points.iter()) {
            let f = self.points[*p as usize].clone();
            for (k, v) in f {
                let t = self.mul(v, *s);
                let cur = acc.get(&k).copied().unwrap_or(0);
                let n = self.add(cur, t);
                acc.insert(k, n);
            }
        }
        self.intern_point(acc)
    }
    pub fn shadow_form(&self, p: PointId) -> Vec<(BasisId, Fl)> {
        self.points[p as usize]
            .iter()
            .map(|(k, v)| (*k, self.shadow(*v)))
            .filter(|(_, v)| !v.is_zero())
            .collect()
    }
    /// decide a branch: forced outcome if the scenario supplied one, else `natural`
    pub fn decide(&mut self, kind: &str, natural: bool, detail: Value) -> bool {
        let c = self.branch_counts.entry(kind.to_string()).or_insert(0);
        let ord = *c;
        *c += 1;
        let out = self.forced.get(&(kind.to_string(), ord)).copied().unwrap_or(natural);
        self.events.push(json!({"ev":"branch","kind":kind,"ord":ord,"natural":natural,"outcome":out,"detail":detail}));
        out
    }
    pub fn point_eq(&mut self, a: PointId, b: PointId) -> bool {
        let mut natural = self.shadow_form(a) == self.shadow_form(b);
        // scenario switch: treat every comparison with the identity as successful, so that execution continues
        // past a failing final check (used to observe later chunks of a batch)
        if (a == 0 || b == 0) && a != b {
            if let Some(o) = self.forced.get(&("final_eq".to_string(), 0)) {
                natural = *o;
            }
        }
        self.decide("point_eq", natural, json!({"a":a,"b":b}))
    }
    pub fn scalar_eq(&mut self, a: NodeId, b: NodeId) -> bool {
        if a == b {
            return true;
        }
        if let (Some(x), Some(y)) = (self.const_of(a), self.const_of(b)) {
            return x == y;
        }
        let natural = self.shadow(a) == self.shadow(b);
        self.decide("scalar_eq", natural, json!({"a":a,"b":b}))
    }
    /// compressed encoding: 32 zero bytes for the identity, a tagged blob otherwise; points that are
    /// equal (by shadow) share an encoding.
    pub fn compress(&mut self, p: PointId) -> [u8; 32] {
        let sf = self.shadow_form(p);
        if sf.is_empty() {
            if !self.points[p as usize].is_empty() {
                self.events.push(json!({"ev":"compress_identity_by_shadow","point":p}));
            }
            return [0u8; 32];
        }
        if sf == self.shadow_form(1) {
            return BASEPOINT_BYTES;
        }
        let rep = match self.comp_class.get(&sf) {
            Some(r) => *r,
            None => {
                self.comp_class.insert(sf, p);
                p
            },
        };
        if rep != p {
            self.events.push(json!({"ev":"compress_class","point":p,"rep":rep}));
        }
        let id = self.blob(Blob::Point(rep));
        self.enc32(id)
    }
    pub fn decompress(&mut self, b: &[u8; 32]) -> Option<PointId> {
        if b.iter().all(|x| *x == 0) {
            return Some(0);
        }
        if *b == BASEPOINT_BYTES {
            return Some(1);
        }
        if let Some(id) = self.dec32(b) {
            match self.blobs[id as usize].clone() {
                Blob::Point(p) => return Some(p),
                Blob::Elem { k } => {
                    let natural = !self.undecodable.contains(&id);
                    let ok = self.decide("decompress", natural, json!({"elem":k}));
                    if ok {
                        return Some(self.point_basis(Basis::Free(1_000_000 + k)));
                    }
                    return None;
                },
                _ => {
                    let ok = self.decide("decompress", false, json!({"blob":id}));
                    if ok {
                        return Some(self.point_basis(Basis::Free(2_000_000 + id)));
                    }
                    return None;
                },
            }
        }
        // literal bytes that are not the identity: the model knows no such point
        self.events.push(json!({"ev":"decompress_literal"}));
        None
    }
    pub fn from_uniform(&mut self, b: &[u8; 64]) -> PointId {
        if let Some(id) = self.dec_n(b) {
            match self.blobs[id as usize].clone() {
                Blob::Xof { input, block } => {
                    let inp = self.hash_inputs[input as usize].clone();
                    return self.point_basis(Basis::Gen { kind: 0, input: inp, block });
                },
                Blob::Sha3 { input } => {
                    let inp = self.hash_inputs[input as usize].clone();
                    return self.point_basis(Basis::Gen { kind: 1, input: inp, block: 0 });
                },
                _ => {},
            }
        }
        self.point_basis(Basis::Opaque(b.to_vec()))
    }

    // ---------------------------------------------------------------- logs
    pub fn log(&mut self, e: LogEntry) -> LogId {
        if let Some(id) = self.log_ix.get(&e) {
            return *id;
        }
        let id = self.logs.len() as LogId;
        self.logs.push(e.clone());
        self.log_ix.insert(e, id);
        id
    }
    pub fn rng_state(&mut self, s: RngState) -> u32 {
        if let Some(id) = self.rng_ix.get(&s) {
            return *id;
        }
        let id = self.rng_states.len() as u32;
        self.rng_states.push(s.clone());
        self.rng_ix.insert(s, id);
        id
    }
    pub fn blake_rec(&mut self, r: BlakeRec) -> u32 {
        if let Some(id) = self.blake_ix.get(&r) {
            return *id;
        }
        let id = self.blake.len() as u32;
        self.blake.push(r.clone());
        self.blake_ix.insert(r, id);
        id
    }
    pub fn hash_input(&mut self, b: &[u8]) -> u32 {
        if let Some(id) = self.hash_ix.get(b) {
            return *id;
        }
        let id = self.hash_inputs.len() as u32;
        self.hash_inputs.push(b.to_vec());
        self.hash_ix.insert(b.to_vec(), id);
        id
    }
    pub fn new_elem(&mut self) -> [u8; 32] {
        let k = self.elem_count;
        self.elem_count += 1;
        let id = self.blob(Blob::Elem { k });
        self.enc32(id)
    }

    // ---------------------------------------------------------------- dump
    fn piece_json(&self, p: &Piece) -> Value {
        match p {
            Piece::Lit(b) => json!({"lit": hex(b)}),
            Piece::Blob(id) => json!({"blob": id}),
            Piece::U64(i) => json!({"u64": i}),
        }
    }
    pub fn dump(&self) -> Value {
        let nodes: Vec<Value> = self
            .nodes
            .iter()
            .map(|(op, _)| match op {
                Op::Const(v) => json!(["c", v.to_decimal()]),
                Op::Var(v) => json!(["v", v]),
                Op::Add(a, b) => json!(["+", a, b]),
                Op::Sub(a, b) => json!(["-", a, b]),
                Op::Mul(a, b) => json!(["*", a, b]),
                Op::Neg(a) => json!(["n", a]),
                Op::Inv(a) => json!(["i", a]),
            })
            .collect();
        let shadows: Vec<Value> = self.nodes.iter().map(|(_, s)| json!(s.to_decimal())).collect();
        let vars: Vec<Value> = self
            .vars
            .iter()
            .map(|v| json!({"name":v.name,"kind":v.kind,"shadow":v.shadow.to_decimal(),"meta":v.meta}))
            .collect();
        let blobs: Vec<Value> = self
            .blobs
            .iter()
            .map(|b| match b {
                Blob::Scalar(n) => json!({"t":"scalar","node":n}),
                Blob::Point(p) => json!({"t":"point","point":p}),
                Blob::Chal { log } => json!({"t":"chal","log":log}),
                Blob::Rnd { state, ctr, len } => json!({"t":"rnd","state":state,"ctr":ctr,"len":len}),
                Blob::Nonce { rec } => json!({"t":"nonce","rec":rec}),
                Blob::Xof { input, block } => json!({"t":"xof","input":input,"block":block}),
                Blob::Sha3 { input } => json!({"t":"sha3","input":input}),
                Blob::Ext { stream, ctr, len } => json!({"t":"ext","stream":stream,"ctr":ctr,"len":len}),
                Blob::Elem { k } => json!({"t":"elem","k":k}),
            })
            .collect();
        let points: Vec<Value> = self
            .points
            .iter()
            .map(|f| Value::Array(f.iter().map(|(k, v)| json!([k, v])).collect()))
            .collect();
        let basis: Vec<Value> = self
            .basis
            .iter()
            .map(|b| match b {
                Basis::Basepoint => json!({"t":"basepoint"}),
                Basis::Gen { kind, input, block } => {
                    json!({"t":"gen","hash": if *kind==0 {"shake256"} else {"sha3_512"},"input":hex(input),"block":block})
                },
                Basis::Free(k) => json!({"t":"free","k":k}),
                Basis::Opaque(b) => json!({"t":"opaque","bytes":hex(b)}),
            })
            .collect();
        let logs: Vec<Value> = self
            .logs
            .iter()
            .map(|e| match e {
                LogEntry::Init { label } => json!({"t":"init","label":String::from_utf8_lossy(label)}),
                LogEntry::Append { parent, label, len, pieces } => {
                    json!({"t":"append","parent":parent,"label":String::from_utf8_lossy(label),"len":len,
                       "pieces": pieces.iter().map(|p| self.piece_json(p)).collect::<Vec<_>>() })
                },
                LogEntry::Challenge { parent, label, len } => {
                    json!({"t":"challenge","parent":parent,"label":String::from_utf8_lossy(label),"len":len})
                },
            })
            .collect();
        let rngs: Vec<Value> = self
            .rng_states
            .iter()
            .map(|s| {
                json!({"log":s.log,
                "rekeys": s.rekeys.iter().map(|(l,p,n)| json!({"label":String::from_utf8_lossy(l),"len":n,"pieces":p.iter().map(|x| self.piece_json(x)).collect::<Vec<_>>()})).collect::<Vec<_>>(),
                "ext": s.ext.iter().map(|x| self.piece_json(x)).collect::<Vec<_>>() })
            })
            .collect();
        let blake: Vec<Value> = self
            .blake
            .iter()
            .map(|r| {
                json!({"key": r.key.iter().map(|x| self.piece_json(x)).collect::<Vec<_>>(), "key_len": r.key_len,
                "salt": hex(&r.salt), "persona": String::from_utf8_lossy(&r.persona)})
            })
            .collect();
        let hin: Vec<Value> = self.hash_inputs.iter().map(|b| json!(hex(b))).collect();
        let u64s: Vec<Value> = self
            .u64_reg
            .iter()
            .map(|(c, r)| match r {
                U64Reg::Var(v) => json!({"concrete":c.to_string(),"var":v}),
                U64Reg::Rnd(b) => json!({"concrete":c.to_string(),"rnd_blob":b}),
            })
            .collect();
        json!({"seed":self.seed,"enc":self.enc,"nodes":nodes,"shadows":shadows,"vars":vars,"blobs":blobs,"points":points,
               "basis":basis,"logs":logs,"rng_states":rngs,"blake":blake,"hash_inputs":hin,"u64":u64s,
               "events":self.events,"work":self.work})
    }
}

pub fn hex(b: &[u8]) -> String {
    let mut s = String::with_capacity(b.len() * 2);
    for x in b {
        s.push_str(&format!("{:02x}", x));
    }
    s
}

/// reset everything (a fresh scenario in the same process). Statics of the library that cache points
/// keep their ids, therefore point 0/1 and all hash-derived basis points are re-created identically
/// only if the caller never resets after first use of the library's statics; the harness runs one
/// scenario per process and does not call this except in unit tests.
pub fn reset() {
    let mut g = match CORE.lock() {
        Ok(g) => g,
        Err(p) => p.into_inner(),
    };
    *g = Some(Core::new());
}
