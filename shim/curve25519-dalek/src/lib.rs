//! MODEL crate standing in for curve25519-dalek 4.1.3 (see /verif/DESIGN.md §2.1, assumption A5).
//! Scalars are handles to term-DAG nodes, points are handles to linear forms over named generators.
#![allow(non_snake_case)]

pub mod constants;
pub mod ristretto;
pub mod scalar;
pub mod traits;

pub use ristretto::RistrettoPoint;
pub use scalar::Scalar;
