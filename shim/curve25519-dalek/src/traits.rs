//! the traits of curve25519_dalek::traits with their documented signatures
use core::borrow::Borrow;

use crate::scalar::Scalar;

pub trait Identity {
    fn identity() -> Self;
}

pub trait IsIdentity {
    fn is_identity(&self) -> bool;
}

impl<T> IsIdentity for T
where T: subtle::ConstantTimeEq + Identity
{
    fn is_identity(&self) -> bool {
        self.ct_eq(&T::identity()).into()
    }
}

pub trait BasepointTable {
    type Point;
}

pub trait MultiscalarMul {
    type Point;
    fn multiscalar_mul<I, J>(scalars: I, points: J) -> Self::Point
    where
        I: IntoIterator,
        I::Item: Borrow<Scalar>,
        J: IntoIterator,
        J::Item: Borrow<Self::Point>;
}

pub trait VartimeMultiscalarMul {
    type Point;
    fn optional_multiscalar_mul<I, J>(scalars: I, points: J) -> Option<Self::Point>
    where
        I: IntoIterator,
        I::Item: Borrow<Scalar>,
        J: IntoIterator<Item = Option<Self::Point>>;

    fn vartime_multiscalar_mul<I, J>(scalars: I, points: J) -> Self::Point
    where
        I: IntoIterator,
        I::Item: Borrow<Scalar>,
        J: IntoIterator,
        J::Item: Borrow<Self::Point>,
        Self::Point: Clone,
    {
        Self::optional_multiscalar_mul(scalars, points.into_iter().map(|P| Some(P.borrow().clone())))
            .expect("should return some point")
    }
}

pub trait VartimePrecomputedMultiscalarMul: Sized {
    type Point: Clone;

    fn new<I>(static_points: I) -> Self
    where
        I: IntoIterator,
        I::Item: Borrow<Self::Point>;

    fn vartime_multiscalar_mul<I>(&self, static_scalars: I) -> Self::Point
    where
        I: IntoIterator,
        I::Item: Borrow<Scalar>,
    {
        use core::iter;
        Self::vartime_mixed_multiscalar_mul(self, static_scalars, iter::empty::<Scalar>(), iter::empty::<Self::Point>())
    }

    fn vartime_mixed_multiscalar_mul<I, J, K>(&self, static_scalars: I, dynamic_scalars: J, dynamic_points: K) -> Self::Point
    where
        I: IntoIterator,
        I::Item: Borrow<Scalar>,
        J: IntoIterator,
        J::Item: Borrow<Scalar>,
        K: IntoIterator,
        K::Item: Borrow<Self::Point>,
    {
        Self::optional_mixed_multiscalar_mul(
            self,
            static_scalars,
            dynamic_scalars,
            dynamic_points.into_iter().map(|P| Some(P.borrow().clone())),
        )
        .expect("should return some point")
    }

    fn optional_mixed_multiscalar_mul<I, J, K>(&self, static_scalars: I, dynamic_scalars: J, dynamic_points: K) -> Option<Self::Point>
    where
        I: IntoIterator,
        I::Item: Borrow<Scalar>,
        J: IntoIterator,
        J::Item: Borrow<Scalar>,
        K: IntoIterator<Item = Option<Self::Point>>;
}
