//! MODEL of curve25519_dalek::ristretto: a point is a handle to a linear form over named generators.
use core::{
    array::TryFromSliceError,
    borrow::Borrow,
    fmt::Debug,
    iter::Sum,
    ops::{Add, AddAssign, Mul, MulAssign, Neg, Sub, SubAssign},
};

use subtle::{Choice, ConstantTimeEq};
use symcore::{with, NodeId, PointId};
use zeroize::Zeroize;

use crate::{
    scalar::Scalar,
    traits::{Identity, MultiscalarMul, VartimeMultiscalarMul, VartimePrecomputedMultiscalarMul},
};

pub(crate) const BASEPOINT_BYTES: [u8; 32] = symcore::BASEPOINT_BYTES;

#[derive(Copy, Clone, Hash)]
pub struct CompressedRistretto(pub [u8; 32]);

impl CompressedRistretto {
    pub const fn to_bytes(&self) -> [u8; 32] {
        self.0
    }
    pub const fn as_bytes(&self) -> &[u8; 32] {
        &self.0
    }
    pub fn from_slice(bytes: &[u8]) -> Result<CompressedRistretto, TryFromSliceError> {
        bytes.try_into().map(CompressedRistretto)
    }
    pub fn decompress(&self) -> Option<RistrettoPoint> {
        with(|c| c.decompress(&self.0)).map(RistrettoPoint)
    }
}
impl Debug for CompressedRistretto {
    fn fmt(&self, f: &mut core::fmt::Formatter<'_>) -> core::fmt::Result {
        write!(f, "CompressedRistretto{{{}}}", symcore::hex(&self.0))
    }
}
impl ConstantTimeEq for CompressedRistretto {
    fn ct_eq(&self, other: &CompressedRistretto) -> Choice {
        Choice::from((self.0 == other.0) as u8)
    }
}
impl PartialEq for CompressedRistretto {
    fn eq(&self, other: &Self) -> bool {
        self.0 == other.0
    }
}
impl Eq for CompressedRistretto {}
impl Identity for CompressedRistretto {
    fn identity() -> CompressedRistretto {
        CompressedRistretto([0u8; 32])
    }
}
impl Default for CompressedRistretto {
    fn default() -> CompressedRistretto {
        CompressedRistretto::identity()
    }
}
impl Zeroize for CompressedRistretto {
    fn zeroize(&mut self) {
        self.0.zeroize();
    }
}

#[derive(Copy, Clone)]
pub struct RistrettoPoint(pub(crate) PointId);

impl RistrettoPoint {
    /// model API
    pub fn id(&self) -> PointId {
        self.0
    }
    /// model API
    pub fn from_id(id: PointId) -> RistrettoPoint {
        RistrettoPoint(id)
    }
    /// model API: a fresh adversarially chosen point (a new basis element)
    pub fn free() -> RistrettoPoint {
        RistrettoPoint(with(|c| c.free_point()))
    }
    pub fn compress(&self) -> CompressedRistretto {
        CompressedRistretto(with(|c| c.compress(self.0)))
    }
    pub fn from_uniform_bytes(bytes: &[u8; 64]) -> RistrettoPoint {
        RistrettoPoint(with(|c| c.from_uniform(bytes)))
    }
    pub fn mul_base(scalar: &Scalar) -> Self {
        &crate::constants::RISTRETTO_BASEPOINT_POINT * scalar
    }
    /// a*A + b*B (B the basepoint)
    pub fn vartime_double_scalar_mul_basepoint(a: &Scalar, big_a: &RistrettoPoint, b: &Scalar) -> RistrettoPoint {
        &(big_a * a) + &(&crate::constants::RISTRETTO_BASEPOINT_POINT * b)
    }
    /// compress(2P) for every P
    pub fn double_and_compress_batch<'a, I>(points: I) -> Vec<CompressedRistretto>
    where I: IntoIterator<Item = &'a RistrettoPoint> {
        points.into_iter().map(|p| (p + p).compress()).collect()
    }
    pub fn random<R: rand_core::CryptoRngCore + ?Sized>(rng: &mut R) -> Self {
        let mut uniform_bytes = [0u8; 64];
        rng.fill_bytes(&mut uniform_bytes);
        RistrettoPoint::from_uniform_bytes(&uniform_bytes)
    }
}

/// MODEL of the precomputed basepoint table: multiplication by it is multiplication of the basepoint
#[derive(Copy, Clone, Debug)]
pub struct RistrettoBasepointTable;
impl crate::traits::BasepointTable for RistrettoBasepointTable {
    type Point = RistrettoPoint;
}
impl RistrettoBasepointTable {
    pub fn create(_basepoint: &RistrettoPoint) -> RistrettoBasepointTable {
        RistrettoBasepointTable
    }
    pub fn basepoint(&self) -> RistrettoPoint {
        crate::constants::RISTRETTO_BASEPOINT_POINT
    }
    pub fn mul_base(&self, scalar: &Scalar) -> RistrettoPoint {
        RistrettoPoint::mul_base(scalar)
    }
}
impl<'a, 'b> Mul<&'b Scalar> for &'a RistrettoBasepointTable {
    type Output = RistrettoPoint;
    fn mul(self, s: &'b Scalar) -> RistrettoPoint {
        RistrettoPoint::mul_base(s)
    }
}
impl<'a, 'b> Mul<&'a RistrettoBasepointTable> for &'b Scalar {
    type Output = RistrettoPoint;
    fn mul(self, _t: &'a RistrettoBasepointTable) -> RistrettoPoint {
        RistrettoPoint::mul_base(self)
    }
}
impl Debug for RistrettoPoint {
    fn fmt(&self, f: &mut core::fmt::Formatter<'_>) -> core::fmt::Result {
        write!(f, "RistrettoPoint#{}", self.0)
    }
}
impl Identity for RistrettoPoint {
    fn identity() -> RistrettoPoint {
        RistrettoPoint(0)
    }
}
impl Default for RistrettoPoint {
    fn default() -> RistrettoPoint {
        RistrettoPoint::identity()
    }
}
impl ConstantTimeEq for RistrettoPoint {
    fn ct_eq(&self, other: &RistrettoPoint) -> Choice {
        Choice::from(with(|c| c.point_eq(self.0, other.0)) as u8)
    }
}
impl PartialEq for RistrettoPoint {
    fn eq(&self, other: &RistrettoPoint) -> bool {
        self.ct_eq(other).into()
    }
}
impl Eq for RistrettoPoint {}
impl subtle::ConditionallySelectable for RistrettoPoint {
    fn conditional_select(a: &RistrettoPoint, b: &RistrettoPoint, choice: Choice) -> RistrettoPoint {
        if choice.unwrap_u8() == 1 {
            *b
        } else {
            *a
        }
    }
}
impl Zeroize for RistrettoPoint {
    fn zeroize(&mut self) {
        self.0 = 0;
    }
}

impl<'a, 'b> Add<&'b RistrettoPoint> for &'a RistrettoPoint {
    type Output = RistrettoPoint;
    fn add(self, o: &'b RistrettoPoint) -> RistrettoPoint {
        RistrettoPoint(with(|c| c.point_add(self.0, o.0)))
    }
}
impl<'a, 'b> Sub<&'b RistrettoPoint> for &'a RistrettoPoint {
    type Output = RistrettoPoint;
    fn sub(self, o: &'b RistrettoPoint) -> RistrettoPoint {
        RistrettoPoint(with(|c| {
            let n = c.point_neg(o.0);
            c.point_add(self.0, n)
        }))
    }
}
macro_rules! fwd_binop {
    ($tr:ident, $m:ident, $atr:ident, $am:ident) => {
        impl<'b> $tr<&'b RistrettoPoint> for RistrettoPoint {
            type Output = RistrettoPoint;
            fn $m(self, o: &'b RistrettoPoint) -> RistrettoPoint {
                (&self).$m(o)
            }
        }
        impl<'a> $tr<RistrettoPoint> for &'a RistrettoPoint {
            type Output = RistrettoPoint;
            fn $m(self, o: RistrettoPoint) -> RistrettoPoint {
                self.$m(&o)
            }
        }
        impl $tr<RistrettoPoint> for RistrettoPoint {
            type Output = RistrettoPoint;
            fn $m(self, o: RistrettoPoint) -> RistrettoPoint {
                (&self).$m(&o)
            }
        }
        impl<'b> $atr<&'b RistrettoPoint> for RistrettoPoint {
            fn $am(&mut self, o: &'b RistrettoPoint) {
                *self = (&*self).$m(o);
            }
        }
        impl $atr<RistrettoPoint> for RistrettoPoint {
            fn $am(&mut self, o: RistrettoPoint) {
                *self = (&*self).$m(&o);
            }
        }
    };
}
fwd_binop!(Add, add, AddAssign, add_assign);
fwd_binop!(Sub, sub, SubAssign, sub_assign);

impl<'a> Neg for &'a RistrettoPoint {
    type Output = RistrettoPoint;
    fn neg(self) -> RistrettoPoint {
        RistrettoPoint(with(|c| c.point_neg(self.0)))
    }
}
impl Neg for RistrettoPoint {
    type Output = RistrettoPoint;
    fn neg(self) -> RistrettoPoint {
        -&self
    }
}
impl<T> Sum<T> for RistrettoPoint
where T: Borrow<RistrettoPoint>
{
    fn sum<I: Iterator<Item = T>>(iter: I) -> Self {
        iter.fold(RistrettoPoint::identity(), |acc, item| acc + item.borrow())
    }
}

fn scale(p: &RistrettoPoint, s: &Scalar) -> RistrettoPoint {
    let n = s.node();
    RistrettoPoint(with(|c| c.point_scale(p.0, n)))
}
impl<'a, 'b> Mul<&'b Scalar> for &'a RistrettoPoint {
    type Output = RistrettoPoint;
    fn mul(self, s: &'b Scalar) -> RistrettoPoint {
        scale(self, s)
    }
}
impl<'a> Mul<Scalar> for &'a RistrettoPoint {
    type Output = RistrettoPoint;
    fn mul(self, s: Scalar) -> RistrettoPoint {
        scale(self, &s)
    }
}
impl<'b> Mul<&'b Scalar> for RistrettoPoint {
    type Output = RistrettoPoint;
    fn mul(self, s: &'b Scalar) -> RistrettoPoint {
        scale(&self, s)
    }
}
impl Mul<Scalar> for RistrettoPoint {
    type Output = RistrettoPoint;
    fn mul(self, s: Scalar) -> RistrettoPoint {
        scale(&self, &s)
    }
}
impl<'a, 'b> Mul<&'b RistrettoPoint> for &'a Scalar {
    type Output = RistrettoPoint;
    fn mul(self, p: &'b RistrettoPoint) -> RistrettoPoint {
        scale(p, self)
    }
}
impl<'a> Mul<RistrettoPoint> for &'a Scalar {
    type Output = RistrettoPoint;
    fn mul(self, p: RistrettoPoint) -> RistrettoPoint {
        scale(&p, self)
    }
}
impl<'b> Mul<&'b RistrettoPoint> for Scalar {
    type Output = RistrettoPoint;
    fn mul(self, p: &'b RistrettoPoint) -> RistrettoPoint {
        scale(p, &self)
    }
}
impl Mul<RistrettoPoint> for Scalar {
    type Output = RistrettoPoint;
    fn mul(self, p: RistrettoPoint) -> RistrettoPoint {
        scale(&p, &self)
    }
}
impl<'b> MulAssign<&'b Scalar> for RistrettoPoint {
    fn mul_assign(&mut self, s: &'b Scalar) {
        *self = scale(self, s);
    }
}
impl MulAssign<Scalar> for RistrettoPoint {
    fn mul_assign(&mut self, s: Scalar) {
        *self = scale(self, &s);
    }
}

fn record_msm(kind: &str, ns: usize, np: usize) {
    with(|c| c.events.push(serde_json::json!({"ev":"msm","kind":kind,"scalars":ns,"points":np})));
}

/// Straus/Pippenger in the real backend zip scalars with points (the shorter one wins); a length
/// mismatch is recorded as an event so that scenarios can flag it.
fn msm_zip(kind: &str, scalars: Vec<NodeId>, points: Vec<PointId>) -> RistrettoPoint {
    record_msm(kind, scalars.len(), points.len());
    RistrettoPoint(with(|c| c.msm(&scalars, &points)))
}

impl MultiscalarMul for RistrettoPoint {
    type Point = RistrettoPoint;
    fn multiscalar_mul<I, J>(scalars: I, points: J) -> RistrettoPoint
    where
        I: IntoIterator,
        I::Item: Borrow<Scalar>,
        J: IntoIterator,
        J::Item: Borrow<RistrettoPoint>,
    {
        let s: Vec<NodeId> = scalars.into_iter().map(|x| x.borrow().node()).collect();
        let p: Vec<PointId> = points.into_iter().map(|x| x.borrow().0).collect();
        msm_zip("ct", s, p)
    }
}
impl VartimeMultiscalarMul for RistrettoPoint {
    type Point = RistrettoPoint;
    fn optional_multiscalar_mul<I, J>(scalars: I, points: J) -> Option<RistrettoPoint>
    where
        I: IntoIterator,
        I::Item: Borrow<Scalar>,
        J: IntoIterator<Item = Option<RistrettoPoint>>,
    {
        let s: Vec<NodeId> = scalars.into_iter().map(|x| x.borrow().node()).collect();
        let p: Option<Vec<PointId>> = points.into_iter().map(|x| x.map(|q| q.0)).collect();
        p.map(|p| msm_zip("vartime", s, p))
    }
}

/// MODEL of the precomputed Straus backend, including its length contract
/// (`precomputed_straus.rs`: `assert_eq!(sp, static_nafs.len()); assert_eq!(dp, dynamic_nafs.len());`).
pub struct VartimeRistrettoPrecomputation {
    static_points: Vec<PointId>,
}
impl VartimeRistrettoPrecomputation {
    /// model API: the points this table was built from, in order
    pub fn static_point_ids(&self) -> &[PointId] {
        &self.static_points
    }
}
impl VartimePrecomputedMultiscalarMul for VartimeRistrettoPrecomputation {
    type Point = RistrettoPoint;

    fn new<I>(static_points: I) -> Self
    where
        I: IntoIterator,
        I::Item: Borrow<RistrettoPoint>,
    {
        let static_points: Vec<PointId> = static_points.into_iter().map(|p| p.borrow().0).collect();
        with(|c| c.events.push(serde_json::json!({"ev":"precomp_new","points":static_points})));
        VartimeRistrettoPrecomputation { static_points }
    }

    fn optional_mixed_multiscalar_mul<I, J, K>(&self, static_scalars: I, dynamic_scalars: J, dynamic_points: K) -> Option<RistrettoPoint>
    where
        I: IntoIterator,
        I::Item: Borrow<Scalar>,
        J: IntoIterator,
        J::Item: Borrow<Scalar>,
        K: IntoIterator<Item = Option<RistrettoPoint>>,
    {
        let ss: Vec<NodeId> = static_scalars.into_iter().map(|x| x.borrow().node()).collect();
        let ds: Vec<NodeId> = dynamic_scalars.into_iter().map(|x| x.borrow().node()).collect();
        let dp: Option<Vec<PointId>> = dynamic_points.into_iter().map(|x| x.map(|q| q.0)).collect();
        let dp = dp?;
        record_msm("precomp", ss.len() + ds.len(), self.static_points.len() + dp.len());
        assert_eq!(self.static_points.len(), ss.len(), "precomputed MSM: static scalar count != table size");
        assert_eq!(dp.len(), ds.len(), "precomputed MSM: dynamic scalar count != dynamic point count");
        let mut s = ss;
        s.extend(ds);
        let mut p = self.static_points.clone();
        p.extend(dp);
        Some(RistrettoPoint(with(|c| c.msm(&s, &p))))
    }
}
