use crate::ristretto::{CompressedRistretto, RistrettoPoint};

/// point id 1 of the arena is the basepoint (symcore::Core::new)
pub const RISTRETTO_BASEPOINT_POINT: RistrettoPoint = RistrettoPoint(1);

/// the compressed basepoint: a fixed reserved literal that `decompress`/`compress` special-case
pub const RISTRETTO_BASEPOINT_COMPRESSED: CompressedRistretto = CompressedRistretto(crate::ristretto::BASEPOINT_BYTES);

/// model of the basepoint table (see ristretto::RistrettoBasepointTable)
pub static RISTRETTO_BASEPOINT_TABLE: &crate::ristretto::RistrettoBasepointTable = &crate::ristretto::RistrettoBasepointTable;
