//! MODEL of curve25519_dalek::scalar::Scalar: 32 bytes that are either a canonical little-endian
//! integer < l (constants) or a tagged handle to a term-DAG node (symcore).
use core::{
    borrow::Borrow,
    fmt::Debug,
    iter::{Product, Sum},
    ops::{Add, AddAssign, Index, Mul, MulAssign, Neg, Sub, SubAssign},
};

use rand_core::{CryptoRngCore, RngCore};
use subtle::{Choice, ConditionallySelectable, ConstantTimeEq, CtOption};
use symcore::{with, NodeId};
use zeroize::Zeroize;

#[derive(Copy, Clone, Hash)]
pub struct Scalar {
    pub(crate) bytes: [u8; 32],
}

impl Scalar {
    pub const ZERO: Self = Self { bytes: [0u8; 32] };
    pub const ONE: Self = Self {
        bytes: [1, 0, 0, 0, 0, 0, 0, 0, 0, 0, 0, 0, 0, 0, 0, 0, 0, 0, 0, 0, 0, 0, 0, 0, 0, 0, 0, 0, 0, 0, 0, 0],
    };

    /// model API: scalar for a term node
    pub fn from_node(n: NodeId) -> Scalar {
        Scalar { bytes: with(|c| c.scalar_bytes(n)) }
    }
    /// model API: term node of this scalar
    pub fn node(&self) -> NodeId {
        with(|c| c.scalar_node(&self.bytes))
    }
    /// model API: a fresh named variable
    pub fn sym(name: &str, kind: &str) -> Scalar {
        Scalar::from_node(with(|c| c.var(name, kind, None, serde_json::Value::Null)))
    }

    pub fn from_bytes_mod_order(bytes: [u8; 32]) -> Scalar {
        Scalar::from_node(with(|c| {
            if c.dec32(&bytes).is_some() {
                c.scalar_from_wide(&bytes)
            } else {
                c.scalar_node(&bytes)
            }
        }))
    }
    pub fn from_bytes_mod_order_wide(input: &[u8; 64]) -> Scalar {
        Scalar::from_node(with(|c| c.scalar_from_wide(input)))
    }
    /// documented contract: Some iff the bytes are the canonical encoding of an integer < l.
    /// On an opaque symbolic element this is a recorded fork ("canonical").
    pub fn from_canonical_bytes(bytes: [u8; 32]) -> CtOption<Scalar> {
        let r: Option<NodeId> = with(|c| {
            if let Some(id) = c.dec32(&bytes) {
                match c.blobs[id as usize].clone() {
                    symcore::Blob::Scalar(n) => Some(n),
                    symcore::Blob::Elem { k } => {
                        let natural = !c.noncanonical.contains(&id);
                        if c.decide("canonical", natural, serde_json::json!({"elem":k})) {
                            Some(c.scalar_node(&bytes))
                        } else {
                            None
                        }
                    },
                    _ => {
                        // bytes of a point or hash output read as a scalar: unknown canonicity
                        if c.decide("canonical", false, serde_json::json!({"blob":id})) {
                            Some(c.scalar_node(&bytes))
                        } else {
                            None
                        }
                    },
                }
            } else {
                symcore::fl::Fl::from_canonical(&bytes).map(|v| c.konst(v))
            }
        });
        match r {
            Some(n) => {
                // keep the very same bytes for opaque elements so that re-encoding is the identity
                let s = if with(|c| c.dec32(&bytes).is_some()) { Scalar { bytes } } else { Scalar::from_node(n) };
                CtOption::new(s, Choice::from(1))
            },
            None => CtOption::new(Scalar::ZERO, Choice::from(0)),
        }
    }
    pub const fn to_bytes(&self) -> [u8; 32] {
        self.bytes
    }
    pub const fn as_bytes(&self) -> &[u8; 32] {
        &self.bytes
    }
    pub fn random<R: CryptoRngCore + ?Sized>(rng: &mut R) -> Self {
        let mut scalar_bytes = [0u8; 64];
        rng.fill_bytes(&mut scalar_bytes);
        Scalar::from_bytes_mod_order_wide(&scalar_bytes)
    }
    pub fn invert(&self) -> Scalar {
        let n = self.node();
        Scalar::from_node(with(|c| c.inv(n)))
    }
    /// contract: replaces each input by its inverse, returns the inverse of the product of all inputs
    pub fn batch_invert(inputs: &mut [Scalar]) -> Scalar {
        let mut prod = Scalar::ONE;
        for x in inputs.iter_mut() {
            prod = prod * *x;
            *x = x.invert();
        }
        prod.invert()
    }
}

impl Debug for Scalar {
    fn fmt(&self, f: &mut core::fmt::Formatter<'_>) -> core::fmt::Result {
        write!(f, "Scalar{{{}}}", symcore::hex(&self.bytes))
    }
}
impl Default for Scalar {
    fn default() -> Scalar {
        Scalar::ZERO
    }
}
impl Zeroize for Scalar {
    fn zeroize(&mut self) {
        self.bytes.zeroize();
    }
}
impl ConstantTimeEq for Scalar {
    fn ct_eq(&self, other: &Self) -> Choice {
        if self.bytes == other.bytes {
            return Choice::from(1);
        }
        let (a, b) = (self.node(), other.node());
        Choice::from(with(|c| c.scalar_eq(a, b)) as u8)
    }
}
impl PartialEq for Scalar {
    fn eq(&self, other: &Self) -> bool {
        self.ct_eq(other).into()
    }
}
impl Eq for Scalar {}
impl ConditionallySelectable for Scalar {
    fn conditional_select(a: &Self, b: &Self, choice: Choice) -> Self {
        if choice.into() {
            *b
        } else {
            *a
        }
    }
}
impl Index<usize> for Scalar {
    type Output = u8;
    fn index(&self, i: usize) -> &u8 {
        &self.bytes[i]
    }
}

fn bin(a: &Scalar, b: &Scalar, f: impl FnOnce(&mut symcore::Core, NodeId, NodeId) -> NodeId) -> Scalar {
    let (x, y) = (a.node(), b.node());
    Scalar::from_node(with(|c| f(c, x, y)))
}

macro_rules! binop {
    ($tr:ident, $m:ident, $atr:ident, $am:ident, $core:ident) => {
        impl<'a, 'b> $tr<&'b Scalar> for &'a Scalar {
            type Output = Scalar;
            fn $m(self, rhs: &'b Scalar) -> Scalar {
                bin(self, rhs, |c, x, y| c.$core(x, y))
            }
        }
        impl<'b> $tr<&'b Scalar> for Scalar {
            type Output = Scalar;
            fn $m(self, rhs: &'b Scalar) -> Scalar {
                (&self).$m(rhs)
            }
        }
        impl<'a> $tr<Scalar> for &'a Scalar {
            type Output = Scalar;
            fn $m(self, rhs: Scalar) -> Scalar {
                self.$m(&rhs)
            }
        }
        impl $tr<Scalar> for Scalar {
            type Output = Scalar;
            fn $m(self, rhs: Scalar) -> Scalar {
                (&self).$m(&rhs)
            }
        }
        impl<'b> $atr<&'b Scalar> for Scalar {
            fn $am(&mut self, rhs: &'b Scalar) {
                *self = (&*self).$m(rhs);
            }
        }
        impl $atr<Scalar> for Scalar {
            fn $am(&mut self, rhs: Scalar) {
                *self = (&*self).$m(&rhs);
            }
        }
    };
}
binop!(Add, add, AddAssign, add_assign, add);
binop!(Sub, sub, SubAssign, sub_assign, sub);
binop!(Mul, mul, MulAssign, mul_assign, mul);

impl<'a> Neg for &'a Scalar {
    type Output = Scalar;
    fn neg(self) -> Scalar {
        let n = self.node();
        Scalar::from_node(with(|c| c.neg(n)))
    }
}
impl Neg for Scalar {
    type Output = Scalar;
    fn neg(self) -> Scalar {
        -&self
    }
}
impl<T> Sum<T> for Scalar
where T: Borrow<Scalar>
{
    fn sum<I: Iterator<Item = T>>(iter: I) -> Self {
        iter.fold(Scalar::ZERO, |acc, item| acc + item.borrow())
    }
}
impl<T> Product<T> for Scalar
where T: Borrow<Scalar>
{
    fn product<I: Iterator<Item = T>>(iter: I) -> Self {
        iter.fold(Scalar::ONE, |acc, item| acc * item.borrow())
    }
}

impl From<u8> for Scalar {
    fn from(x: u8) -> Scalar {
        Scalar { bytes: symcore::fl::Fl::from_u64(x as u64).to_bytes() }
    }
}
impl From<u16> for Scalar {
    fn from(x: u16) -> Scalar {
        Scalar { bytes: symcore::fl::Fl::from_u64(x as u64).to_bytes() }
    }
}
impl From<u32> for Scalar {
    fn from(x: u32) -> Scalar {
        Scalar { bytes: symcore::fl::Fl::from_u64(x as u64).to_bytes() }
    }
}
impl From<u64> for Scalar {
    /// a registered u64 (a witness value or promise the scenario made symbolic) yields its variable
    fn from(x: u64) -> Scalar {
        Scalar::from_node(with(|c| c.scalar_from_u64(x)))
    }
}
impl From<u128> for Scalar {
    fn from(x: u128) -> Scalar {
        Scalar { bytes: symcore::fl::Fl::from_u128(x).to_bytes() }
    }
}

impl ff::Field for Scalar {
    const ONE: Self = Scalar::ONE;
    const ZERO: Self = Scalar::ZERO;

    fn random(mut rng: impl RngCore) -> Self {
        let mut scalar_bytes = [0u8; 64];
        rng.fill_bytes(&mut scalar_bytes);
        Scalar::from_bytes_mod_order_wide(&scalar_bytes)
    }
    fn square(&self) -> Self {
        self * self
    }
    fn double(&self) -> Self {
        self + self
    }
    fn invert(&self) -> CtOption<Self> {
        CtOption::new(Scalar::invert(self), !self.ct_eq(&Scalar::ZERO))
    }
    fn sqrt_ratio(_num: &Self, _div: &Self) -> (Choice, Self) {
        unimplemented!("model: sqrt_ratio is not part of the modelled contract")
    }
}
