"""Concrete predicates that decide whether a solver finding reproduces on the real crates.
Each takes a Finding and returns (reproduced: bool|None, detail)."""
from lib import run_replay


def _runs(f, seeds=(1, 2, 3)):
    return [run_replay(f.cfg, s) for s in seeds]


def honest_rejected(f):
    """C01/C12: an honest scenario (prove then verify) fails on the real crates"""
    outs = _runs(f)
    bad = []
    for o in outs:
        if 'crash' in o:
            return None, o
        pr = [p['result'] for p in o['prove']]
        if any(r != 'ok' for r in pr):
            bad.append({'prove': pr})
            continue
        vr = [(v['action'], v['result']) for v in (o['verify'] or [])]
        if any(r != 'ok' for _, r in vr):
            bad.append({'verify': vr})
    return (len(bad) == len(outs)), bad[:1]


def tampered_accepted(f):
    """C02/C03/C05/C07/C08: a scenario that must be refused is accepted (Ok) by a verifying action on the real crates"""
    outs = _runs(f)
    bad = []
    for o in outs:
        if 'crash' in o:
            return None, o
        for v in (o.get('verify') or []):
            if v['action'] != 'RecoverOnly' and v['result'] == 'ok':
                bad.append({'action': v['action'], 'result': 'ok'})
                break
    return (len(bad) == len(outs)), bad[:1]


def any_panic(f):
    outs = _runs(f, (1,))
    for o in outs:
        if 'crash' in o:
            return True, o
        for p in o.get('prove') or []:
            if p.get('result') == 'panic':
                return True, p
        for v in o.get('verify') or []:
            if v.get('result') == 'panic':
                return True, v
        if o.get('decode') == 'panic' or o.get('decode_panic'):
            return True, o
    return False, None


def mask_wrong(f):
    """C09: some recovering action returns a mask different from the blindings (or none) for a seeded member"""
    outs = _runs(f)
    bad = []
    for o in outs:
        if 'crash' in o:
            return None, o
        order = f.cfg.get('verify_order') or list(range(len(o['members'])))
        for v in (o.get('verify') or []):
            if v['result'] != 'ok':
                bad.append({'action': v['action'], 'result': v['result']})
                break
            exp = []
            for i in order:
                mem = o['members'][i]
                mc = f.cfg['members'][i]
                ts = mc.get('tamper_statement') or {}
                seeded = mem['seeded'] and ts.get('op') not in ('seed_none',)
                if v['action'] == 'VerifyOnly' or not seeded or mem['m'] != 1:
                    exp.append(None)
                else:
                    exp.append(mem['blindings'][0])
            if f.detail.get('expect_wrong_seed'):
                continue
            if v['masks'] != exp:
                bad.append({'action': v['action'], 'masks': v['masks'], 'expected': exp})
                break
    return (len(bad) == len(outs)), bad[:1]


def prover_accepts_invalid(f):
    """C06: the prover returns a proof for an invalid witness"""
    outs = _runs(f)
    bad = [o['prove'] for o in outs if 'crash' not in o and any(p['result'] == 'ok' for p in o['prove'])]
    return (len(bad) == len(outs)), bad[:1]


def prover_rejects_valid(f):
    outs = _runs(f)
    bad = [o['prove'] for o in outs if 'crash' not in o and any(p['result'] != 'ok' for p in o['prove'])]
    return (len(bad) == len(outs)), bad[:1]


def verify_not_refused(f):
    """a scenario that must be refused with an error returns Ok (any action)"""
    outs = _runs(f)
    bad = []
    for o in outs:
        if 'crash' in o:
            return None, o
        for v in (o.get('verify') or []):
            if v['result'] == 'ok':
                bad.append({'action': v['action']})
                break
    return (len(bad) == len(outs)), bad[:1]


def codec_mismatch(f):
    """C15: decode verdict / re-encoding differs from the specification on the real crates"""
    o = run_replay(f.cfg, 1)
    if 'crash' in o:
        return None, o
    exp = f.detail.get('expect_decode')
    got = 'ok' if o.get('decode') == 'ok' else ('panic' if o.get('decode') == 'panic' else 'err')
    if exp is not None and got != exp:
        return True, {'decode': o.get('decode'), 'expected': exp}
    if got == 'ok' and (not o.get('reencode_equal') or o.get('serde_decode') != 'ok' or not o.get('serde_bytes_equal')):
        return True, {k: o.get(k) for k in ('reencode_equal', 'serde_decode', 'serde_bytes_equal')}
    if got != 'ok' and o.get('serde_decode') == 'ok':
        return True, {'serde_decode': 'ok', 'decode': o.get('decode')}
    return False, o


def roundtrip_fails(f):
    """C15: a proof output by the prover does not decode back to an equal proof"""
    outs = _runs(f)
    bad = []
    for o in outs:
        if 'crash' in o:
            return None, o
        for p in o['prove']:
            rt = p.get('roundtrip')
            if p['result'] == 'ok' and rt and not (rt.get('decoded') and rt.get('equal') and rt.get('bytes_equal')):
                bad.append(rt)
                break
    return (len(bad) == len(outs)), bad[:1]


def results_len_wrong(f):
    """C03: Ok with a number of results different from the batch size, or results at wrong positions"""
    outs = _runs(f, (1,))
    for o in outs:
        if 'crash' in o:
            return None, o
        k = len(f.cfg.get('verify_order') or f.cfg['members'])
        for v in o.get('verify') or []:
            if v['result'] == 'ok' and v.get('n_results') != k:
                return True, {'n_results': v.get('n_results'), 'batch': k}
    return False, None


PREDS = {k: v for k, v in globals().items() if callable(v) and not k.startswith('_') and k != 'run_replay'}
