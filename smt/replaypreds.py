"""Concrete predicates that decide whether a solver finding reproduces on the real crates.
Each takes a Finding and returns (reproduced: bool|None, detail)."""
import json
from lib import run_replay


def _runs(f, seeds=(1, 2, 3)):
    cfg = f.detail.get('replay_cfg', f.cfg)
    if f.detail.get('replay_seeds'):
        seeds = seeds[:f.detail['replay_seeds']]
    return [run_replay(cfg, s) for s in seeds]


def does_not_terminate(f):
    """the scenario does not return on the real crates either (2 minutes; the same scenario takes well under a second on the unchanged tree)"""
    import subprocess
    try:
        run_replay(f.detail.get('replay_cfg', f.cfg), 1, timeout=120)
    except subprocess.TimeoutExpired:
        return True, {'real crates': 'no result after 120 s', 'scenario': f.detail.get('replay_cfg', f.cfg)}
    return False, None


def honest_rejected(f):
    """C01/C12: an honest scenario (prove then verify) fails on the real crates"""
    outs = _runs(f)
    bad = []
    for o in outs:
        if 'crash' in o:
            return None, o
        pr = [p['result'] for p in o['prove']]
        if any(r != 'ok' for r in pr):
            bad.append({'prove': pr})
            continue
        vr = [(v['action'], v['result']) for v in (o['verify'] or [])]
        if any(r != 'ok' for _, r in vr):
            bad.append({'verify': vr})
    return (len(bad) == len(outs)), bad[:1]


def tampered_accepted(f):
    """C02/C03/C05/C07/C08: a scenario that must be refused is accepted (Ok) by a verifying action on the real crates"""
    outs = _runs(f)
    bad = []
    for o in outs:
        if 'crash' in o:
            return None, o
        for v in (o.get('verify') or []):
            if v['action'] != 'RecoverOnly' and v['result'] == 'ok':
                bad.append({'action': v['action'], 'result': 'ok'})
                break
    return (len(bad) == len(outs)), bad[:1]


def any_panic(f):
    outs = _runs(f, (1,))
    for o in outs:
        if 'crash' in o:
            return True, o
        for p in o.get('prove') or []:
            if p.get('result') == 'panic':
                return True, p
        for v in o.get('verify') or []:
            if v.get('result') == 'panic':
                return True, v
        if o.get('decode') == 'panic' or o.get('decode_panic') or o.get('serde_decode') == 'panic' or o.get('serde_reader_decode') == 'panic':
            return True, o
        for shp, res in (o.get('serde_shapes') or {}).items():
            if res == 'panic':
                return True, {'serde visitor panicked on input presented as': shp}
    return False, None


def mask_wrong(f):
    """C09: some recovering action returns a mask different from the blindings (or none) for a seeded member"""
    outs = _runs(f)
    bad = []
    for o in outs:
        if 'crash' in o:
            return None, o
        order = f.cfg.get('verify_order') or list(range(len(o['members'])))
        for v in (o.get('verify') or []):
            if v['result'] != 'ok':
                bad.append({'action': v['action'], 'result': v['result']})
                break
            exp = []
            for i in order:
                mem = o['members'][i]
                mc = f.cfg['members'][i]
                ts = mc.get('tamper_statement') or {}
                seeded = mem['seeded'] and ts.get('op') not in ('seed_none',)
                if v['action'] == 'VerifyOnly' or not seeded or mem['m'] != 1:
                    exp.append(None)
                else:
                    exp.append(mem['blindings'][0])
            if f.detail.get('expect_wrong_seed'):
                continue
            if v['masks'] != exp:
                bad.append({'action': v['action'], 'masks': v['masks'], 'expected': exp})
                break
    return (len(bad) == len(outs)), bad[:1]


def prover_accepts_invalid(f):
    """C06: the prover returns a proof for an invalid witness"""
    outs = _runs(f)
    bad = [o['prove'] for o in outs if 'crash' not in o and any(p['result'] == 'ok' for p in o['prove'])]
    return (len(bad) == len(outs)), bad[:1]


def prover_rejects_valid(f):
    outs = _runs(f)
    bad = [o['prove'] for o in outs if 'crash' not in o and any(p['result'] != 'ok' for p in o['prove'])]
    return (len(bad) == len(outs)), bad[:1]


def verify_not_refused(f):
    """a scenario that must be refused with an error returns Ok (any action)"""
    outs = _runs(f)
    bad = []
    for o in outs:
        if 'crash' in o:
            return None, o
        for v in (o.get('verify') or []):
            if v['result'] == 'ok':
                bad.append({'action': v['action']})
                break
    return (len(bad) == len(outs)), bad[:1]


def codec_mismatch(f):
    """C15: decode verdict / re-encoding differs from the specification on the real crates"""
    cfg0 = f.detail.get('replay_cfg', f.cfg)
    exp = f.detail.get('expect_decode')
    o = run_replay(cfg0, 1)
    if 'crash' in o:
        return None, o
    if exp == 'err' and o.get('decode') != 'ok' and cfg0.get('scenario') == 'codec':
        # a buffer the specification refuses whatever its contents: retry with contents that parse under any reading of the tag byte
        o2 = run_replay(dict(cfg0, all_scalars=True), 1)
        if 'crash' not in o2 and (o2.get('decode') == 'ok' or o2.get('serde_decode') == 'ok'):
            o = o2
    got = 'ok' if o.get('decode') == 'ok' else ('panic' if o.get('decode') == 'panic' else 'err')
    if exp is not None and got != exp:
        return True, {'decode': o.get('decode'), 'expected': exp}
    if got == 'ok' and (not o.get('reencode_equal') or o.get('serde_decode') != 'ok' or not o.get('serde_bytes_equal')):
        return True, {k: o.get(k) for k in ('reencode_equal', 'serde_decode', 'serde_bytes_equal')}
    if got != 'ok' and o.get('serde_decode') == 'ok':
        return True, {'serde_decode': 'ok', 'decode': o.get('decode')}
    if o.get('serde_reader_decode') is not None and o.get('serde_reader_decode') != o.get('serde_decode'):
        return True, {'serde_decode (slice)': o.get('serde_decode'), 'serde_decode (reader)': o.get('serde_reader_decode')}
    return False, o


def roundtrip_fails(f):
    """C15: a proof output by the prover does not decode back to an equal proof"""
    outs = _runs(f)
    bad = []
    for o in outs:
        if 'crash' in o:
            return None, o
        for p in o['prove']:
            rt = p.get('roundtrip')
            if p['result'] == 'ok' and rt and not (rt.get('decoded') and rt.get('equal') and rt.get('bytes_equal')):
                bad.append(rt)
                break
    return (len(bad) == len(outs)), bad[:1]


def results_len_wrong(f):
    """C03: Ok with a number of results different from the batch size, or results at wrong positions"""
    outs = _runs(f, (1,))
    for o in outs:
        if 'crash' in o:
            return None, o
        cfg = f.detail.get('replay_cfg', f.cfg)
        k = len(cfg.get('verify_order') or cfg['members'])
        for v in o.get('verify') or []:
            if v['result'] == 'ok' and v.get('n_results') != k:
                return True, {'n_results': v.get('n_results'), 'batch': k}
    return False, None


def tampered_accepted_offsetting(f):
    """C08/C03: a batch of individually invalid proofs whose defects are equal and opposite is accepted.
    Built from the finding's configuration: k honest members, +delta / -delta on the same d1 coordinate of two of them."""
    c = f.cfg
    n, x = c['n'], c.get('x', 1)
    ms = [(mm.get('m', 1), mm.get('cap', mm.get('m', 1))) for mm in c['members']]
    if len(ms) < 2:
        ms = ms + ms
    found = []
    for coord in range(x):
        members = []
        for t, (m, cap) in enumerate(ms):
            mc = {'m': m, 'cap': cap}
            if t == 0:
                mc['tamper'] = {'op': 'scalar_add_delta', 'elem': coord, 'shared': True, 'name': 'c'}
            if t == len(ms) - 1:
                mc['tamper'] = {'op': 'scalar_add_delta', 'elem': coord, 'shared': True, 'name': 'c', 'neg': True}
            members.append(mc)
        for seed in (1, 2):
            o = run_replay({'scenario': 'batch', 'n': n, 'x': x, 'members': members, 'actions': ['VerifyOnly']}, seed)
            if 'crash' in o:
                return None, o
            for v in o.get('verify') or []:
                if v['result'] == 'ok' and v.get('reference') and not all(r is True for r in v['reference']):
                    found.append({'members': members, 'library': 'ok', 'reference_per_member': v['reference']})
        if found:
            break
    return (len(found) > 0), found[:1]


def batch_relation_disagrees(f):
    """C02/C03/C08: on a batch of the finding's shape (same aggregation factors, capacities, order) the library's verdict differs from the independent
    per-member reference verifier (refimpl.rs): an all-valid batch refused, or a batch with one invalid member (each position, several proof
    elements) accepted; otherwise the offsetting-defects attack"""
    c = f.cfg
    n, x = c['n'], c.get('x', 1)
    ms = [(mm.get('m', 1), mm.get('cap', mm.get('m', 1))) for mm in c['members']]
    found = []
    variants = [[{'m': m, 'cap': cap, 'label': 'member %d' % i} for i, (m, cap) in enumerate(ms)]]
    for pos, (m, cap) in enumerate(ms):
        rounds = (n * m).bit_length() - 1
        for e in sorted({0, x, x + 3, x + 5 + 2 * max(rounds - 1, 0)}):
            if e >= x + 5 + 2 * rounds:
                continue
            is_scalar = e < x or e in (x + 3, x + 4)
            t = {'op': 'scalar_add_delta', 'elem': e} if is_scalar else {'op': 'point_add_delta_basis', 'elem': e, 'basis': {'b': 'h'}}
            v = [dict(mm) for mm in variants[0]]
            v[pos] = dict(v[pos], tamper=t)
            variants.append(v)
    for members in variants:
        o = run_replay({'scenario': 'batch', 'n': n, 'x': x, 'members': members, 'actions': ['VerifyOnly', 'RecoverAndVerify']}, 1)
        if 'crash' in o:
            return True, o
        for vr in o.get('verify') or []:
            ref = vr.get('reference')
            if not ref or any(r not in (True, False) for r in ref):
                continue
            lib_ok = vr['result'] == 'ok'
            if vr['result'] == 'panic' or lib_ok != all(ref):
                found.append({'members': members, 'action': vr['action'], 'library': vr['result'], 'reference_per_member': ref})
        if found:
            break
    if found:
        return True, found[:1]
    ok, det = tampered_accepted_offsetting(f)
    if ok:
        return ok, det
    return weights_predictable(f)


def probe_unchanged(f):
    """C04/C08: some datum is not bound by the transcript: two verifications that differ in that datum leave the caller's
    transcript in the same state (observed by squeezing bytes from it after verify_batch on the real crates).
    detail: n, x, m, cap, elems (proof element indices of the group)"""
    d = f.detail
    n, x, m, cap = d['n'], d['x'], d.get('m', 1), d.get('cap', d.get('m', 1))
    elems = d['elems']
    scal = lambda e: e < x or e in (x + 3, x + 4)
    variants = []
    for e in elems:
        variants.append([{'op': 'scalar_add_delta', 'elem': e, 'shared': True, 'name': 'q'}] if scal(e) else
                        [{'op': 'point_add_delta_basis', 'elem': e, 'basis': {'b': 'h'}}])
    sc = [e for e in elems if scal(e)]
    for i in range(len(sc)):
        for j in range(i + 1, len(sc)):
            variants.append([{'op': 'scalar_add_delta', 'elem': sc[i], 'shared': True, 'name': 'q'},
                             {'op': 'scalar_add_delta', 'elem': sc[j], 'shared': True, 'name': 'q', 'neg': True}])
    def probe(t):
        mc = {'m': m, 'cap': cap}
        if t is not None:
            mc['tamper'] = t
        o = run_replay({'scenario': 'batch', 'n': n, 'x': x, 'members': [mc], 'actions': ['VerifyOnly']}, 1)
        if 'crash' in o or not o.get('verify'):
            return None
        return o['verify'][0]['logs_after'][0]
    base = probe(None)
    if base is None:
        return None, 'baseline replay failed'
    for t in variants:
        p = probe(t)
        if p is not None and p == base:
            return True, {'tamper': t, 'transcript_probe': p, 'baseline_probe': base}
    return False, {'variants': len(variants)}


def verdict_depends_on_seed_or_mode(f):
    """C10: the accept/reject verdict of one proof differs between statements with / without / with another seed, or between verifying modes"""
    outs = _runs(f, (1, 2))
    bad = []
    for o in outs:
        if 'crash' in o:
            return None, o
        vs = set()
        for per in o.get('verify_each') or []:
            for v in per:
                if v['action'] != 'RecoverOnly':
                    vs.add('ok' if v['result'] == 'ok' else 'refused')
        if len(vs) > 1:
            bad.append([[ (v['action'], v['result']) for v in per] for per in o['verify_each']])
    return (len(bad) == len(outs)), bad[:1]


def wrong_seed_recovers(f):
    """C10: recovery with a different seed returns the true mask"""
    outs = _runs(f, (1, 2))
    bad = []
    for o in outs:
        if 'crash' in o:
            return None, o
        per = (o.get('verify_each') or [None, None])[1]
        for v in per or []:
            if v['action'] != 'VerifyOnly' and v['result'] == 'ok' and v['masks'][0] == o['members'][0]['blindings'][0]:
                bad.append({'action': v['action'], 'mask': v['masks'][0]})
    return (len(bad) == len(outs)), bad[:1]


def recover_only_differs(f):
    """C10: on the real crates RecoverOnly and RecoverAndVerify return different masks for the same accepted proof and statement"""
    outs = _runs(f, (1, 2))
    bad = []
    for o in outs:
        if 'crash' in o:
            return None, o
        by = {v['action']: v for v in (o.get('verify') or [])}
        a, b = by.get('RecoverAndVerify'), by.get('RecoverOnly')
        if a and b and a['result'] == 'ok' and b['result'] == 'ok' and a['masks'] != b['masks']:
            bad.append({'RecoverAndVerify': a['masks'], 'RecoverOnly': b['masks']})
            continue
        for mi, per in enumerate(o.get('verify_each') or []):
            by = {v['action']: v for v in per or []}
            a, b = by.get('RecoverAndVerify'), by.get('RecoverOnly')
            if a and b and a['result'] == 'ok' and b['result'] == 'ok' and a['masks'] != b['masks']:
                bad.append({'view': mi, 'RecoverAndVerify': a['masks'], 'RecoverOnly': b['masks']})
                break
    return (len(bad) == len(outs)), bad[:1]


def verifier_promise_guard(f):
    """C07/C16 (Engine M counterexample): on the real crates the verifier's promise guard fires (its error text) exactly for promise >= 2^bits —
    tried at the solver model's (bit length, promise) and at the boundary values of that bit length"""
    c = f.cfg or {}
    n, p = c.get('n'), c.get('p')
    if n not in (1, 2, 4, 8, 16, 32, 64) or p is None:
        return None, 'model bit length %s is not constructible' % n
    top = (1 << 64) - 1
    cands = sorted({p, min(top, (1 << n) - 1), min(top, 1 << n), top})
    bad = []
    for q in cands:
        spec_err = n < 64 and q >= (1 << n)
        o = run_replay({'scenario': 'batch', 'n': n, 'x': 1, 'members': [{'m': 1, 'cap': 1, 'tamper_statement': {'op': 'promise', 'j': 0, 'value': str(q)}}], 'actions': ['VerifyOnly']}, 1)
        if 'crash' in o:
            return True, o
        res = (o.get('verify') or [{}])[0].get('result')
        fired = 'exceeds bit vector capacity' in json.dumps(res)
        if res == 'panic' or fired != spec_err:
            bad.append({'bits': n, 'promise': q, 'guard_should_fire': spec_err, 'verifier': res})
    return (len(bad) > 0), bad[:2]


def round_count_sweep(f):
    """C16 (Engine M counterexample in the round-count guard; a model with arbitrary usize values cannot be turned into a proof): sweep of the real
    verifier over proofs with 0..70 folding rounds for two statement sizes — refused with an error unless 2^rounds == bits * aggregation, never a panic"""
    bad = []
    for (n, m) in ((2, 1), (4, 4)):
        good = (n * m).bit_length() - 1
        for r in list(range(1, 12)) + [20, 31, 32, 33, 40, 62, 63, 64, 65, 70]:
            o = run_replay({'scenario': 'adversarial', 'n': n, 'x': 1, 'members': [{'m': m, 'cap': m, 'rounds': r}], 'actions': ['VerifyOnly', 'RecoverOnly']}, 1)
            if 'crash' in o:
                return True, o
            for v in o.get('verify') or []:
                res = v.get('result')
                if res == 'panic' or (r != good and res == 'ok'):
                    bad.append({'bits': n, 'aggregation': m, 'rounds': r, 'action': v.get('action'), 'verifier': res})
    return (len(bad) > 0), bad[:2]


def challenges_unchanged(f):
    """C04: changing one absorbed datum leaves the challenges unchanged. Observables on the real crates: (i) the mask returned by
    RecoverOnly for a seeded single-commitment statement (a function of every challenge), (ii) bytes squeezed from the caller's
    transcript after verify_batch. detail: n, x, m, cap, datum, rounds"""
    d = f.detail
    n, x, m, cap, datum, rounds = d['n'], d['x'], d['m'], d['cap'], d['datum'], d['rounds']
    kind = 'promise-position' if datum == 'promise-position' else datum.split(' ')[0].split('_')[0]
    idx = int(datum.replace('_', ' ').split(' ')[-1]) if datum[-1].isdigit() else 0
    alt = {}
    if kind == 'transcript':
        alt = {'verify_label': 'alt'}
    elif kind == 'H':
        alt = {'tamper_statement': {'op': 'h_base', 'from_used': bool(d.get('from_used'))}}
    elif kind == 'G':
        alt = {'tamper_statement': {'op': 'g_base', 'k': idx, 'from_used': bool(d.get('from_used'))}}
    elif kind == 'commitment':
        alt = {'tamper_statement': {'op': 'commitment_add_delta_basis', 'j': idx, 'basis': {'b': 'h'}}}
    elif kind == 'promise':
        alt = {'tamper_statement': {'op': 'promise', 'j': idx, 'value': 'other'}}
    elif kind == 'bit':
        alt = {'tamper_statement': {'op': 'bit_length', 'n': n * 2 if n < 64 else n // 2}}
    elif kind == 'aggregation':
        # the absorbed "M" must be the aggregation factor and nothing else: the same honest proof then verifies under a statement over parameters of
        # ANOTHER capacity (same commitments, promises, generators); if it does not, M (or something else that is absorbed) depends on the capacity
        bad = []
        for (mm, c1, c2) in ((1, 1, 4), (m, max(cap, m), 2 * max(cap, m)), (m, 2 * max(cap, m), max(cap, m))):
            o = run_replay({'scenario': 'batch', 'n': n, 'x': x, 'members': [{'m': mm, 'cap': c1, 'tamper_statement': {'op': 'capacity', 'cap': c2}}], 'actions': ['VerifyOnly']}, 1)
            if 'crash' in o or not o.get('verify'):
                continue
            if o['verify'][0]['result'] != 'ok':
                bad.append({'aggregation': mm, 'proved over capacity': c1, 'verified over capacity': c2, 'verifier': o['verify'][0]['result']})
        return (len(bad) > 0), bad[:2]
    elif kind == 'extension':
        return None, 'integer field: not replayable by a single-datum change through the API'
    else:
        e = {'A': x, 'A1': x + 1, 'B': x + 2}.get(kind)
        if e is None:
            e = x + 5 + 2 * idx + (1 if kind == 'R' else 0)
        alt = {'tamper': {'op': 'point_add_delta_basis', 'elem': e, 'basis': {'b': 'h'}}}
    found = []
    attempts = []
    if kind == 'promise-position':
        mm = max(m, 2)
        a = ['1'] + [None] * (mm - 1)
        va = {'m': mm, 'cap': max(cap, mm), 'promises': a}
        # the SAME proof looked at under the statement with the promise moved to the next position
        attempts.append((n, va, dict(va, tamper_statement=[{'op': 'promise', 'j': 0, 'value': None}, {'op': 'promise', 'j': 1, 'value': '1'}])))
    elif kind == 'promise':
        for (mm, cc, seeded) in ((1, 1, True), (m, cap, False)):
            if mm == 1 and idx > 0:
                continue
            base = {'m': mm, 'cap': cc, 'seeded': seeded, 'promises': [('3' if (n >= 2 and j == idx) else None) for j in range(mm)]}
            attempts.append((n, base, dict(base, **alt)))
            # boundary pairs: the two largest u64 values, zero versus absent is NOT a change
            hi = (1 << 64) - 1
            b1 = dict(base, promises=[(str(hi - 1) if j == idx else None) for j in range(mm)], values=[str(hi)] * mm)
            b2 = dict(base, promises=[(str(hi) if j == idx else None) for j in range(mm)], values=[str(hi)] * mm)
            attempts.append((64, b1, dict(b1, tamper_statement={'op': 'promise', 'j': idx, 'value': str(hi)})))
            _ = b2
    else:
        for (mm, cc, seeded) in ((1, 1, True), (m, cap, False)):
            if mm == 1 and kind == 'commitment' and idx > 0:
                continue
            if mm == 1 and kind in ('L', 'R') and idx >= (n).bit_length() - 1:
                continue
            base = {'m': mm, 'cap': cc, 'seeded': seeded, 'promises': ['3' if n >= 2 else None] * mm}
            attempts.append((n, base, dict(base, **alt)))
    if d.get('dup') and m >= 2 and n >= 4 and kind in ('promise', 'promise-position', 'commitment'):
        # the finding was made on an aggregate holding the same commitment at two positions: replay on an honest aggregate of that kind
        # (equal openings at those positions, a different promise at every position), altering the promise of each duplicated position
        base = {'m': m, 'cap': cap, 'seeded': False, 'dup_openings': d['dup'], 'promises': [str(1 + j) for j in range(m)], 'sym_bits': False}
        dup_attempts = []
        for pr in d['dup']:
            for pos in pr:
                dup_attempts.append((n, base, dict(base, tamper_statement={'op': 'promise', 'j': pos, 'value': 'other'})))
        attempts = dup_attempts + attempts
    bms, bmi = d.get('batch_ms'), d.get('member', 0)
    for (nn, va, vb) in attempts:
        obs = []
        for variant in (va, vb):
            if bms:
                # the datum of ONE member of a batch (every member in its own caller context): observe that member's mask / transcript
                if variant.get('m') != bms[bmi]:
                    continue
                members = [{'m': mm, 'cap': max(bms), 'seeded': mm == 1, 'label': 'member %d' % i} for i, mm in enumerate(bms)]
                members[bmi] = dict(variant, cap=max(bms), label='member %d' % bmi)
            else:
                members = [variant]
            o = run_replay({'scenario': 'batch', 'n': nn, 'x': x, 'members': members, 'actions': ['RecoverOnly']}, 1)
            if 'crash' in o or not o.get('verify'):
                obs.append(None)
                continue
            v = o['verify'][0]
            if bms and v['result'] == 'ok':
                obs.append(([v['masks'][bmi]], [v['logs_after'][bmi]]))
                continue
            obs.append((v.get('masks'), v.get('logs_after')) if v['result'] == 'ok' else ('refused', v['result']))
        if len(obs) < 2:
            continue
        if obs[0] is None or obs[1] is None or obs[0][0] == 'refused' or obs[1][0] == 'refused':
            continue
        if va.get('seeded') and obs[0][0] == obs[1][0]:
            found.append({'datum': datum, 'observable': 'RecoverOnly mask identical although the datum changed', 'mask': obs[0][0], 'a': va, 'b': vb, 'n': nn})
        if obs[0][1] == obs[1][1]:
            found.append({'datum': datum, 'observable': 'caller transcript state after verification identical although the datum changed', 'a': va, 'b': vb, 'n': nn})
        if found:
            break
    if not found and not bms and d.get('challenge') and kind in ('A', 'L', 'R', 'A1', 'B'):
        sep = _later_challenge_ignores(n, x, rounds, kind, idx, d['challenge'])
        if sep:
            found.append(sep)
    return (len(found) > 0), found[:2]


L_ORDER = (1 << 252) + 27742317777372353535851937790883648493


def _later_challenge_ignores(n, x, rounds, kind, idx, challenge):
    """the finding says: challenge c (LATER than the first challenge after datum X) does not depend on X. A single change of X still moves the
    first challenge after it, so the mask moves; what distinguishes a chained transcript from one where every challenge restarts from an early
    state is SEPARABILITY: with Y a message absorbed just before c, mask(X,Y) - mask(X,Y') - mask(X',Y) + mask(X',Y') is zero iff the effects of X
    and Y on the recovered mask (a function of every challenge) are independent. Four RecoverOnly runs on a seeded single-commitment proof."""
    ex = {'A': x, 'A1': x + 1, 'B': x + 2}.get(kind)
    if ex is None:
        ex = x + 5 + 2 * idx + (1 if kind == 'R' else 0)
    if challenge == 'e':
        ey = x + 1
    elif challenge.startswith('e_'):
        ey = x + 5 + 2 * int(challenge[2:])
    else:
        return None
    if ey == ex or n < 2:
        return None
    nn = max(n, 4)
    if ey >= x + 5 + 2 * ((nn).bit_length() - 1) and challenge != 'e':
        return None
    tx = {'op': 'point_add_delta_basis', 'elem': ex, 'basis': {'b': 'h'}}
    ty = {'op': 'point_add_delta_basis', 'elem': ey, 'basis': {'b': 'h'}}
    masks = {}
    for key, t in (('00', None), ('01', [ty]), ('10', [tx]), ('11', [tx, ty])):
        mem = {'m': 1, 'cap': 1, 'seeded': True}
        if t:
            mem['tamper'] = t
        o = run_replay({'scenario': 'batch', 'n': nn, 'x': x, 'members': [mem], 'actions': ['RecoverOnly']}, 1)
        if 'crash' in o or not o.get('verify') or o['verify'][0]['result'] != 'ok' or not o['verify'][0]['masks'][0]:
            return None
        masks[key] = [int.from_bytes(bytes.fromhex(h), 'little') for h in o['verify'][0]['masks'][0]]
    dd = [(a - b - c + e) % L_ORDER for a, b, c, e in zip(masks['00'], masks['01'], masks['10'], masks['11'])]
    if masks['00'] != masks['10'] and masks['00'] != masks['01'] and all(v == 0 for v in dd):
        return {'observable': 'the effects of %s_%d and of the message absorbed before challenge %s on the RecoverOnly mask are independent (second difference 0): '
                              'that challenge does not hash the earlier message' % (kind, idx, challenge), 'n': nn, 'x': x}
    return None


def _proof_elems(p):
    h = bytes.fromhex(p['proof']['hex'])
    return h[0], [h[1 + 32 * i:33 + 32 * i] for i in range((len(h) - 1) // 32)]


def nonces_repeat(f):
    """C13: with equal blinding factors in every component, the response scalars d1[k] coincide (the per-component nonces were not independent)"""
    c = f.cfg
    n, x = c['n'], max(c.get('x', 1), 2)
    m0 = c['members'][0]
    mem = {'m': m0.get('m', 1), 'cap': m0.get('cap', m0.get('m', 1)), 'seeded': m0.get('seeded', False), 'equal_blindings': True}
    bad = []
    for seed in (1, 2):
        o = run_replay({'scenario': 'batch', 'n': n, 'x': x, 'members': [mem], 'prove_only': True}, seed)
        if 'crash' in o or o['prove'][0]['result'] != 'ok':
            return None, o
        tag, els = _proof_elems(o['prove'][0])
        d1 = els[:x]
        if len(set(d1)) < len(d1):
            bad.append({'d1': [e.hex() for e in d1]})
    return (len(bad) == 2), bad[:1]


def nonce_shared_across_runs(f):
    """C13/C14: two prover runs (same witness and statement, different external randomness, or a failed external RNG and different
    witness/context/statement) share the blinding of A or a whole prover message"""
    c = f.detail.get('replay_cfg') or f.cfg
    bad = []
    for seed in (1, 2):
        o = run_replay(dict(c, prove_only=True), seed)
        if 'crash' in o or any(p['result'] != 'ok' for p in o['prove']) or len(o['prove']) < 2:
            return None, o
        a, b = o['prove'][0], o['prove'][1]
        same = []
        if a.get('a_blind') == b.get('a_blind'):
            same.append('blinding part of A (alpha * g)')
        ta, ea = _proof_elems(a)
        tb, eb = _proof_elems(b)
        x = ta
        for i, (p, q) in enumerate(zip(ea, eb)):
            if p == q and i >= x and i not in (x + 3, x + 4):
                same.append('proof point element %d' % i)
        if same:
            bad.append(same)
    return (len(bad) == 2), bad[:1]


def nonce_shared_generators(f):
    """C14: with a stuck external RNG, three statements that differ ONLY in blinding generator 1 (same commitment: that blinding component is zero) draw the
    same alpha: the blinding parts of A are collinear, A_2 - A_0 == 2 (A_1 - A_0) — computed on the real crates"""
    c = f.detail.get('replay_cfg') or f.cfg
    n, x = c['n'], max(c.get('x', 2), 2)
    m0 = c['members'][0]
    for rng in ('const', 'zero'):
        mem = lambda i: {'m': m0.get('m', 1), 'cap': m0.get('cap', m0.get('m', 1)), 'rng': rng, 'zero_blinding_components': list(range(1, x)), 'g1_shift': i, 'name_idx': 0}
        o = run_replay({'scenario': 'batch', 'n': n, 'x': x, 'members': [mem(0), mem(1), mem(2)], 'attacks': True}, 1)
        if 'crash' in o:
            return None, o
        if o.get('generator_linearity') is True:
            return True, {'external_rng': rng, 'statements differing only in blinding generator 1 share alpha': True, 'n': n, 'x': x}
    return nonce_shared_across_runs(f)


def wire_vector_mismatch(f):
    """C19 (and layout findings of C11/C13): a proof / mask recorded from the pinned tree with the real crates is no longer reproduced
    byte for byte by the current tree (same scenario, same deterministic inputs)"""
    import json, os
    from lib import VERIF
    vec = json.load(open(os.path.join(VERIF, 'replay', 'vectors', 'v040.json')))
    want_seeded = f.detail.get('only_seeded')
    bad = []
    for v in vec:
        if want_seeded and not v['cfg']['members'][0]['seeded']:
            continue
        o = run_replay(v['cfg'], v['seed'])
        if 'crash' in o:
            bad.append({'cfg': v['cfg'], 'crash': True})
            continue
        pr = o['prove'][0]
        if pr['result'] != 'ok':
            bad.append({'cfg': v['cfg'], 'prove': pr['result']})
        elif pr['proof']['hex'] != v['proof_hex']:
            bad.append({'cfg': v['cfg'], 'difference': 'proof bytes differ from the recorded 0.4.0 proof'})
        elif not o.get('verify') or o['verify'][0]['result'] != 'ok' or o['verify'][0]['masks'] != v['masks']:
            bad.append({'cfg': v['cfg'], 'difference': 'recorded proof no longer verifies / recovers the recorded mask'})
        elif o['verify'][0].get('reference_probe') and None not in o['verify'][0]['reference_probe'] and o['verify'][0]['logs_after'] != o['verify'][0]['reference_probe']:
            bad.append({'cfg': v['cfg'], 'difference': 'after verification the caller\'s transcript is not in the documented state (what continues on it differs from the release)',
                        'library': o['verify'][0]['logs_after'], 'documented': o['verify'][0]['reference_probe']})
        if len(bad) >= 2:
            break
    return (len(bad) > 0), bad[:2]


def seed_nonce_vector(f):
    f.detail['only_seeded'] = True
    return wire_vector_mismatch(f)


def wrong_seed_topbyte(f):
    """C10: a seed that differs from the prover's only in its most significant byte recovers the true mask"""
    c = f.cfg
    n, x = c['n'], c.get('x', 1)
    bad = []
    for seed in (1, 2, 3):
        o = run_replay({'scenario': 'batch', 'n': n, 'x': x, 'members': [{'m': 1, 'cap': 1, 'seeded': True, 'tamper_statement': {'op': 'seed_topbyte'}}], 'actions': ['RecoverOnly']}, seed)
        if 'crash' in o or not o.get('verify'):
            return None, o
        v = o['verify'][0]
        if v['result'] == 'ok' and v['masks'][0] == o['members'][0]['blindings'][0]:
            bad.append({'mask': v['masks'][0]})
    return (len(bad) == 3), bad[:1]


def prover_guard_mismatch(f):
    """C06 (Engine M counterexample): for the concrete (bit length, value, promise) of the solver model the real prover's accept/refuse
    decision differs from the witness relation  promise <= value < 2^bits"""
    c = f.cfg
    n, v, p = c['n'], c['v'], c.get('p')
    if n not in (1, 2, 4, 8, 16, 32, 64):
        return None, 'model bit length %s is not constructible' % n
    valid = (n >= 64 or v < (1 << n)) and (p is None or p <= v)
    mem = {'m': 1, 'cap': 1, 'values': [str(v)], 'promises': [str(p) if p is not None else None]}
    bad = []
    for seed in (1, 2):
        o = run_replay({'scenario': 'batch', 'n': n, 'x': 1, 'members': [mem], 'prove_only': True}, seed)
        if 'crash' in o:
            return None, o
        got = o['prove'][0]['result'] == 'ok'
        if got != valid:
            bad.append({'bits': n, 'value': v, 'promise': p, 'witness_valid': valid, 'prover': o['prove'][0]['result']})
    return (len(bad) == 2), bad[:1]


def ctor_mismatch(f):
    """C17 (Engine M counterexample / sweep): a constructor's verdict on concrete arguments differs from its documented domain"""
    c = f.detail.get('replay_cfg') or f.cfg
    if c is None:
        return None, 'no concrete arguments'
    o = run_replay(c, 1)
    if isinstance(o, dict) and 'crash' in o:
        return True, o
    want = ctor_spec(c)
    if want is None:
        return None, 'no specification for %s' % c.get('fn')
    got = 'panic' if o == 'panic' else ('ok' if isinstance(o, dict) and 'ok' in o else ('skip' if isinstance(o, dict) and 'skip' in o else 'err'))
    if got == 'skip':
        return None, o
    if got != ('ok' if want else 'err'):
        return True, {'arguments': c, 'constructor': o, 'documented_domain_says': 'accept' if want else 'refuse'}
    return False, o


def ctor_spec(c):
    """the documented domains of the constructors (from the property statement)"""
    pow2 = lambda x: x > 0 and (x & (x - 1)) == 0
    f = c['fn']
    if f in ('ext_u8', 'ext_usize'):
        return 1 <= c['v'] <= 6
    if f == 'params':
        return pow2(c['bit_length']) and c['bit_length'] <= 64 and pow2(c['cap'])
    if f == 'statement':
        nc = c['commitments']
        return pow2(nc) and c['promises'] == nc and nc <= c['cap'] and not (c.get('seeded') and nc > 1)
    if f == 'witness':
        b = c['blindings']
        return len(b) >= 1 and all(x == b[0] for x in b) and 1 <= b[0] <= 6
    if f == 'mask':
        return c['len'] == c['degree'] and 1 <= c['degree'] <= 6
    if f == 'commit':
        return 1 <= c['len'] <= c['degree']
    return None


def generators_mismatch(f):
    """C11/C19: on the real crates the generators of a parameter set differ from the independently computed documented derivation
    (SHAKE256 / SHA3-512 hash-to-group), coincide, are the identity, or the tables / compressed forms do not belong to them"""
    c = f.detail.get('replay_cfg') or f.cfg
    if c.get('scenario') != 'gens':
        c = {'scenario': 'gens', 'n': c.get('n', 8), 'cap': 4, 'x': 6}
    o = run_replay(c, 1)
    if 'crash' in o:
        return True, o
    r = o['reference']
    bad = []
    for k in ('gi', 'hi', 'g'):
        got = o[k + '_compressed']
        for idx, (a, b) in enumerate(zip(got, r[k])):
            if a != b:
                bad.append('%s[%d] differs from the documented derivation' % (k, idx))
                break
        if len(got) != len(r[k]):
            bad.append('%s has %d elements, expected %d' % (k, len(got), len(r[k])))
    if o['h_compressed'] != r['h']:
        bad.append('value generator is not the basepoint')
    allenc = o['gi_compressed'] + o['hi_compressed'] + o['g_compressed'] + [o['h_compressed']]
    if len(set(allenc)) != len(allenc):
        bad.append('generators coincide')
    if o['identity'] in allenc:
        bad.append('a generator is the identity')
    if o['g_compressed_accessor'] != o['g_compressed'] or o['h_compressed_accessor'] != o['h_compressed']:
        bad.append('compressed accessor mismatch')
    inter = []
    for a, b in zip(o['gi_compressed'], o['hi_compressed']):
        inter += [a, b]
    for k, _, enc in o['precomp_units']:
        if k >= len(inter) or inter[k] != enc:
            bad.append('precomputed table slot %d is not the interleaved generator' % k)
            break
    return (len(bad) > 0), bad[:4]


def zeroize_dirty(f):
    """C20: on the real crates, with secrets made of marker bytes, a heap block is released while still holding them"""
    o = run_replay(f.cfg, 1)
    if 'crash' in o:
        return None, o
    return (o.get('dirty_blocks', 0) > 0), o


def reference_prover_rejected(f):
    """C19: a proof produced by the independent straight-from-the-paper prover is refused by the library, or its mask is not recovered"""
    bad = []
    for seed in (1, 2):
        o = run_replay(f.cfg, seed)
        if 'crash' in o:
            return None, o
        rp = (o.get('reference_prover') or [{}])[0]
        if not (rp.get('reference_prove') == 'ok' and rp.get('library_verify') == 'ok' and rp.get('masks') == [rp.get('expected_mask')]):
            bad.append(rp)
    return (len(bad) == 2), bad[:1]


def noncanonical_accepted(f):
    """C05/C15: a proof in which one scalar is replaced by another 32-byte encoding of the same value (value + group order) is decoded and accepted"""
    bad = []
    for seed in (1, 2):
        o = run_replay(f.cfg, seed)
        if 'crash' in o:
            return None, o
        t = (o.get('tamper') or [None])[0]
        acc = any(v['result'] == 'ok' for v in (o.get('verify') or []))
        if t and t.get('decoded') and acc:
            bad.append({'decoded': True, 'verify': [(v['action'], v['result']) for v in o['verify']]})
    return (len(bad) == 2), bad[:1]


def weights_predictable(f):
    """C08/C02/C03: the batch weights can be recomputed from public data before the responses are fixed (or do not depend on the proofs at all):
    a pair of individually invalid proofs with d1 shifted by +w_1 / -w_0 is accepted. The weights are recomputed under a menu of weakened
    derivations (refimpl.rs::weight_attack); with the documented derivation none of them is accepted."""
    c = f.cfg
    n, x = c['n'], c.get('x', 1)
    ms = [(mm.get('m', 1), mm.get('cap', mm.get('m', 1))) for mm in c['members']][:3]
    while len(ms) < 3:
        ms = ms + [(1, 1)]       # three members: some attacks (weights in a low-dimensional family) need three
    found = []
    recipe = f.detail.get('weight_recipe')
    for (seeded, dup) in ((False, False), (True, False)) + (((False, True),) if recipe else ()):
        cfg = {'scenario': 'batch', 'n': n, 'x': x, 'members': [{'m': m, 'cap': cap, 'seeded': seeded and m == 1} for (m, cap) in ms], 'attacks': True}
        if recipe:
            # the derivation the model recorded on THIS tree (bindings folded into one absorbed value), re-executed on the real crates
            cfg['weight_recipe'] = recipe
            cfg['duplicate_last'] = dup
        o = run_replay(cfg, 1)
        if 'crash' in o:
            return None, o
        if o.get('weight_attack'):
            found.append({'accepted_with': o['weight_attack'], 'scenario': cfg})
            break
    return (len(found) > 0), found[:1]


def probe_or_weights(f):
    ok, det = probe_unchanged(f)
    if ok:
        return ok, det
    return weights_predictable(f)


def nonces_aliased(f):
    """C13 (a nonce used twice inside one proof): on the real crates, with the external RNG stuck, the library's proof differs from the proof of the
    documented derivation (refimpl::reference_prove_documented reproduces the unchanged library byte for byte) and EQUALS the proof obtained when
    the nonces named by the finding are identified with each other. detail: alias = groups of names that the model found to be one symbol"""
    c = f.detail.get('replay_cfg') or f.cfg
    n, x = c['n'], c.get('x', 1)
    m0 = c['members'][0]
    groups = f.detail.get('alias') or []
    pairs = []
    order = lambda nm: (0 if nm.startswith('alpha') else 2 if nm in ('r', 's') or nm.startswith('d_') or nm.startswith('eta') else 1,
                        int((nm.split('_') + ['0', '0'])[1]) if nm[0] == 'd' and nm[1] in 'LR' else 0, 0 if nm.startswith('dL') or nm == 'r' else 1 if nm.startswith('dR') or nm == 's' else 2, nm)
    for g in groups:
        g = sorted(g, key=order)
        for later in g[1:]:
            pairs.append([later, g[0]])
    found = []
    for rng in ('zero', 'const'):
        mem = {'m': m0.get('m', 1), 'cap': m0.get('cap', m0.get('m', 1)), 'seeded': m0.get('seeded', False), 'promises': m0.get('promises'), 'rng': rng}
        o = run_replay({'scenario': 'batch', 'n': n, 'x': x, 'members': [mem], 'documented_prover': True, 'alias': pairs}, 1)
        if 'crash' in o or not o.get('documented'):
            return None, o
        d = o['documented'][0]
        if d.get('documented_equal') is False and (d.get('aliased_equal') is True):
            found.append({'external_rng': rng, 'the proof equals the documented derivation with these nonces identified': pairs[:6], 'first differing proof element': d.get('first_differing_element')})
            break
    if found:
        return True, found
    if any('r' in g and 's' in g for g in groups):
        # the two final masking scalars can be opened from the responses of a 1-bit proof (no folding rounds): r1 = r + a*e, s1 = s + b*e
        # ... and from a SEEDED proof of any size by the witness holder (A, L, R are then the documented seed nonces' and the folded witness is known)
        for nn in (1, n, 4, 64):
            for rng in ('zero', 'const', 'sym'):
                o = run_replay({'scenario': 'batch', 'n': nn, 'x': x, 'members': [{'m': 1, 'cap': 1, 'rng': rng, 'seeded': True}], 'attacks': True}, 1)
                om = (o.get('opened_final_masks') or [None])[0] if 'crash' not in o else None
                if om and om[0] == om[1]:
                    return True, [{'external_rng': rng, 'bit length': nn, 'the two final masking scalars opened from a seeded proof by its witness holder are equal': om}]
    return nonces_repeat(f)


def prover_deviates(f):
    """C13/C14: with a stuck external RNG the library's proof is not the one the documented nonce derivation gives (every nonce = next output of the
    witness-keyed transcript RNG rebuilt after each prover message; seed nonces from Blake2b), for some member of the finding's configuration"""
    c = f.detail.get('replay_cfg') or f.cfg
    n, x = c['n'], c.get('x', 1)
    m0 = c['members'][0]
    for rng in ('zero', 'const'):
        for seeded in sorted({bool(m0.get('seeded', False)), False}):
            mem = {'m': m0.get('m', 1), 'cap': m0.get('cap', m0.get('m', 1)), 'seeded': seeded and m0.get('m', 1) == 1, 'rng': rng}
            o = run_replay({'scenario': 'batch', 'n': n, 'x': x, 'members': [mem], 'documented_prover': True}, 1)
            if 'crash' in o or not o.get('documented'):
                return None, o
            d = o['documented'][0]
            if d.get('documented_equal') is False:
                return True, {'external_rng': rng, 'member': mem, 'first differing proof element': d.get('first_differing_element')}
    return False, None


def nonce_hedge_broken(f):
    """C13/C14: on the real crates with a stuck external RNG (i) two runs that differ in witness / context / statement share the blinding of a prover
    message, or (ii) an observer reproduces alpha or (r, s, eta) from public data alone, or (iii) two 1-bit seeded proofs under different contexts
    have the same final masking scalars (opened from the responses)"""
    ok, det = nonce_shared_across_runs(f)
    if ok:
        return ok, det
    c = f.detail.get('replay_cfg') or f.cfg
    n, x = c['n'], c.get('x', 1)
    m0 = c['members'][0]
    for rng in ('zero', 'const'):
        cfg = {'scenario': 'batch', 'n': n, 'x': x, 'members': [{'m': m0.get('m', 1), 'cap': m0.get('cap', m0.get('m', 1)), 'rng': rng, 'promises': m0.get('promises')}], 'attacks': True}
        o = run_replay(cfg, 1)
        if 'crash' not in o and o.get('public_nonce_guess') and o['public_nonce_guess'][0]:
            return True, {'external_rng_stuck_at': rng, 'observer': o['public_nonce_guess'][0], 'scenario': cfg}
    cfg = {'scenario': 'batch', 'n': 1, 'x': x, 'members': [{'m': 1, 'cap': 1, 'rng': 'zero', 'seeded': True}, {'m': 1, 'cap': 1, 'rng': 'zero', 'seeded': True, 'name_idx': 0, 'label': 'alt'}],
           'attacks': True}
    o = run_replay(cfg, 1)
    if 'crash' not in o and o.get('opened_final_masks') and None not in o['opened_final_masks']:
        a, b = o['opened_final_masks']
        if a[0] == b[0] or a[1] == b[1]:
            return True, {'final masking scalars opened from two 1-bit seeded proofs made under different transcript contexts coincide': [a, b]}
    return False, det


def relation_disagrees(f):
    """C02: the library's verdict differs from the independent unoptimised evaluation of the relation
    (replay crate, refimpl.rs) on an honest proof or on a perturbed proof of the same configuration"""
    c = f.cfg
    n, x = c['n'], c.get('x', 1)
    m0 = c['members'][0]
    m, cap = m0.get('m', 1), m0.get('cap', m0.get('m', 1))
    maxv = (1 << n) - 1
    base = {'m': m, 'cap': cap, 'promises': [('3' if (j % 2 == 0 and maxv >= 3) else None) for j in range(m)]}
    variants = [dict(base)]
    rounds = (n * m).bit_length() - 1
    for e in range(0, x + 5 + 2 * rounds, max(1, (x + 5 + 2 * rounds) // 6)):
        is_scalar = e < x or e in (x + 3, x + 4)
        t = {'op': 'scalar_add_delta', 'elem': e} if is_scalar else {'op': 'point_add_delta_basis', 'elem': e, 'basis': {'b': 'h'}}
        variants.append(dict(base, tamper=t))
    found = []
    for seed in (1, 2):
        for v in variants:
            o = run_replay({'scenario': 'batch', 'n': n, 'x': x, 'members': [v], 'actions': ['VerifyOnly', 'RecoverAndVerify']}, seed)
            if 'crash' in o:
                return None, o
            for vr in o.get('verify') or []:
                lib_ok = vr['result'] == 'ok'
                ref = vr.get('reference', [None])[0]
                if ref in (True, False) and lib_ok != ref:
                    found.append({'member': v, 'action': vr['action'], 'library': vr['result'], 'reference_relation_holds': ref})
        if found:
            break
    if not found:
        # the library may be self-consistent over a WRONG generator basis (e.g. two positions sharing one generator: soundness needs them independent):
        # compare the generators of this configuration with the independent derivation
        class _F:
            pass
        g = _F()
        g.cfg = {'scenario': 'gens', 'n': n, 'cap': cap, 'x': x}
        g.detail = {'replay_cfg': g.cfg}
        ok, det = generators_mismatch(g)
        if ok:
            return True, [{'generators of this configuration differ from the documented derivation / coincide': det}]
    return (len(found) > 0), found[:2]


def _strip_ev(o):
    if isinstance(o, dict):
        return {k: _strip_ev(v) for k, v in o.items() if k not in ('events', 'work')}
    if isinstance(o, list):
        return [_strip_ev(x) for x in o]
    return o


def history_dependent(f):
    """C18: on the real crates, the last step of the history scenario returns other bytes than the same call made first in a fresh process"""
    cfg = f.detail.get('replay_cfg', f.cfg)
    steps = cfg.get('steps') or []
    if not steps:
        return None, 'no history scenario recorded'
    if cfg.get('equivalent_to'):
        # two calls whose argument objects have the same content but another construction history: same bytes
        bad = []
        for seed in (1, 2):
            a = run_replay({'scenario': 'history', 'steps': [cfg['equivalent_to']]}, seed)
            b = run_replay({'scenario': 'history', 'steps': [steps[0]]}, seed)
            if 'crash' in a or 'crash' in b:
                return None, (a, b)
            oa, ob = a['steps'][0]['out'], b['steps'][0]['out']
            pa = [_strip_ev({k: v for k, v in p.items() if k in ('result', 'proof', 'repeat')}) for p in oa.get('prove') or []]
            pb = [_strip_ev({k: v for k, v in p.items() if k in ('result', 'proof', 'repeat')}) for p in ob.get('prove') or []]
            if pa != pb or _strip_ev(oa.get('verify')) != _strip_ev(ob.get('verify')):
                bad.append({'seed': seed, 'freshly constructed arguments': json.dumps(pa)[:300], 'arguments with a construction history': json.dumps(pb)[:300]})
        return (len(bad) == 2), bad[:1]
    bad = []
    for seed in (1, 2):
        o = run_replay(cfg, seed)
        if 'crash' in o:
            return None, o
        rep_bad = [(si, pi) for si, st in enumerate(o['steps']) for pi, pr in enumerate((st['out'].get('prove') or []) if isinstance(st['out'], dict) else [])
                   if isinstance(pr, dict) and 'repeat' in pr and 'proof' in pr and pr['repeat'] != pr['proof']]
        if rep_bad:
            bad.append({'seed': seed, 'proving again with the same objects, transcript and RNG stream gives other bytes (step, member)': rep_bad[:3]})
            continue
        for at in range(len(steps)):
            fresh = run_replay({'scenario': 'history', 'steps': [steps[at]]}, seed)
            if 'crash' in fresh:
                return None, fresh
            a, b = _strip_ev(fresh['steps'][0]['out']), _strip_ev(o['steps'][at]['out'])
            if a != b:
                bad.append({'seed': seed, 'step': at, 'fresh': json.dumps(a)[:400], 'after_history': json.dumps(b)[:400]})
                break
    return (len(bad) == 2), bad[:1]


def threads_differ(f):
    """C18: on the real crates, threads racing the first use return different bytes (or other bytes than the sequential call)"""
    cfg = f.detail.get('replay_cfg', f.cfg)
    if cfg.get('steps'):
        PICK = ('prove', 'verify', 'verify_each', 'gens', 'gi', 'hi', 'g', 'h', 'g_compressed_accessor', 'precomp_units', 'panic')
        refs = []
        for st in cfg['steps']:
            fo = run_replay({'scenario': 'history', 'steps': [st]}, 1)
            refs.append(_strip_ev({k: fo['steps'][0]['out'].get(k) for k in PICK}) if 'crash' not in fo else None)
        for rep in range(40):
            o = run_replay(cfg, 1)
            if 'crash' in o:
                return None, o
            if o.get('differences'):
                return True, o['differences'][:1]
            for k, ref in enumerate(refs):
                if ref is None:
                    continue
                gt = o['references'][k]
                gt = json.loads(gt) if gt and gt.startswith('{') else gt
                if _strip_ev(gt) != ref:
                    return True, {'race': rep, 'step': cfg['steps'][k], 'who': 'a racing thread', 'fresh sequential process': json.dumps(ref)[:300], 'got': json.dumps(gt)[:300]}
                if _strip_ev(o['after'][k]) != ref:
                    return True, {'race': rep, 'step': cfg['steps'][k], 'who': 'the sequential call after the race', 'fresh sequential process': json.dumps(ref)[:300], 'got': json.dumps(o['after'][k])[:300]}
        return False, None
    for rep in range(4):
        o = run_replay(cfg, 1)
        if 'crash' in o:
            return None, o
        if o.get('differences'):
            return True, o['differences'][:1]
        fresh = run_replay({'scenario': 'history', 'steps': [cfg['step']]}, 1)
        got = json.loads(o['reference']) if o.get('reference') else {}
        ref = _strip_ev(fresh['steps'][0]['out'])
        for k in ('prove', 'verify', 'gens'):
            if ref.get(k) is not None and got.get(k) is not None and _strip_ev(got[k]) != _strip_ev(ref[k]):
                return True, {'field': k, 'sequential': json.dumps(ref[k])[:300], 'racing thread': json.dumps(got[k])[:300]}
    return False, None


def views_batch_wrong(f):
    """C10: several views of ONE proof (prover's seed / another seed / no seed) listed in one batch: on the real crates the result of a view is not
    what that view gives on its own (true mask for the prover's seed, another value for another seed, none without a seed)"""
    outs = _runs(f, (1, 2))
    bad = []
    for o in outs:
        if 'crash' in o:
            return None, o
        order = f.cfg.get('verify_order') or list(range(len(o['members'])))
        truth = o['members'][0]['blindings'][0]
        for v in (o.get('verify') or []):
            if v['action'] == 'VerifyOnly':
                continue
            if v['result'] != 'ok':
                bad.append({'action': v['action'], 'result': v['result']})
                break
            wrong = None
            for pos, i in enumerate(order):
                op = (f.cfg['members'][i].get('tamper_statement') or {}).get('op')
                got = v['masks'][pos] if pos < len(v['masks']) else 'missing'
                if op is None and got != truth:
                    wrong = {'position': pos, 'view': 'prover seed', 'got': got, 'mask': truth}
                elif op in ('seed_other', 'seed_zero') and (got is None or got == truth or got == 'missing'):
                    wrong = {'position': pos, 'view': op, 'got': got, 'mask': truth}
                elif op == 'seed_none' and got is not None:
                    wrong = {'position': pos, 'view': op, 'got': got}
            if wrong:
                bad.append(dict(wrong, action=v['action']))
                break
    return (len(bad) == len(outs)), bad[:1]


def member_transcript_skipped(f):
    """C08 / C04: on the real crates, after an accepted batch the caller's transcript of some member is not in the state the documented protocol
    leaves it in (independent reconstruction, refimpl::final_probe): that member's challenges were not derived from its own transcript"""
    cfg = f.detail.get('replay_cfg', f.cfg)
    bad = []
    for seed in (1, 2):
        o = run_replay(cfg, seed)
        if 'crash' in o:
            return None, o
        for v in o.get('verify') or []:
            if v['result'] != 'ok' or not v.get('reference_probe'):
                continue
            diff = [i for i, (a, b) in enumerate(zip(v['logs_after'], v['reference_probe'])) if b is not None and a != b]
            if diff:
                bad.append({'seed': seed, 'action': v['action'], 'members whose transcript is not in the documented state': diff})
                break
    return (len(bad) == 2), bad[:1]


PREDS = {k: v for k, v in globals().items() if callable(v) and not k.startswith('_') and k != 'run_replay'}
