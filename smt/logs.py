"""reading the recorded transcript logs / RNG states of a symx dump"""


class LogView:
    def __init__(self, core):
        self.core = core
        self.logs = core['logs']
        self.blobs = core['blobs']

    def chain(self, lid):
        """entries from the root to lid: list of (id, entry)"""
        out = []
        cur = lid
        while cur is not None:
            e = self.logs[cur]
            out.append((cur, e))
            cur = e.get('parent')
        out.reverse()
        return out

    def root_label(self, lid):
        return self.chain(lid)[0][1]['label']

    def challenges(self, lid):
        """[(label, log id of the challenge entry)] in order"""
        return [(e['label'], i) for i, e in self.chain(lid) if e['t'] == 'challenge']

    def appends(self, lid):
        return [(i, e) for i, e in self.chain(lid) if e['t'] == 'append']

    def piece_desc(self, p):
        """a hashable description of one payload piece (what object was absorbed)"""
        if 'lit' in p:
            return ('lit', p['lit'])
        if 'u64' in p:
            reg = self.core['u64'][p['u64']]
            if 'var' in reg:
                return ('u64var', self.core['vars'][reg['var']]['name'])
            return ('u64rnd', reg['rnd_blob'])
        b = self.blobs[p['blob']]
        t = b['t']
        if t == 'scalar':
            return ('scalar', b['node'])
        if t == 'point':
            return ('point', b['point'])
        if t == 'elem':
            return ('elem', b['k'])
        return (t,) + tuple(sorted((k, v) for k, v in b.items() if k != 't'))

    def entry_desc(self, e):
        if e['t'] == 'init':
            return ('init', e['label'])
        if e['t'] == 'challenge':
            return ('challenge', e['label'], e['len'])
        return ('append', e['label'], e['len'], tuple(self.piece_desc(p) for p in e['pieces']))

    def describe(self, lid):
        return [self.entry_desc(e) for _, e in self.chain(lid)]


def member_challenges(run, log_after):
    """challenge variables of one verified member: dict(y, z, rounds=[...], e) as Frac, and their log ids"""
    lv = LogView(run.core)
    ch = lv.challenges(log_after)
    labels = [l for l, _ in ch]
    # expected order: y, z, e*, e
    assert labels[0] == 'y' and labels[1] == 'z' and all(l == 'e' for l in labels[2:]) and len(labels) >= 3, labels
    mk = lambda lid: run.norm.fvar('chal_%d' % lid)
    return {'y': mk(ch[0][1]), 'z': mk(ch[1][1]), 'rounds': [mk(i) for _, i in ch[2:-1]], 'e': mk(ch[-1][1]),
            'ids': {'y': ch[0][1], 'z': ch[1][1], 'rounds': [i for _, i in ch[2:-1]], 'e': ch[-1][1]}}


def weight_state(run):
    """rng state of the batch-weight generator: its log is rooted at 'Bulletproofs+ verifier weights'.
    returns list of candidate (state id, number of appends) sorted by appends"""
    lv = LogView(run.core)
    out = []
    for sid, s in enumerate(run.core['rng_states']):
        root = lv.root_label(s['log'])
        # (any transcript that is not a caller context of a member: the documented root is 'Bulletproofs+ verifier weights')
        if root == 'Bulletproofs+ verifier weights' or not (root in ('symx context', 'alternative context') or root.startswith('caller context ')):
            out.append((sid, len(lv.appends(s['log']))))
    return out
