"""The Bulletproofs+ verification relation written from the paper (Chung, Han, Ju, Kim, Yoo 2020, Fig. 1-3),
unoptimised, over symbolic proof elements.  Used as the oracle of C02/C03/C07/C08.

Notation: G_i, H_i (i < nm) vector generators, g_k (k < x) blinding generators, h value generator.
  A_hat = A - z*sum G_i + sum_i (z + d_i*y^(nm-i)) H_i + y^(nm+1) * sum_j z^(2(j+1)) (V_j - p_j h) + c h
  c     = z<1,y> - z y^(nm+1) <1,d> - z^2 <1,y>,   <1,y> = sum_{i=1..nm} y^i,  d_{jn+i} = z^(2(j+1)) 2^i
  P     = A_hat + sum_j (e_j^2 L_j + e_j^-2 R_j)
  accept iff  e^2 P + e A1 + B = r1 e G' + s1 e H' + (r1 s1 y) h + sum_k d1_k g_k
  G' = sum_i (prod_j e_j^(+-1)) y^-i G_i   (e_j^-1 if the j-th most significant bit of i is 0, e_j y^-(nm/2^(j+1)) if 1)
  H' = sum_i (prod_j e_j^(-+1)) H_i
The function returns RHS - LHS as a linear form {basis key: Frac}.
"""


class Lin:
    def __init__(self, d=None):
        self.d = dict(d or {})

    def add(self, key, coeff):
        if key in self.d:
            self.d[key] = self.d[key] + coeff
        else:
            self.d[key] = coeff

    def add_lin(self, other, scale=None):
        for k, v in other.d.items():
            self.add(k, v * scale if scale is not None else v)


def relation_residual(N, n, m, x, ch, proof, V, promises, G, H, g, h):
    """N: Norm (for constants); ch: dict y,z,rounds,e (Frac); proof: dict A,A1,B (Lin), L,R (lists of Lin), r1,s1 (Frac), d1 (list Frac);
    V: list of Lin; promises: list of Frac or None; G,H: lists of basis keys (length >= nm), g: list of keys, h: key"""
    one = N.fconst(1)
    nm = n * m
    y, z, e = ch['y'], ch['z'], ch['e']
    es = ch['rounds']
    rounds = len(es)
    assert (1 << rounds) == nm
    yinv = y.inv()
    res = Lin()
    # ---- right-hand side
    for i in range(nm):
        s_i = one
        s_rev = one
        ypow = one
        for j in range(rounds):
            bit = (i >> (rounds - 1 - j)) & 1
            if bit:
                s_i = s_i * es[j]
                s_rev = s_rev * es[j].inv()
                ypow = ypow * yinv.pow(nm >> (j + 1))
            else:
                s_i = s_i * es[j].inv()
                s_rev = s_rev * es[j]
        res.add(G[i], proof['r1'] * e * s_i * ypow)
        res.add(H[i], proof['s1'] * e * s_rev)
    res.add(h, proof['r1'] * proof['s1'] * y)
    for k in range(x):
        res.add(g[k], proof['d1'][k])
    # ---- left-hand side
    z2 = z * z
    d = []
    for j in range(m):
        for i in range(n):
            d.append(z2.pow(j + 1) * (1 << i))
    sum_y = N.fconst(0)
    for i in range(1, nm + 1):
        sum_y = sum_y + y.pow(i)
    sum_d = N.fconst(0)
    for di in d:
        sum_d = sum_d + di
    ynm1 = y.pow(nm + 1)
    c = z * sum_y - z * ynm1 * sum_d - z2 * sum_y
    Ahat = Lin()
    Ahat.add_lin(proof['A'])
    for i in range(nm):
        Ahat.add(G[i], -z)
        Ahat.add(H[i], z + d[i] * y.pow(nm - i))
    for j in range(m):
        wj = ynm1 * z2.pow(j + 1)
        Ahat.add_lin(V[j], wj)
        if promises[j] is not None:
            Ahat.add(h, -(wj * promises[j]))
    Ahat.add(h, c)
    P = Lin()
    P.add_lin(Ahat)
    for j in range(rounds):
        P.add_lin(proof['L'][j], es[j] * es[j])
        P.add_lin(proof['R'][j], es[j].inv() * es[j].inv())
    e2 = e * e
    res.add_lin(P, -e2)
    res.add_lin(proof['A1'], -e)
    res.add_lin(proof['B'], -one)
    return res
