"""Engine M obligations (DESIGN.md §2.2): per property, which MIR regions are evaluated and what is asserted."""
import re, time, os, json
import z3
import mirx
from mirx import BV, B, Opt, Res, CF, Tup, Adt, Str, Ref, Opaque, Evaluator, find_fn
import lib

_cache = {}


def get_mir():
    if 'fns' not in _cache:
        try:
            text, dt = mirx.dump_mir('/repo')
        except mirx.Inconclusive as e:
            raise lib.Inconclusive('Engine M: %s' % e)     # no MIR at all: inconclusive (exit 2), not a not-decided group
        _cache['text'] = text
        _cache['fns'] = mirx.parse_mir(text)
        _cache['dump_s'] = dt
    return _cache['fns']


class M:
    """collects Engine M obligations into a check context"""

    def __init__(self, ctx):
        self.ctx = ctx
        self.fns = get_mir()
        self.regions = []

    def fn(self, pattern):
        try:
            return find_fn(self.fns, pattern)
        except LookupError as e:
            raise lib.Inconclusive('Engine M anchor lost: %s' % e)

    def anchor(self, f, pattern, what):
        hits = f.find_blocks(pattern)
        if len(hits) != 1:
            raise lib.Inconclusive('Engine M anchor lost in %s: %d blocks match %s (%s)' % (f.name[-40:], len(hits), pattern, what))
        return hits[0]

    def oblige(self, label, formulas, expect='unsat', key=None, pred=None, detail=None, cfg=None, model_vars=None):
        ans, dt, model, solver = mirx.check(formulas, 120000)
        smt = solver.sexpr()[-1200:]
        ok = self.ctx.D.record('bv', label, ans, dt, expect, smt)
        if not ok:
            if ans in ('sat', 'unsat'):
                d = dict(detail or {})
                if model is not None:
                    d['model'] = {str(v): str(model[v]) for v in model.decls()}
                    if callable(cfg):
                        cfg = cfg(model)
                fd = lib.Finding(self.ctx.pid, key or label, 'Engine M: %s answered %s (expected %s)' % (label, ans, expect), cfg, pred, d)
                fd.engine = 'M'
                self.ctx.findings.append(fd)
            else:
                self.ctx.m_note(label, 'solver answered %s' % ans)
        return ok

    def no_overflow(self, paths, what, key, assume=()):
        """every rustc-inserted assertion (overflow, shift, bounds) on these paths cannot fire (under the stated representation invariants)"""
        n = 0
        for p in paths:
            for a in p.asserts:
                cond, msg, bb, pc = a
                n += 1
                self.oblige('%s: rustc assertion "%s" at %s cannot fire' % (what, msg[:50], bb), list(assume) + pc + [z3.Not(cond)], key=key + ':panic', pred=None)
        return n

    def loop_exit(self, f, head):
        """exit block of the `for` loop whose iterator `next` call is in `head`: target of the None arm"""
        nxt = re.search(r'\[return: (bb\d+)', f.blocks[head][1])
        if not nxt:
            raise lib.Inconclusive('loop head without next(): %s' % head)
        sw = re.search(r'switchInt\(.*\) -> \[0: (bb\d+)', f.blocks[nxt.group(1)][1])
        if not sw:
            raise lib.Inconclusive('loop head: no switch on the Option discriminant')
        return sw.group(1)

    def section(self, group, fn):
        """one obligation group tied to one code shape. If the translator does not recognise the shape on this tree (anchor lost,
        unexpected path shapes, opaque operands, evaluator failure) the group is reported as NOT DECIDED (a NOTE line, listed in the
        evidence) and the check's other engines decide the property on this tree; it is not an alarm (DESIGN.md section 2.2)."""
        try:
            fn()
            self.ctx.m_decided.append(group)
            return True
        except (lib.Inconclusive, mirx.Inconclusive) as e:
            self.ctx.m_note(group, str(e))
        except Exception as e:
            self.ctx.m_note(group, 'the evaluator could not process this code shape (%s: %s)' % (type(e).__name__, str(e)[:200]))
        return False

    def expect(self, cond, key, what, cfg, pred=None, detail=None):
        n = len(self.ctx.findings)
        ok = self.ctx.expect(cond, key, what, cfg, pred, detail)
        for f in self.ctx.findings[n:]:
            f.engine = 'M'
        return ok

    def note_region(self, f, desc, blocks):
        self.regions.append({'function': f.name[-70:], 'region': desc, 'blocks': blocks})


def ok_expr(paths):
    """Or over returning paths of (pc and result-is-Ok)"""
    terms = []
    for p in paths:
        if p.end[0] != 'return':
            continue
        r = p.env.get('_0')
        if isinstance(r, Res):
            terms.append(z3.And(*(p.pc + [r.ok])))
        elif isinstance(r, Opaque):
            terms.append(z3.And(*(p.pc + [z3.Bool('opaque_ok_%d' % r.id)])))
    return z3.Or(terms) if terms else z3.BoolVal(False)


def pc_union(paths):
    return z3.Or([z3.And(*p.pc) if p.pc else z3.BoolVal(True) for p in paths])


def pow2(x):
    return z3.And(x != 0, (x & (x - 1)) == 0)


def u64v(name):
    return z3.BitVec(name, 64)


def bvint(model, name, default=0):
    for d in model.decls():
        if str(d) == name:
            return model[d].as_long()
    return default


# ================================================================================================ C17
def c17_constructors(ctx):
    m = M(ctx)
    def _s0():
        # ---- ExtensionDegree::try_from(u8): Ok(variant k) iff v == k in 1..=6
        f = m.fn(r'pedersen_gens\.rs:\d+:1: \d+:37>::try_from$')
        ev = Evaluator(f)
        paths = ev.run()
        v = ev.sym('_1@0', 'u8').e
        names = ['DefaultPedersen', 'AddOneBasePoint', 'AddTwoBasePoints', 'AddThreeBasePoints', 'AddFourBasePoints', 'AddFiveBasePoints']
        m.note_region(f, 'whole function', sorted(f.blocks))
        m.oblige('ExtensionDegree::try_from(u8): paths exhaustive', [z3.Not(pc_union(paths))], key='C17:ext-u8')
        bad = []
        for p in paths:
            r = p.env['_0']
            pc = z3.And(*p.pc) if p.pc else z3.BoolVal(True)
            if z3.is_true(r.ok):
                k = names.index(r.okv.name.split('::')[-1]) + 1
                bad.append(z3.And(pc, v != k))
            else:
                bad.append(z3.And(pc, z3.ULE(1, v), z3.ULE(v, 6)))
        m.oblige('ExtensionDegree::try_from(u8) == Ok(k) iff v == k in 1..=6, for all u8', [z3.Or(bad)], key='C17:ext-u8', pred='ctor_mismatch',
                 cfg=lambda mod: {'scenario': 'ctor', 'fn': 'ext_u8', 'v': bvint(mod, '_1@0')}, detail={'spec': 'ext'})
    m.section('ExtensionDegree::try_from(u8)', _s0)
    def _s1():
        # ---- ExtensionDegree::try_from(usize): Err unless v <= 255, then try_from(v as u8)
        f = m.fn(r'pedersen_gens\.rs:\d+:1: \d+:40>::try_from$')
        ev = Evaluator(f)
        paths = ev.run()
        v = ev.sym('_1@0', 'usize').e
        m.note_region(f, 'whole function', sorted(f.blocks))
        bad = []
        for p in paths:
            calls = [o for o in p.obs if o['kind'] == 'call' and 'TryFrom<u8>' in o['callee']]
            pc = z3.And(*p.pc) if p.pc else z3.BoolVal(True)
            if calls:
                a = calls[0]['args'][0]
                if not isinstance(a, BV):
                    raise lib.Inconclusive('opaque argument to try_from(u8)')
                # delegated: only for v <= 255 and with exactly that value
                bad.append(z3.And(pc, z3.Or(z3.UGT(v, 255), z3.ZeroExt(56, a.e) != v)))
            else:
                r = p.env['_0']
                if not (isinstance(r, Res) and z3.is_false(r.ok)):
                    raise lib.Inconclusive('unexpected path shape in try_from(usize)')
                bad.append(z3.And(pc, z3.ULE(v, 255)))
        m.oblige('ExtensionDegree::try_from(usize): delegates to try_from(v as u8) iff v <= 255, Err otherwise, for all usize', [z3.Or(bad)], key='C17:ext-usize', pred='ctor_mismatch',
                 cfg=lambda mod: {'scenario': 'ctor', 'fn': 'ext_usize', 'v': bvint(mod, '_1@0')}, detail={'spec': 'ext'})
        m.oblige('ExtensionDegree::try_from(usize): paths exhaustive', [z3.Not(pc_union(paths))], key='C17:ext-usize')
    m.section('ExtensionDegree::try_from(usize)', _s1)
    def _s2():
        # ---- RangeParameters::init
        f = m.fn(r'range_parameters\.rs.*>::init$')
        ev = Evaluator(f)
        paths = ev.run()
        n, c = ev.sym('_1@0', 'usize').e, ev.sym('_2@0', 'usize').e
        m.note_region(f, 'whole function up to BulletproofGens::new (opaque)', sorted(f.blocks))
        spec = z3.And(pow2(n), pow2(c), z3.ULE(n, 64))
        reach = []
        for p in paths:
            calls = [o for o in p.obs if o['kind'] == 'call' and 'BulletproofGens' in o['callee'] and o['callee'].endswith('::new')]
            if calls:
                a = calls[0]['args']
                pcs = calls[0]['pc']
                reach.append(z3.And(*pcs) if pcs else z3.BoolVal(True))
                if not (isinstance(a[0], BV) and isinstance(a[1], BV)):
                    raise lib.Inconclusive('opaque arguments to BulletproofGens::new')
                m.oblige('RangeParameters::init passes (bit_length, capacity) on unchanged', pcs + [z3.Or(a[0].e != n, a[1].e != c)], key='C17:params-adjusted', pred='ctor_mismatch',
                         cfg=lambda mod: {'scenario': 'ctor', 'fn': 'params', 'bit_length': bvint(mod, '_1@0'), 'cap': bvint(mod, '_2@0')}, detail={'spec': 'params'})
            else:
                r = p.env.get('_0')
                if not (isinstance(r, Res) and z3.is_false(r.ok)):
                    raise lib.Inconclusive('RangeParameters::init: a path returns without constructing generators and without Err')
        reach_e = z3.Or(reach) if reach else z3.BoolVal(False)
        m.oblige('RangeParameters::init reaches generator construction iff bit_length, capacity powers of two and bit_length <= 64, for all usize pairs', [reach_e != spec],
                 key='C17:params-domain', pred='ctor_mismatch', cfg=lambda mod: {'scenario': 'ctor', 'fn': 'params', 'bit_length': bvint(mod, '_1@0'), 'cap': bvint(mod, '_2@0')}, detail={'spec': 'params'})
        m.oblige('RangeParameters::init: paths exhaustive', [z3.Not(pc_union(paths))], key='C17:params-domain')
        m.no_overflow(paths, 'RangeParameters::init', 'C17:params')
    m.section('RangeParameters::init', _s2)
    def _s3():
        # ---- RangeStatement::init
        f = m.fn(r'range_statement\.rs.*>::init$')
        ev = Evaluator(f)
        paths = ev.run()
        m.note_region(f, 'whole function (compression loop: one iteration)', sorted(f.blocks))
        syms = {k[0]: v for k, v in ev.sym_decl.items()}
        lens = {k: v for k, v in syms.items() if k.startswith('len(')}
        lc = [v for k, v in lens.items() if re.search(r'_2@', k)]
        lp = [v for k, v in lens.items() if re.search(r'_3@', k)]
        cap = [v for k, v in syms.items() if 'max_aggregation_factor' in k]
        if len(lc) != 1 or len(lp) != 1 or len(cap) != 1:
            raise lib.Inconclusive('RangeStatement::init: expected one length symbol per argument, got %s' % sorted(lens))
        lc, lp, cap = lc[0].e, lp[0].e, cap[0].e
        seed_some = None
        built = []
        for p in paths:
            r = p.env.get('_0')
            pc = z3.And(*p.pc) if p.pc else z3.BoolVal(True)
            if p.end[0] == 'return' and isinstance(r, Res) and z3.is_true(r.ok):
                built.append(pc)
            elif p.end[0] == 'backedge':
                built.append(pc)
        is_some = [v for k, v in ev.sym_decl.items() if 'is_some' in k[0]]
        if len(is_some) != 1:
            raise lib.Inconclusive('RangeStatement::init: seed presence symbol not found')
        seed_some = is_some[0].e
        spec = z3.And(pow2(lc), lp == lc, z3.UGE(cap, lc), z3.Not(z3.And(seed_some, z3.UGT(lc, 1))))
        m.oblige('RangeStatement::init constructs a statement iff #commitments is a power of two, #promises == #commitments, #commitments <= capacity, seed only for one commitment (all usize, both seed states)',
                 [z3.Or(built) != spec], key='C17:statement-domain', pred='ctor_mismatch',
                 cfg=lambda mod: {'scenario': 'ctor', 'fn': 'statement', 'bit_length': 4, 'commitments': bvint(mod, str(lc)) % 64, 'promises': bvint(mod, str(lp)) % 64, 'cap': max(1, bvint(mod, str(cap)) % 64),
                                  'seeded': str(mod.eval(seed_some, model_completion=True)) == 'True'}, detail={'spec': 'statement'})
        m.no_overflow(paths, 'RangeStatement::init', 'C17:statement')
    m.section('RangeStatement::init', _s3)
    def _s4():
        # ---- ExtendedMask::assign
        f = m.fn(r'extended_mask\.rs.*>::assign$')
        ev = Evaluator(f)
        paths = ev.run()
        m.note_region(f, 'whole function', sorted(f.blocks))
        syms = {k[0]: v for k, v in ev.sym_decl.items()}
        ln = [v for k, v in syms.items() if k.startswith('len(')]
        disc = [v for k, v in syms.items() if k.startswith('disc(')]
        if len(ln) != 1:
            raise lib.Inconclusive('ExtendedMask::assign: length symbol not found')
        ln = ln[0].e
        impl = ok_expr(paths)
        if disc:
            d = disc[0].e
            spec = z3.And(ln != 0, ln == d)
            m.oblige('ExtendedMask::assign Ok iff len != 0 and len == degree (degree discriminant symbolic, all usize lengths)', [impl != spec], key='C17:mask-domain', pred='ctor_mismatch',
                     cfg=lambda mod: {'scenario': 'ctor', 'fn': 'mask', 'degree': bvint(mod, str(d)) % 8, 'len': bvint(mod, str(ln)) % 16}, detail={'spec': 'mask'})
        else:
            raise lib.Inconclusive('ExtendedMask::assign: degree discriminant not found')
    m.section('ExtendedMask::assign', _s4)
    def _s5():
        # ---- CommitmentOpening::r_len
        f = m.fn(r'commitment_opening\.rs.*>::r_len$')
        ev = Evaluator(f)
        paths = ev.run()
        m.note_region(f, 'whole function', sorted(f.blocks))
        ln = [v for k, v in ev.sym_decl.items() if k[0].startswith('len(')][0].e
        bad = []
        for p in paths:
            r = p.env['_0']
            pc = z3.And(*p.pc) if p.pc else z3.BoolVal(True)
            if z3.is_true(r.ok):
                bad.append(z3.And(pc, z3.Or(ln == 0, r.okv.e != ln)))
            else:
                bad.append(z3.And(pc, ln != 0))
        m.oblige('CommitmentOpening::r_len == Ok(len) iff len != 0', [z3.Or(bad)], key='C17:opening-domain', pred='ctor_mismatch',
                 cfg=lambda mod: {'scenario': 'ctor', 'fn': 'witness', 'blindings': [bvint(mod, str(ln)) % 8]}, detail={'spec': 'witness'})
    m.section('CommitmentOpening::r_len', _s5)
    def _s6():
        # ---- PedersenGens::commit guard
        f = m.fn(r'pedersen_gens\.rs.*>::commit$')
        ev = Evaluator(f)
        paths = ev.run()
        m.note_region(f, 'whole function up to the multiscalar multiplication (opaque)', sorted(f.blocks))
        syms = {k[0]: v for k, v in ev.sym_decl.items()}
        ln = [v for k, v in syms.items() if k.startswith('len(')]
        disc = [v for k, v in syms.items() if k.startswith('disc(')]
        if len(ln) < 1 or len(disc) != 1:
            raise lib.Inconclusive('PedersenGens::commit: symbols not found %s' % sorted(syms)[:6])
        ln, d = ln[0].e, disc[0].e
        impl = ok_expr(paths)
        spec = z3.And(ln != 0, z3.ULE(ln, d))
        m.oblige('PedersenGens::commit Ok iff 1 <= #blindings <= degree (all usize)', [impl != spec], key='C17:commit-domain', pred='ctor_mismatch',
                 cfg=lambda mod: {'scenario': 'ctor', 'fn': 'commit', 'degree': max(1, min(6, bvint(mod, str(d)))), 'len': bvint(mod, str(ln)) % 16}, detail={'spec': 'commit'})
    m.section('PedersenGens::commit', _s6)
    def _s7():
        # ---- RangeWitness::init: first opening gives the degree; loop body (one iteration from an arbitrary state) refuses any other count
        f = m.fn(r'range_witness\.rs.*>::init$')
        c17_witness(m, f)
    m.section('RangeWitness::init loop body', _s7)
    ctx.extra.setdefault('engine_m', {})['regions'] = m.regions
    ctx.extra['engine_m']['mir_dump_s'] = round(_cache.get('dump_s', 0), 1)
    ctx.functions |= {r['function'] for r in m.regions}
    return m


def c17_witness(m, f):
    ev = Evaluator(f)
    paths = ev.run()
    m.note_region(f, 'whole function; the comparison loop as one iteration from an arbitrary state', sorted(f.blocks))
    # observations: r_len calls: the first on the first opening, later ones on loop items
    # shape: every path that returns Ok must have passed: first r_len Ok; every loop iteration: item r_len Ok and equal to the first
    rl = lambda p: [o for o in p.obs if o['kind'] == 'call' and o['callee'].endswith('r_len')]
    saw_loop_cmp = False
    for p in paths:
        r = p.env.get('_0')
        calls = rl(p)
        if p.end[0] == 'backedge':
            # continuing the loop after one iteration: the iteration's r_len result must have been Ok and equal to the degree
            if len(calls) >= 2:
                saw_loop_cmp = True
    # the body: find the comparison `Ne(degree, item_len)` -> Err
    cmp_blocks = f.find_blocks(r'"Extended blinding factors must have consistent length"')
    if len(cmp_blocks) != 1:
        raise lib.Inconclusive('RangeWitness::init anchor lost')
    head = f.walk_back(cmp_blocks[0], r'as Iterator>::next\(')
    if head is None:
        raise lib.Inconclusive('RangeWitness::init loop head not found')
    ev2 = Evaluator(f)
    lp = ev2.run(start=head, stops=())
    # in the loop body the item's r_len result is an opaque Result (call); make it a symbolic pair via the Try::branch model
    conts, errs = [], []
    for p in lp:
        if p.end[0] == 'backedge':
            conts.append(p)
        elif p.end[0] == 'return':
            errs.append(p)
    if not conts or not errs:
        raise lib.Inconclusive('RangeWitness::init loop body: unexpected path shapes %s' % [p.end for p in lp])
    # structural: the skip(1) iterator and "every item is compared": one continuing path only, and it passed exactly one comparison that was false
    ok = True
    for p in conts:
        nexts = [o for o in p.obs if o['kind'] == 'next']
        cmps = [a for a in p.trace if a in cmp_blocks]
        ok = ok and len(nexts) == 1 and not cmps
    m.expect(ok, 'C17:witness-loop', 'RangeWitness::init: a loop iteration can continue without comparing the opening\'s blinding count', None, 'ctor_mismatch',
                 {'spec': 'witness', 'replay_cfg': {'scenario': 'ctor', 'fn': 'witness', 'blindings': [1, 1, 2]}})
    # the iterator must be skip(1) over ALL openings (chunking / windows would skip comparisons): the into_iter receiver is Skip<slice::Iter>
    it_blocks = [b for b in f.blocks if re.search(r'as Iterator>::next\(', f.blocks[b][1])]
    kinds = set()
    for b in it_blocks:
        mm = re.search(r'<(.*) as Iterator>::next', f.blocks[b][1])
        kinds.add(mm.group(1) if mm else '?')
    m.expect(len(kinds) == 1 and list(kinds)[0].endswith("Skip<std::slice::Iter<'_, CommitmentOpening>>"), 'C17:witness-loop',
                 'RangeWitness::init: the consistency loop does not iterate skip(1) over the openings one by one (iterator: %s)' % sorted(kinds), None, 'ctor_mismatch',
                 {'spec': 'witness', 'replay_cfg': {'scenario': 'ctor', 'fn': 'witness', 'blindings': [1, 1, 0]}})


# ================================================================================================ C06
def c06_prover_guards(ctx):
    m = M(ctx)
    def _s0():
        f = m.fn(r'range_proof\.rs.*>::prove_with_rng$')
        # (1) argument checks at the head: openings.len() != commitments.len() -> Err; degree mismatch -> Err; checked_mul
        ev = Evaluator(f)
        stop1 = m.anchor(f, r'"Value exceeds bit vector capacity!"', 'value guard message')
        head1 = f.walk_back(stop1, r'as Iterator>::next\(')
        paths = ev.run(start='bb0', stops=(head1,))
        m.note_region(f, 'head: length / degree checks up to the value-guard loop', sorted(set(sum([p.trace for p in paths], []))))
        syms = {k[0]: v for k, v in ev.sym_decl.items()}
        lens = {k: v for k, v in syms.items() if k.startswith('len(')}
        l_open = [v for k, v in lens.items() if re.search(r'\(\*_3@', k)]
        l_comm = [v for k, v in lens.items() if re.search(r'\(\*_2@', k)]
        if len(l_open) != 1 or len(l_comm) != 1:
            raise lib.Inconclusive('prove_with_rng head: length symbols %s' % sorted(lens))
        lo, lc = l_open[0].e, l_comm[0].e
        cmpb = [o for p in paths for o in p.obs if o['kind'] == 'cmp']
        reach = [z3.And(*p.pc) for p in paths if p.end == ('stop', head1)]
        errs = [p for p in paths if p.end[0] == 'return']
        bl = [v for k, v in syms.items() if 'bit_length' in k]
        if len(bl) != 1:
            raise lib.Inconclusive('bit_length symbol')
        n = bl[0].e
        degree_ne = [o['result'] for p in paths for o in p.obs if o['kind'] == 'cmp' and 'ExtensionDegree' in o['callee']]
        if not degree_ne:
            raise lib.Inconclusive('degree comparison not observed')
        dne = degree_ne[0]
        mulfits = z3.ULE(z3.ZeroExt(64, n) * z3.ZeroExt(64, lc), z3.ZeroExt(64, z3.BitVecVal(-1, 64)))
        spec = z3.And(lo == lc, z3.Not(dne), mulfits)
        m.oblige('prove_with_rng proceeds past its head iff #openings == #commitments, degrees equal, bit_length*#commitments fits (all usize)', [z3.Or(reach) != spec],
                 key='C06:head', pred='prover_accepts_invalid', cfg={'scenario': 'batch', 'n': 8, 'x': 1, 'members': [{'m': 2, 'cap': 2, 'witness_tamper': {'op': 'drop_opening'}}], 'prove_only': True})
    m.section('prove_with_rng head (counts, degree, size)', _s0)
    def _s1():
        f = m.fn(r'range_proof\.rs.*>::prove_with_rng$')
        # (2) value guard loop body: Err iff bit_length < 64 and v >= 2^bit_length
        stop1 = m.anchor(f, r'"Value exceeds bit vector capacity!"', 'value guard message')
        head1 = f.walk_back(stop1, r'as Iterator>::next\(')
        ev = Evaluator(f)
        lp = ev.run(start=head1, stops=(m.loop_exit(f, head1),))
        m.note_region(f, 'value guard loop body (one iteration from an arbitrary state)', sorted(set(sum([p.trace for p in lp], []))))
        syms = {k[0]: v for k, v in ev.sym_decl.items()}
        vv = [v for k, v in syms.items() if re.search(r'\.0: u64', k) or k.endswith('.0')]
        vv = [v for v in vv if isinstance(v, BV) and v.ty == 'u64']
        nn = [v for k, v in syms.items() if re.match(r'_\d+@0$', k) and isinstance(v, BV) and v.ty == 'usize']
        if len(vv) != 1 or len(nn) != 1:
            raise lib.Inconclusive('value guard: symbols v=%s n=%s' % (vv, nn))
        v, n = vv[0].e, nn[0].e
        err_pc, cont_pc = [], []
        for p in lp:
            nexts = [o for o in p.obs if o['kind'] == 'next']
            if not nexts:
                continue
            some = nexts[0]['some']
            pcs = [c for c in p.pc]
            if p.end[0] == 'return':
                r = p.env.get('_0')
                if isinstance(r, Res) and z3.is_false(r.ok):
                    err_pc.append(z3.And(*pcs))
            elif p.end[0] == 'backedge':
                cont_pc.append(z3.And(*pcs))
        some = [o['some'] for p in lp for o in p.obs if o['kind'] == 'next'][0]
        spec_err = z3.Or([z3.And(n == k, z3.UGE(v, z3.BitVecVal(1 << k, 64))) for k in range(64)])
        valid_n = z3.Or([n == k for k in (1, 2, 4, 8, 16, 32, 64)])   # every constructed parameter set (C17 params-domain)
        m.oblige('value guard: for an arbitrary opening the prover returns Err iff value >= 2^bit_length (all u64 values, every constructible bit length)',
                 [valid_n, some, z3.Or(err_pc) != spec_err], key='C06:value-guard', pred='prover_guard_mismatch',
                 cfg=lambda mod: {'n': bvint(mod, str(n)), 'v': bvint(mod, str(v)), 'p': None}, detail={'what': 'value'})
        m.oblige('value guard: otherwise the loop continues with the next opening', [some, z3.Or(cont_pc + err_pc) != z3.BoolVal(True)], key='C06:value-guard')
        m.no_overflow(lp, 'value guard loop', 'C06:value-guard')
    m.section('prove_with_rng value guard', _s1)
    def _s2():
        f = m.fn(r'range_proof\.rs.*>::prove_with_rng$')
        # (3) opening check loop body: Err(InvalidArgument) iff commit(...) != commitment; commit errors are propagated
        stop3 = m.anchor(f, r'"Witness opening is invalid!"', 'opening check message')
        head3 = f.walk_back(stop3, r'as Iterator>::next\(')
        ev = Evaluator(f)
        lp = ev.run(start=head3, stops=(m.loop_exit(f, head3),))
        m.note_region(f, 'opening check loop body', sorted(set(sum([p.trace for p in lp], []))))
        shapes = set()
        for p in lp:
            commit = [o for o in p.obs if o['kind'] == 'call' and o['callee'].endswith('::commit::<Scalar>') or (o['kind'] == 'call' and re.search(r'PedersenGens::<P>::commit', o['callee']))]
            cmp_ = [o for o in p.obs if o['kind'] == 'cmp']
            sf = [o for o in p.obs if o['kind'] == 'scalar_from']
            r = p.env.get('_0')
            if p.end[0] == 'backedge' and commit:
                # continuing: comparison happened and said "equal"
                ok = len(cmp_) == 1 and any(z3.eq(c, z3.Not(cmp_[0]['result'])) or z3.eq(z3.simplify(c), z3.simplify(z3.Not(cmp_[0]['result']))) for c in p.pc)
                shapes.add(('continue', ok))
                # the committed value is the opening's own value; the blindings are the opening's own vector; compared with the zipped commitment
                a = sf[0]['args'][0] if sf else None
                src_ok = isinstance(a, BV) and re.search(r'\.0: u64', str(a.e)) is not None
                shapes.add(('value-source', src_ok))
            if p.end[0] == 'return' and commit and cmp_:
                ok = isinstance(r, Res) and z3.is_false(r.ok) and isinstance(r.errv, Adt) and 'InvalidArgument' in r.errv.name
                shapes.add(('mismatch->Err', ok))
        m.expect(('continue', True) in shapes and ('mismatch->Err', True) in shapes and ('continue', False) not in shapes and ('mismatch->Err', False) not in shapes and ('value-source', False) not in shapes,
                     'C06:opening-check', 'opening check loop: an iteration does not compare commit(opening) with the statement commitment, or continues on mismatch (%s)' % sorted(shapes), None,
                     'prover_accepts_invalid', {'replay_cfg': {'scenario': 'batch', 'n': 8, 'x': 2, 'members': [{'m': 2, 'cap': 2, 'witness_tamper': {'op': 'swap_openings', 'i': 0, 'j': 1}}], 'prove_only': True}})
        # the loop zips openings with commitments element-wise (not sums)
        it = re.search(r'<(.*?) as Iterator>::next', f.blocks[head3][1])
        m.expect(it is not None and it.group(1).startswith('std::iter::Zip<std::slice::Iter<\'_, CommitmentOpening>, std::slice::Iter<\'_, P>>'), 'C06:opening-check',
                     'opening check does not iterate over (opening, commitment) pairs: %s' % (it.group(1) if it else None), None, 'prover_accepts_invalid',
                     {'replay_cfg': {'scenario': 'batch', 'n': 8, 'x': 2, 'members': [{'m': 2, 'cap': 2, 'witness_tamper': {'op': 'swap_openings', 'i': 0, 'j': 1}}], 'prove_only': True}})
    m.section('prove_with_rng opening check', _s2)
    def _s3():
        f = m.fn(r'range_proof\.rs.*>::prove_with_rng$')
        # (4) promise region + (5) bit loop
        stop4 = m.anchor(f, r'"Minimum value is larger than value"', 'promise message')
        head4 = f.walk_back(stop4, r'as Iterator>::next\(')
        bit_from = f.find_blocks(r'<Scalar as From<u64>>::from')
        ev = Evaluator(f)
        lp = ev.run(start=head4, stops=(m.loop_exit(f, head4),))
        m.note_region(f, 'promise offset + bit decomposition loop body', sorted(set(sum([p.trace for p in lp], []))))
        syms = {k[0]: v for k, v in ev.sym_decl.items()}
        cand = {k: v for k, v in syms.items() if isinstance(v, BV) and v.ty == 'u64'}
        # symbols: value = (*_115) deref of zipped &u64, promise = payload of Some
        val = [v for k, v in cand.items() if re.search(r'^\(\*_\d+@\d+\)$', k) or re.search(r'deref', k)]
        if len(cand) != 2:
            raise lib.Inconclusive('promise region: expected two u64 symbols, got %s' % sorted(cand))
        names = sorted(cand)
        pv = [cand[k] for k in names if 'Some' in k]
        vv = [cand[k] for k in names if 'Some' not in k]
        if len(pv) != 1 or len(vv) != 1:
            raise lib.Inconclusive('promise region symbols: %s' % names)
        pr, v = pv[0].e, vv[0].e
        nsym = [s for k, s in syms.items() if re.match(r'_\d+@0$', k) and isinstance(s, BV) and s.ty == 'usize']
        err_some, pushes_ok = [], True
        n_bit_paths = 0
        for p in lp:
            r = p.env.get('_0')
            if p.end[0] == 'return' and isinstance(r, Res) and z3.is_false(r.ok) and isinstance(r.errv, Adt) and 'InvalidArgument' in r.errv.name:
                err_some.append(z3.And(*p.pc))
            sfs = [o for o in p.obs if o['kind'] == 'scalar_from']
            if len(sfs) == 2:
                n_bit_paths += 1
                rn = [o for o in p.obs if o['kind'] == 'range_next']
                pushes = [o for o in p.obs if o['kind'] == 'call' and o['callee'].endswith('::push')]
                subs = [o for o in p.obs if o['kind'] == 'call' and 'as Sub>::sub' in o['callee']]
                if len(rn) != 1 or len(pushes) != 2 or len(subs) != 1 or rn[0]['range'] is None:
                    raise lib.Inconclusive('bit loop: observation shape %d %d %d' % (len(rn), len(pushes), len(subs)))
                i = rn[0]['item'].e
                rng = rn[0]['range']
                # Some-promise path or None path?
                has_p = any(str(pr) in str(c) for c in p.pc) or any(str(pr) in str(s['args'][0].e) for s in sfs)
                off = (v - pr) if has_p else v
                for s_ in sfs:
                    a = s_['args'][0]
                    if not isinstance(a, BV):
                        raise lib.Inconclusive('bit loop: opaque argument of From<u64>')
                    m.oblige('bit loop: From<u64> argument == ((value - promise) >> i) & 1 for all value, promise, i < bit_length' if has_p else
                             'bit loop: From<u64> argument == (value >> i) & 1 for all value, i < bit_length (no promise)',
                             p.pc + [a.e != (z3.LShR(off, i) & 1)], key='C06:bit-decomposition', pred='honest_rejected',
                             cfg={'scenario': 'batch', 'n': 8, 'x': 1, 'members': [{'m': 1, 'cap': 1, 'promises': ['3']}], 'actions': ['VerifyOnly']})
                # range is 0..bit_length
                m.oblige('bit loop: the index ranges over 0..bit_length', p.pc + [z3.Or(rng.fields[0].e != 0, rng.fields[1].e != nsym[0].e if nsym else z3.BoolVal(False))], key='C06:bit-decomposition',
                         pred='honest_rejected', cfg={'scenario': 'batch', 'n': 8, 'x': 1, 'members': [{'m': 1, 'cap': 1}], 'actions': ['VerifyOnly']})
                # first push: a_li gets from(bit); second push: a_ri gets from(bit) - ONE; two distinct vectors
                v1, v2 = pushes[0]['args'][0], pushes[1]['args'][0]
                distinct = isinstance(v1, Ref) and isinstance(v2, Ref) and v1.place != v2.place
                first_is_from = pushes[0]['args'][1] is sfs[0]['result']
                sub_ok = subs[0]['args'][0] is sfs[1]['result'] and 'Scalar::ONE' in str(subs[0]['argtoks'][1]) and pushes[1]['args'][1] is subs[0]['result']
                pushes_ok = pushes_ok and distinct and first_is_from and sub_ok
        m.expect(n_bit_paths >= 2 and pushes_ok, 'C06:bit-decomposition', 'bit loop: the pushes are not (a_li <- bit, a_ri <- bit - 1) into two distinct vectors', None, 'honest_rejected',
                     {'replay_cfg': {'scenario': 'batch', 'n': 8, 'x': 1, 'members': [{'m': 1, 'cap': 1}], 'actions': ['VerifyOnly']}})
        some_p = z3.Bool('dummy')
        m.oblige('promise offset: Err(InvalidArgument) iff promise > value (all u64 pairs)', [z3.Or(err_some) != z3.And(z3.UGT(pr, v), z3.Or(err_some + [z3.UGT(pr, v)]))] if False else
                 [z3.Xor(z3.Or(err_some), z3.And(_some_promise(lp, pr), z3.UGT(pr, v)))], key='C06:promise-guard', pred='prover_guard_mismatch',
                 cfg=lambda mod: {'n': 64, 'v': bvint(mod, str(v)), 'p': bvint(mod, str(pr))}, detail={'what': 'promise'})
        # invariant of every constructed RangeParameters (C17 params-domain obligation): bit_length <= 64
        m.no_overflow(lp, 'promise/bit loop', 'C06:bit-decomposition', assume=[z3.ULE(nsym[0].e, 64)] if nsym else [])
    m.section('prove_with_rng promise offset + bit decomposition', _s3)
    def _s4():
        f = m.fn(r'range_proof\.rs.*>::prove_with_rng$')
        # recomposition fact: sum_i ((o >> i) & 1) 2^i == o for o < 2^n (pure bit-vector arithmetic), n in {1,2,4,8,16,32,64}
        for nb in (1, 2, 4, 8, 16, 32, 64):
            o = z3.BitVec('o', 64)
            tot = z3.BitVecVal(0, 64)
            for i in range(nb):
                tot = tot + ((z3.LShR(o, i) & 1) << i)
            dom = [z3.ULT(o, z3.BitVecVal(1 << nb, 64))] if nb < 64 else []
            m.oblige('recomposition: sum_{i<%d} bit_i 2^i == offset for every offset < 2^%d' % (nb, nb), dom + [tot != o], key='C06:bit-decomposition')
    m.section('bit recomposition lemma', _s4)
    ctx.extra.setdefault('engine_m', {})['regions'] = m.regions
    ctx.extra['engine_m']['mir_dump_s'] = round(_cache.get('dump_s', 0), 1)
    ctx.functions |= {r['function'] for r in m.regions}
    return m


def _some_promise(paths, pr):
    """condition 'the promise is Some' = disjunction of path conditions of paths that read the promise payload"""
    terms = []
    for p in paths:
        if any(str(pr) in str(c) for c in p.pc) or any(o['kind'] == 'scalar_from' and str(pr) in str(o['args'][0]) for o in p.obs):
            nexts = [o for o in p.obs if o['kind'] == 'next']
            terms.append(z3.And(*p.pc[:3]))
    # simpler: the discriminant symbol
    return z3.Or(terms) if terms else z3.BoolVal(False)


# ================================================================================================ C16 / C07 / C12 integer guards
def c16_guards(ctx):
    try:
        get_mir()
    except lib.Inconclusive as e:
        ctx.inconclusive.append(str(e))
        return
    try:
        _c16_guards(ctx)
    except (lib.Inconclusive, mirx.Inconclusive) as e:
        ctx.m_note('integer guards', str(e))
    except Exception as e:
        ctx.m_note('integer guards', 'the evaluator could not process this code shape (%s: %s)' % (type(e).__name__, str(e)[:200]))


def _c16_guards(ctx):
    m = M(ctx)
    U = lambda x: z3.ZeroExt(64, x)
    MAXU = z3.ZeroExt(64, z3.BitVecVal(-1, 64))
    def _s0():
        # ---- (a) verify: round-count region
        f = m.fn(r'range_proof\.rs.*>::verify$')
        a = m.anchor(f, r'"Vector L/R length not adequate"', 'round count message')
        start = f.walk_back(a, r'<u32 as TryFrom<usize>>::try_from\(')
        sw = [b for b in f.preds.get(a, ()) if 'switchInt' in f.blocks[b][1]]
        if start is None or len(sw) != 1:
            raise lib.Inconclusive('round-count region anchors')
        okb = re.search(r'\[0: (bb\d+)', f.blocks[sw[0]][1]).group(1)
        ev = Evaluator(f)
        paths = ev.run(start=start, stops=(okb,))
        m.note_region(f, 'round-count check (u32::try_from, leading_zeros, checked_shl, comparison with full_length)', sorted(set(sum([p.trace for p in paths], []))))
        us = [v for k, v in ev.sym_decl.items() if isinstance(v, BV) and v.ty == 'usize' and re.match(r'_\d+@0$', k[0])]
        if len(us) != 2:
            raise lib.Inconclusive('round-count region: expected rounds and full_length symbols, got %s' % [k for k in ev.sym_decl])
        # rounds is the argument of try_from: the symbol that appears in the first path condition
        tf = re.search(r'try_from\(copy (_\d+)\)', f.blocks[start][1]).group(1)
        rounds = ev.sym(tf + '@0', 'usize').e
        full = [v.e for v in us if str(v.e) != str(rounds)][0]
        reach = [z3.And(*p.pc) for p in paths if p.end == ('stop', okb)]
        errs = [p for p in paths if p.end[0] == 'return']
        for p in errs:
            r = p.env.get('_0')
            if not (isinstance(r, Res) and z3.is_false(r.ok)):
                raise lib.Inconclusive('round-count region: a returning path is not an Err')
        spec = z3.Or([z3.And(rounds == k, full == z3.BitVecVal(1 << k, 64)) for k in range(64)])
        m.oblige('verify continues past the round-count check iff 2^rounds == full_length (every usize rounds incl. huge values, every usize full_length)', [z3.Or(reach) != spec],
                 key='C16:round-count', pred='round_count_sweep')
        m.oblige('round-count check: paths exhaustive (continue or Err, nothing else)', [z3.Not(pc_union(paths))], key='C16:round-count')
        m.no_overflow(paths, 'round-count check', 'C16:round-count')
    m.section('verify round-count guard', _s0)
    def _s1():
        # ---- (b) compute_generator_padding, whole function, integer encoding (64-bit products stall a bit-blasting back end)
        f = m.fn(r'^compute_generator_padding$')
        ev = Evaluator(f, int_mode=True)
        paths = ev.run()
        m.note_region(f, 'whole function (mathematical integers with usize range constraints; only checked arithmetic occurs)', sorted(f.blocks))
        n, mm, c = [ev.sym('_%d@0' % i, 'usize').e for i in (1, 2, 3)]
        MAXI = (1 << 64) - 1
        spec_ok = z3.And(2 * n <= MAXI, 2 * n * c <= MAXI, 2 * n * mm <= MAXI, 2 * n * c - 2 * n * mm >= 0)
        bad = []
        for p in paths:
            r = p.env['_0']
            pc = z3.And(*p.pc) if p.pc else z3.BoolVal(True)
            val_bad = z3.BoolVal(False)
            if r.okv is not None and isinstance(r.okv, mirx.IV):
                val_bad = z3.And(r.ok, r.okv.e != 2 * n * c - 2 * n * mm)
            bad.append(z3.And(pc, z3.Or(r.ok != spec_ok, val_bad)))
        m.oblige('compute_generator_padding == Ok(2n(c-m)) iff no overflow and c >= m, Err otherwise (all usize triples)', ev.domain + [z3.Or(bad)], key='C16:padding', pred=None)
        m.oblige('compute_generator_padding: paths exhaustive', ev.domain + [z3.Not(pc_union(paths))], key='C16:padding')
    m.section('compute_generator_padding', _s1)
    def _s2():
        # ---- (c) AggregatedGensIter::next / size_hint: no overflow, next returns None once party_idx >= m
        f = m.fn(r'aggregated_gens_iter\.rs.*>::next$')
        ev = Evaluator(f)
        paths = ev.run()
        m.note_region(f, 'whole function', sorted(f.blocks))
        m.no_overflow(paths, 'AggregatedGensIter::next', 'C16:gens-iter')
        m.expect(all(p.end[0] == 'return' for p in paths) and len(paths) >= 3, 'C16:gens-iter', 'AggregatedGensIter::next: unexpected path shapes', None, None)
        f = m.fn(r'aggregated_gens_iter\.rs.*>::size_hint$')
        ev = Evaluator(f)
        paths = ev.run()
        m.note_region(f, 'whole function', sorted(f.blocks))
        m.no_overflow(paths, 'AggregatedGensIter::size_hint', 'C16:gens-iter')
    m.section('AggregatedGensIter', _s2)
    def _s3():
        # ---- (d) encode_usize: Err iff the index does not fit in 32 bits
        f = m.fn(r'^encode_usize$')
        ev = Evaluator(f)
        paths = ev.run()
        m.note_region(f, 'whole function', sorted(f.blocks))
        x = ev.sym('_1@0', 'usize').e
        bad = []
        for p in paths:
            r = p.env['_0']
            pc = z3.And(*p.pc) if p.pc else z3.BoolVal(True)
            if not isinstance(r, Res):
                raise lib.Inconclusive('encode_usize: opaque result')
            bad.append(z3.And(pc, r.ok != z3.ULE(x, z3.BitVecVal((1 << 32) - 1, 64))))
        m.oblige('encode_usize == Ok iff index <= u32::MAX (all usize)', [z3.Or(bad)], key='C16:encode-usize', pred=None)
    m.section('encode_usize', _s3)
    def _s4():
        # ---- (e) the verifier's promise guard (consistency function): Err iff bit_length < 64 and promise >= 2^bit_length
        f = m.fn(r'range_proof\.rs.*>::verify_statements_and_generators_consistency$')
        a = m.anchor(f, r'"Minimum value promise exceeds bit vector capacity"', 'promise guard message')
        head = f.walk_back(a, r'as Iterator>::next\(')
        ev = Evaluator(f)
        lp = ev.run(start=head, stops=(m.loop_exit(f, head),))
        m.note_region(f, 'promise guard loop body (inner loop over Some promises)', sorted(set(sum([p.trace for p in lp], []))))
        u64s = [v for k, v in ev.sym_decl.items() if isinstance(v, BV) and v.ty == 'u64']
        ns = [v for k, v in ev.sym_decl.items() if isinstance(v, BV) and v.ty == 'usize' and re.match(r'_\d+@0$', k[0])]
        if len(u64s) != 1 or len(ns) != 1:
            raise lib.Inconclusive('verifier promise guard: symbols %s' % [k for k in ev.sym_decl])
        pv, n = u64s[0].e, ns[0].e
        some = [o['some'] for p in lp for o in p.obs if o['kind'] == 'next']
        err = [z3.And(*p.pc) for p in lp if p.end[0] == 'return' and isinstance(p.env.get('_0'), Res) and z3.is_false(p.env['_0'].ok)]
        spec_err = z3.Or([z3.And(n == k, z3.UGE(pv, z3.BitVecVal(1 << k, 64))) for k in range(64)])
        valid_n = z3.Or([n == k for k in (1, 2, 4, 8, 16, 32, 64)])
        m.oblige('verifier promise guard: Err iff promise >= 2^bit_length, for all u64 promises and every constructible bit length', [valid_n, some[0], z3.Or(err) != spec_err],
                 key='C07:promise-guard', pred='verifier_promise_guard', cfg=lambda mod: {'n': bvint(mod, str(n)), 'p': bvint(mod, str(pv))})
        m.no_overflow(lp, 'verifier promise guard', 'C07:promise-guard')
    m.section('verifier promise guard', _s4)
    def _s5():
        # ---- (f) the s-vector loop of verify (`for i in 1..full_length`): its unchecked `1 << log_i`, `i - j`, `rounds - log_i - 1` cannot overflow
        f = m.fn(r'range_proof\.rs.*>::verify$')
        a = m.anchor(f, r'checked_ilog2', 's-vector loop')
        head = f.walk_back(a, r'<std::ops::Range<usize> as Iterator>::next\(')
        rb = f.walk_back(head, r'Range::<usize> \{ start: const 1_usize') if head else None
        if head is None or rb is None:
            raise lib.Inconclusive('s-vector loop anchors')
        ev = Evaluator(f)
        lp = ev.run(start=rb, stops=(m.loop_exit(f, head),))
        m.note_region(f, 's-vector loop body (index arithmetic with clippy::arithmetic_side_effects allowed)', sorted(set(sum([p.trace for p in lp], []))))
        rng_obs = [o for p in lp for o in p.obs if o['kind'] == 'range_next' and o['range'] is not None]
        if not rng_obs:
            raise lib.Inconclusive('s-vector loop: Range not observed')
        full = rng_obs[0]['range'].fields[1].e
        others = [v.e for k, v in ev.sym_decl.items() if isinstance(v, BV) and v.ty == 'usize' and re.match(r'_\d+@0$', k[0]) and str(v.e) != str(full)]
        if len(others) != 1:
            raise lib.Inconclusive('s-vector loop: rounds symbol not identified (%s)' % others)
        rounds = others[0]
        # invariant established by the round-count guard proved above: full_length == 2^rounds, rounds < 64
        inv = [z3.ULT(rounds, 64), full == (z3.BitVecVal(1, 64) << rounds)]
        nass = m.no_overflow(lp, 's-vector loop of verify (given 2^rounds == full_length)', 'C16:s-vector', assume=inv)
        m.expect(nass >= 3, 'C16:s-vector', 's-vector loop: expected rustc assertions for the shift and the two subtractions, found %d' % nass, None, None)
        # no index of s / challenges_sq can be out of range either: the `get(..)` calls return Some on the continuing path (structural: the loop can continue)
        m.expect(any(p.end[0] == 'backedge' for p in lp), 'C16:s-vector', 's-vector loop: no continuing path', None, None)
    m.section('verify s-vector loop', _s5)
    ctx.extra.setdefault('engine_m', {})['regions'] = m.regions
    ctx.extra['engine_m']['mir_dump_s'] = round(_cache.get('dump_s', 0), 1)
    ctx.functions |= {r['function'] for r in m.regions}


# ================================================================================================ C04 / C19: integers absorbed into the transcript
def transcript_integers(ctx):
    try:
        get_mir()
    except lib.Inconclusive as e:
        ctx.inconclusive.append(str(e))
        return
    try:
        _transcript_integers(ctx)
        ctx.m_decided.append('transcript integers (RangeProofTranscript::new)')
    except (lib.Inconclusive, mirx.Inconclusive) as e:
        ctx.m_note('transcript integers (RangeProofTranscript::new)', str(e))
    except Exception as e:
        ctx.m_note('transcript integers (RangeProofTranscript::new)', 'the evaluator could not process this code shape (%s: %s)' % (type(e).__name__, str(e)[:200]))


def _transcript_integers(ctx):
    m = M(ctx)
    f = m.fn(r'transcripts\.rs.*>::new$')
    # (1) N, T, M: the three append_u64 calls right after the generator loop take the usize parameters cast to u64 (an injective cast)
    blocks = [b for b in sorted(f.blocks, key=lambda s: int(s[2:])) if 'Transcript::append_u64' in f.blocks[b][1]]
    if len(blocks) != 5:
        raise lib.Inconclusive('RangeProofTranscript::new: expected 5 append_u64 call sites, found %d' % len(blocks))
    params = {'N': '_4', 'T': '_5', 'M': '_6'}
    want_ty = [f.locals.get(p) for p in params.values()]
    if want_ty != ['usize'] * 3:
        raise lib.Inconclusive('RangeProofTranscript::new: parameter types changed: %s' % want_ty)
    ev = Evaluator(f)
    start = blocks[0]
    paths = ev.run(start=start, stops=(re.search(r'\[return: (bb\d+)', f.blocks[blocks[2]][1]).group(1),))
    m.note_region(f, 'append_u64 of bit length / extension degree / aggregation factor', sorted(set(sum([p.trace for p in paths], []))))
    calls = [o for p in paths for o in p.obs if o['kind'] == 'call' and o['callee'].endswith('Transcript::append_u64')]
    if len(paths) != 1 or len(calls) != 3:
        raise lib.Inconclusive('append_u64 region: %d paths, %d calls' % (len(paths), len(calls)))
    for (label, local), o in zip(params.items(), calls):
        lab = o['args'][1]
        arg = o['args'][2]
        sym = ev.sym(local + '@0', 'usize').e
        lab_ok = isinstance(lab, (Str, Ref, Opaque))
        if not isinstance(arg, BV):
            raise lib.Inconclusive('append_u64 argument is opaque')
        m.oblige('transcript: "%s" absorbs the parameter itself as u64 (for all usize): argument == %s' % (label, local), [arg.e != sym], key='C19:transcript-integers',
                 pred='wire_vector_mismatch')
        s2 = z3.BitVec('other', 64)
        m.oblige('transcript: the u64 absorbed under "%s" is injective in the parameter' % label, [arg.e == z3.substitute(arg.e, (sym, s2)), sym != s2], key='C19:transcript-integers',
                 pred='wire_vector_mismatch')
    labels = [re.search(r'const b"(.*?)"', ' '.join(f.blocks[b][0])) for b in blocks[:3]]
    # (2) promise loop body: Some(p) -> append_u64(label, p); None -> append_u64(label, 0); one call per element
    head = f.walk_back(blocks[3], r'as Iterator>::next\(')
    ev = Evaluator(f)
    lp = ev.run(start=head, stops=(m.loop_exit(f, head),))
    m.note_region(f, 'promise loop body', sorted(set(sum([p.trace for p in lp], []))))
    cont = [p for p in lp if p.end[0] == 'backedge']
    if len(cont) != 2:
        raise lib.Inconclusive('promise loop: expected two continuing paths (Some / None), got %d' % len(cont))
    u64s = [v for k, v in ev.sym_decl.items() if isinstance(v, BV) and v.ty == 'u64']
    if len(u64s) != 1:
        raise lib.Inconclusive('promise loop: promise payload symbol not found (%s)' % [k for k in ev.sym_decl])
    pv = u64s[0].e
    seen_some = seen_none = False
    for p in cont:
        calls = [o for o in p.obs if o['kind'] == 'call' and o['callee'].endswith('Transcript::append_u64')]
        if len(calls) != 1 or not isinstance(calls[0]['args'][2], BV):
            raise lib.Inconclusive('promise loop: an iteration does not make exactly one append_u64 call')
        arg = calls[0]['args'][2].e
        if str(pv) in str(arg) or any(str(pv) in str(c) for c in p.pc):
            seen_some = True
            m.oblige('transcript: a present promise is absorbed as its own value (all u64)', p.pc + [arg != pv], key='C04:promise-encoding', pred='challenges_unchanged',
                     detail={'n': 64, 'x': 1, 'm': 1, 'cap': 1, 'datum': 'promise 0', 'rounds': 6})
            p2 = z3.BitVec('other_promise', 64)
            m.oblige('transcript: the absorbed u64 is injective in the promise (two different promises never collide)', p.pc + [arg == z3.substitute(arg, (pv, p2)), pv != p2],
                     key='C04:promise-encoding', pred='challenges_unchanged', detail={'n': 64, 'x': 1, 'm': 1, 'cap': 1, 'datum': 'promise 0', 'rounds': 6})
            m.oblige('transcript: Some(p) collides with an absent promise only for p == 0', p.pc + [arg == 0, pv != 0], key='C04:promise-encoding', pred='challenges_unchanged',
                     detail={'n': 64, 'x': 1, 'm': 1, 'cap': 1, 'datum': 'promise 0', 'rounds': 6})
        else:
            seen_none = True
            m.oblige('transcript: an absent promise is absorbed as 0', p.pc + [arg != 0], key='C04:promise-encoding', pred='wire_vector_mismatch')
    m.expect(seen_some and seen_none, 'C04:promise-encoding', 'promise loop: Some / None arms not both observed', None, None)
    ctx.extra.setdefault('engine_m', {})['regions'] = ctx.extra.get('engine_m', {}).get('regions', []) + m.regions
    ctx.functions |= {r['function'] for r in m.regions}


# ================================================================================================ C03: the chunk loop of verify_batch
def c03_chunk_loop(ctx):
    try:
        get_mir()
    except lib.Inconclusive as e:
        ctx.inconclusive.append(str(e))
        return
    try:
        _c03_chunk_loop(ctx)
        ctx.m_decided.append('verify_batch chunk loop (CFG)')
    except (lib.Inconclusive, mirx.Inconclusive) as e:
        ctx.m_note('verify_batch chunk loop (CFG)', str(e))
    except Exception as e:
        ctx.m_note('verify_batch chunk loop (CFG)', 'the evaluator could not process this code shape (%s: %s)' % (type(e).__name__, str(e)[:200]))


def _c03_chunk_loop(ctx):
    """control-flow facts about verify_batch that do not depend on the batch size: the call of `verify` sits on a cycle of the CFG whose
    head advances an iterator over (statement chunks, proof chunks, transcript chunks); every chunk result is appended to the masks"""
    m = M(ctx)
    f = m.fn(r'range_proof\.rs.*>::verify_batch$')
    calls = [b for b in f.blocks if re.search(r'RangeProof::<P>::verify\(', f.blocks[b][1])]
    if len(calls) != 1:
        raise lib.Inconclusive('verify_batch: expected one call of verify, found %d' % len(calls))
    vb = calls[0]
    # cycle through vb?
    succ = {b: [t for t in re.findall(r'bb\d+', f.blocks[b][1]) if t in f.blocks] for b in f.blocks}
    # ignore unwind edges
    for b in succ:
        term = f.blocks[b][1]
        unw = re.findall(r'unwind: (bb\d+)', term)
        succ[b] = [t for t in succ[b] if t not in unw]
    seen, stack = set(), list(succ[vb])
    on_cycle = False
    reach = set()
    while stack:
        b = stack.pop()
        if b in reach:
            continue
        reach.add(b)
        if b == vb:
            on_cycle = True
        stack.extend(succ[b])
    heads = [b for b in reach if re.search(r'as Iterator>::next\(', f.blocks[b][1]) and vb in _reach_from(succ, b)]
    m.note_region(f, 'control flow: call of verify, enclosing loop', sorted(reach & _reach_to(succ, vb)))
    rd = {'replay_cfg': {'scenario': 'batch', 'n': 2, 'x': 1, 'members': [dict({'m': 1, 'cap': 1}, **({'tamper': {'op': 'scalar_add_delta', 'elem': 4}} if i == 256 else {})) for i in range(257)],
                         'actions': ['VerifyOnly']}, 'replay_seeds': 1}
    m.expect(on_cycle, 'C03:member-ignored:index>=256', 'verify_batch: the call of verify is not inside a loop over the chunks (members beyond the first chunk are never verified)', None,
               'tampered_accepted', rd)
    if heads:
        it = re.search(r'<(.*) as Iterator>::next', f.blocks[heads[0]][1]).group(1)
        ok = it.count('Chunks') >= 2 and 'ChunksMut' in it
        m.expect(ok, 'C03:chunk-iterator', 'verify_batch: the chunk loop does not iterate over (statement chunks, proof chunks, transcript chunks) together: %s' % it[:200], None, 'tampered_accepted', rd)
    # every result of a chunk is appended to the output (Vec::append on the masks) on the path from the call back to the loop head
    app = [b for b in (reach & _reach_to(succ, heads[0] if heads else vb))
           if re.search(r'ExtendedMask', f.blocks[b][1]) and re.search(r'::(append|extend|extend_from_slice|push)(::<[^(]*>)?\(', f.blocks[b][1])]
    m.expect(len(app) >= 1, 'C03:result-count', 'verify_batch: chunk results are not appended to the returned vector inside the loop', None, 'results_len_wrong', rd)
    ctx.extra.setdefault('engine_m', {})['regions'] = ctx.extra.get('engine_m', {}).get('regions', []) + m.regions
    ctx.functions |= {r['function'] for r in m.regions}


def _reach_from(succ, b):
    seen, st = set(), [b]
    while st:
        x = st.pop()
        if x in seen:
            continue
        seen.add(x)
        st.extend(succ.get(x, []))
    return seen


def _reach_to(succ, target):
    pred = {}
    for a, ts in succ.items():
        for t in ts:
            pred.setdefault(t, []).append(a)
    seen, st = set(), [target]
    while st:
        x = st.pop()
        if x in seen:
            continue
        seen.add(x)
        st.extend(pred.get(x, []))
    return seen
