"""Term DAG of a symx dump -> pure polynomial SMT-LIB2 terms (DESIGN.md §2.1).

Every scalar node is rewritten as N / M with M a monomial over *atoms* (sub-terms the code inverts:
challenge variables, powers of them, and defined atoms such as y-1).  The solver only ever sees the
numerators, i.e. polynomial identities / disequalities over the reals.
"""
import json

L = 2**252 + 27742317777372353535851937790883648493


def signed(c):
    c %= L
    return c - L if c > L // 2 else c


class Terms:
    """hash-consed SMT real terms; each gets a name t<i> and a define-fun line"""

    def __init__(self):
        self.defs = []          # (name, body)
        self.ix = {}
        self.kind = []          # ('c',int) | ('v',name) | ('+',a,b) | ...
        self.vars = {}          # smt var name -> declared?
        self.var_order = []

    def _mk(self, key, body):
        i = self.ix.get(key)
        if i is not None:
            return i
        i = len(self.defs)
        self.ix[key] = i
        self.defs.append(body)
        self.kind.append(key)
        return i

    def const(self, c):
        c = int(c)
        body = '%d.0' % c if c >= 0 else '(- %d.0)' % (-c)
        return self._mk(('c', c), body)

    def var(self, name):
        sname = 'x_' + name
        if sname not in self.vars:
            self.vars[sname] = True
            self.var_order.append(sname)
        return self._mk(('v', sname), sname)

    def cval(self, i):
        k = self.kind[i]
        return k[1] if k[0] == 'c' else None

    def add(self, a, b):
        ca, cb = self.cval(a), self.cval(b)
        if ca is not None and cb is not None:
            return self.const(ca + cb)
        if ca == 0:
            return b
        if cb == 0:
            return a
        if a > b:
            a, b = b, a
        return self._mk(('+', a, b), '(+ t%d t%d)' % (a, b))

    def sub(self, a, b):
        ca, cb = self.cval(a), self.cval(b)
        if ca is not None and cb is not None:
            return self.const(ca - cb)
        if cb == 0:
            return a
        if a == b:
            return self.const(0)
        if ca == 0:
            return self.neg(b)
        return self._mk(('-', a, b), '(- t%d t%d)' % (a, b))

    def neg(self, a):
        ca = self.cval(a)
        if ca is not None:
            return self.const(-ca)
        k = self.kind[a]
        if k[0] == 'n':
            return k[1]
        return self._mk(('n', a), '(- t%d)' % a)

    def mul(self, a, b):
        ca, cb = self.cval(a), self.cval(b)
        if ca is not None and cb is not None:
            return self.const(ca * cb)
        if ca == 0 or cb == 0:
            return self.const(0)
        if ca == 1:
            return b
        if cb == 1:
            return a
        if a > b:
            a, b = b, a
        return self._mk(('*', a, b), '(* t%d t%d)' % (a, b))

    def mono_term(self, mono):
        r = self.const(1)
        for a in sorted(mono):
            for _ in range(mono[a]):
                r = self.mul(r, a)
        return r


def mono_mul(a, b):
    r = dict(a)
    for k, v in b.items():
        r[k] = r.get(k, 0) + v
    return r


class Norm:
    def __init__(self, core, terms=None, rename=None, subst=None):
        self.rename = rename
        self.subst = subst or {}      # variable name -> int constant | callable(norm) -> Frac (substitution of a definition)
        self.core = core
        self.nodes = core['nodes']
        self.varinfo = core['vars']
        self.T = terms or Terms()
        self.memo = {}
        self.atoms = set()   # term ids used as denominators (assumed non-zero)

    def var_term(self, vid):
        name = self.varinfo[vid]['name']
        return self.T.var(self.rename(name) if self.rename else name)

    def nm(self, n):
        """returns (num term id, den monomial {term id: exp}, mono of num or None)"""
        stack = [n]
        memo = self.memo
        nodes = self.nodes
        T = self.T
        while stack:
            cur = stack[-1]
            if cur in memo:
                stack.pop()
                continue
            op = nodes[cur]
            k = op[0]
            if k == 'c':
                c = signed(int(op[1]))
                t = T.const(c)
                memo[cur] = (t, {}, {} if c == 1 else None)
                stack.pop()
                continue
            if k == 'v':
                name = self.varinfo[op[1]]['name']
                if name in self.subst:
                    sv = self.subst[name]
                    if callable(sv):
                        fr = sv(self)
                        memo[cur] = (fr.num, dict(fr.den), fr.mono)
                    else:
                        t = T.const(int(sv))
                        memo[cur] = (t, {}, {} if int(sv) == 1 else None)
                    stack.pop()
                    continue
                t = self.var_term(op[1])
                memo[cur] = (t, {}, {t: 1})
                stack.pop()
                continue
            args = op[1:]
            missing = [a for a in args if a not in memo]
            if missing:
                stack.extend(missing)
                continue
            stack.pop()
            if k in '+-':
                (na, da, _), (nb, db, _) = memo[args[0]], memo[args[1]]
                if da == db:
                    Lm = da
                    ta, tb = na, nb
                else:
                    Lm = {}
                    for kk in set(da) | set(db):
                        Lm[kk] = max(da.get(kk, 0), db.get(kk, 0))
                    ca = {kk: Lm[kk] - da.get(kk, 0) for kk in Lm if Lm[kk] - da.get(kk, 0) > 0}
                    cb = {kk: Lm[kk] - db.get(kk, 0) for kk in Lm if Lm[kk] - db.get(kk, 0) > 0}
                    ta = T.mul(na, T.mono_term(ca)) if ca else na
                    tb = T.mul(nb, T.mono_term(cb)) if cb else nb
                t = T.add(ta, tb) if k == '+' else T.sub(ta, tb)
                memo[cur] = (t, Lm, None)
            elif k == '*':
                (na, da, ma), (nb, db, mb) = memo[args[0]], memo[args[1]]
                mono = mono_mul(ma, mb) if (ma is not None and mb is not None) else None
                num = T.mul(na, nb)
                den = mono_mul(da, db) if (da or db) else {}
                # cancel common atoms between a known numerator monomial and the denominator
                if mono is not None and den:
                    common = {a: min(e, den[a]) for a, e in mono.items() if a in den}
                    if common:
                        mono = {a: e - common.get(a, 0) for a, e in mono.items() if e - common.get(a, 0) > 0}
                        den = {a: e - common.get(a, 0) for a, e in den.items() if e - common.get(a, 0) > 0}
                        num = T.mono_term(mono)
                memo[cur] = (num, den, mono)
            elif k == 'n':
                (na, da, _) = memo[args[0]]
                memo[cur] = (T.neg(na), da, None)
            elif k == 'i':
                (na, da, ma) = memo[args[0]]
                if ma is None:
                    ma = {na: 1}
                for a in ma:
                    self.atoms.add(a)
                num = T.mono_term(da) if da else T.const(1)
                memo[cur] = (num, dict(ma), dict(da))
            else:
                raise ValueError('bad op %r' % (op,))
        return memo[n]

    # ---- building new (spec) values on top of existing nodes: python-side fractions
    def frac(self, n):
        return Frac(self, *self.nm(n))

    def fconst(self, c):
        return Frac(self, self.T.const(c), {}, {} if c == 1 else None)

    def fvar(self, name):
        t = self.T.var(self.rename(name) if self.rename else name)
        return Frac(self, t, {}, {t: 1})


class Frac:
    """a value N/M built on the python side (used by the specification oracles)"""

    def __init__(self, norm, num, den, mono):
        self.n = norm
        self.num = num
        self.den = den
        self.mono = mono

    def _lift(self, o):
        return o if isinstance(o, Frac) else self.n.fconst(o)

    def __mul__(self, o):
        o = self._lift(o)
        T = self.n.T
        mono = mono_mul(self.mono, o.mono) if (self.mono is not None and o.mono is not None) else None
        num = T.mul(self.num, o.num)
        den = mono_mul(self.den, o.den) if (self.den or o.den) else {}
        if mono is not None and den:
            common = {a: min(e, den[a]) for a, e in mono.items() if a in den}
            if common:
                mono = {a: e - common.get(a, 0) for a, e in mono.items() if e - common.get(a, 0) > 0}
                den = {a: e - common.get(a, 0) for a, e in den.items() if e - common.get(a, 0) > 0}
                num = T.mono_term(mono)
        return Frac(self.n, num, den, mono)
    __rmul__ = __mul__

    def _addsub(self, o, sign):
        o = self._lift(o)
        T = self.n.T
        da, db = self.den, o.den
        if da == db:
            Lm, ta, tb = da, self.num, o.num
        else:
            Lm = {k: max(da.get(k, 0), db.get(k, 0)) for k in set(da) | set(db)}
            ca = {k: Lm[k] - da.get(k, 0) for k in Lm if Lm[k] - da.get(k, 0) > 0}
            cb = {k: Lm[k] - db.get(k, 0) for k in Lm if Lm[k] - db.get(k, 0) > 0}
            ta = T.mul(self.num, T.mono_term(ca)) if ca else self.num
            tb = T.mul(o.num, T.mono_term(cb)) if cb else o.num
        return Frac(self.n, T.add(ta, tb) if sign > 0 else T.sub(ta, tb), Lm, None)

    def __add__(self, o):
        return self._addsub(o, 1)

    def __radd__(self, o):
        return self._lift(o)._addsub(self, 1)

    def __sub__(self, o):
        return self._addsub(o, -1)

    def __rsub__(self, o):
        return self._lift(o)._addsub(self, -1)

    def __neg__(self):
        return Frac(self.n, self.n.T.neg(self.num), self.den, None)

    def inv(self):
        ma = self.mono
        if ma is None:
            ma = {self.num: 1}
        for a in ma:
            self.n.atoms.add(a)
        T = self.n.T
        return Frac(self.n, T.mono_term(self.den) if self.den else T.const(1), dict(ma), dict(self.den))

    def pow(self, k):
        r = self.n.fconst(1)
        b = self
        while k:
            if k & 1:
                r = r * b
            b = b * b
            k >>= 1
        return r

    def is_zero_syntactic(self):
        return self.n.T.cval(self.num) == 0

    def diff_num(self, o):
        """numerator of self - o (zero iff equal, given non-zero atoms)"""
        return (self - o).num


def load(path):
    with open(path) as f:
        return json.load(f)
