#!/usr/bin/env python3
"""./check <Cxx> [--tier quick|thorough]   — entry point of every registered check"""
import sys, os, time, argparse, importlib, traceback
sys.path.insert(0, os.path.dirname(os.path.abspath(__file__)))
import lib


def main():
    ap = argparse.ArgumentParser()
    ap.add_argument('prop')
    ap.add_argument('--tier', default=os.environ.get('VERIF_TIER', 'quick'))
    ap.add_argument('--replay')
    a = ap.parse_args()
    seed = int(os.environ.get('VERIF_SEED', '1') or 1)
    pid = a.prop.upper()
    mod = importlib.import_module('props.' + pid.lower())
    ctx = lib.Ctx(pid, a.tier, seed)
    try:
        if getattr(mod, 'NEEDS_SYMX', True):
            lib.build_symx()
        code = mod.run(ctx)
    except lib.Inconclusive as e:
        print('INCONCLUSIVE property=%s: %s' % (pid, e))
        code = 2
    except Exception:
        traceback.print_exc()
        print('INCONCLUSIVE property=%s: check crashed' % pid)
        code = 2
    sys.exit(code)


if __name__ == '__main__':
    main()
