#!/usr/bin/env python3
"""./check <Cxx> [--tier quick|thorough]   — entry point of every registered check"""
import sys, os, time, argparse, importlib, traceback
sys.path.insert(0, os.path.dirname(os.path.abspath(__file__)))
import lib


def main():
    ap = argparse.ArgumentParser()
    ap.add_argument('prop')
    ap.add_argument('--tier', default=os.environ.get('VERIF_TIER', 'quick'))
    ap.add_argument('--replay')
    a = ap.parse_args()
    seed = int(os.environ.get('VERIF_SEED', '1') or 1)
    pid = a.prop.upper()
    if a.replay:
        # re-run a recorded counterexample on the real crates (replay crate) and say whether it reproduces
        import json, replaypreds
        r = json.load(open(a.replay))
        f = lib.Finding(r['property'], r['key'], r['what'], r['scenario'], r.get('pred'), r.get('detail') or {})
        if not f.concrete_pred:
            print('no concrete predicate recorded for this finding')
            sys.exit(2)
        ok, det = replaypreds.PREDS[f.concrete_pred](f)
        print(json.dumps({'reproduced': ok, 'detail': det}, indent=1, default=str)[:3000])
        if ok:
            print('VIOLATION property=%s replay=%s' % (r['property'], a.replay))
        sys.exit(1 if ok else (0 if ok is False else 2))
    mod = importlib.import_module('props.' + pid.lower())
    ctx = lib.Ctx(pid, a.tier, seed)
    try:
        if getattr(mod, 'NEEDS_SYMX', True):
            lib.build_symx()
        code = mod.run(ctx)
    except lib.Inconclusive as e:
        print('INCONCLUSIVE property=%s: %s' % (pid, e))
        code = 2
    except Exception:
        traceback.print_exc()
        print('INCONCLUSIVE property=%s: check crashed' % pid)
        code = 2
    sys.exit(code)


if __name__ == '__main__':
    main()
