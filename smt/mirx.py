"""Engine M — symbolic evaluation of the nightly compiler's MIR of /repo (DESIGN.md §2.2).

* whole-function mode for loop-free integer functions,
* region mode: evaluation starts at an anchor block with EVERY live local an unconstrained symbol of its
  declared type (one loop iteration from an arbitrary state), stops at back-edges / designated exits and records
  observations (arguments of designated calls, the returned value) together with the path condition.

Integers are bit-vectors of their Rust width; rustc's own overflow / bounds assertions (`assert(...)` terminators,
`-C overflow-checks=on`) are kept and become obligations. Values that the integer layer does not understand are
opaque symbols; an opaque value reaching an assertion of a property is reported as inconclusive, never as a verdict.
"""
import re, itertools, subprocess, os, shutil, tempfile, time
import z3

WIDTH = {'usize': 64, 'u64': 64, 'isize': 64, 'i64': 64, 'u32': 32, 'i32': 32, 'u8': 8, 'i8': 8, 'u16': 16, 'i16': 16, 'u128': 128, 'i128': 128}
SIGNED = {'isize', 'i64', 'i32', 'i8', 'i16', 'i128'}


# ------------------------------------------------------------------------------------------------ values
class V:
    pass


class BV(V):
    def __init__(self, e, ty):
        self.e, self.ty = e, ty

    def __repr__(self):
        return 'BV(%s:%s)' % (self.e, self.ty)


class IV(V):
    """mathematical integer with the range of its Rust type (int mode: only checked arithmetic and comparisons are modelled)"""

    def __init__(self, e, ty):
        self.e, self.ty = e, ty

    def __repr__(self):
        return 'IV(%s:%s)' % (self.e, self.ty)


class B(V):
    def __init__(self, e):
        self.e = e

    def __repr__(self):
        return 'B(%s)' % self.e


class Opt(V):
    def __init__(self, some, val):
        self.some, self.val = some, val

    def __repr__(self):
        return 'Opt(%s,%s)' % (self.some, self.val)


class Res(V):
    def __init__(self, ok, okv, errv):
        self.ok, self.okv, self.errv = ok, okv, errv

    def __repr__(self):
        return 'Res(%s,%s,%s)' % (self.ok, self.okv, self.errv)


class CF(V):
    def __init__(self, cont, contv, brkv):
        self.cont, self.contv, self.brkv = cont, contv, brkv


class Tup(V):
    def __init__(self, items):
        self.items = list(items)

    def __repr__(self):
        return 'Tup(%s)' % self.items


class Adt(V):
    def __init__(self, name, fields):
        self.name, self.fields = name, list(fields)

    def __repr__(self):
        return 'Adt(%s,%s)' % (self.name, self.fields)


class Str(V):
    def __init__(self, s):
        self.s = s

    def __repr__(self):
        return 'Str(%r)' % self.s


class Ref(V):
    """reference to a place (string, already canonical) or to a value"""

    def __init__(self, place=None, val=None):
        self.place, self.val = place, val

    def __repr__(self):
        return 'Ref(%s)' % (self.place if self.place is not None else self.val)


class Opaque(V):
    _ctr = itertools.count()

    def __init__(self, tag, ty=None, args=None):
        self.tag, self.ty, self.args = tag, ty, args
        self.id = next(Opaque._ctr)

    def __repr__(self):
        return 'Opaque(%s#%d)' % (self.tag, self.id)


class Unit(V):
    def __repr__(self):
        return 'Unit'


# ------------------------------------------------------------------------------------------------ parsing
class Fn:
    def __init__(self, header, name, params, locals_, blocks):
        self.header, self.name, self.params, self.locals, self.blocks = header, name, params, locals_, blocks
        self.preds = {}
        for b, (_, term) in blocks.items():
            for t in re.findall(r'bb\d+', term):
                self.preds.setdefault(t, set()).add(b)

    def find_blocks(self, pattern):
        rx = re.compile(pattern)
        return [b for b, (stmts, term) in self.blocks.items() if any(rx.search(s) for s in stmts) or rx.search(term)]

    def block_text(self, b):
        return '\n'.join(self.blocks[b][0] + [self.blocks[b][1]])

    def walk_back(self, start, pattern, limit=400):
        """nearest predecessor (BFS over predecessor edges) whose text matches"""
        rx = re.compile(pattern)
        seen, frontier = {start}, [start]
        while frontier and limit:
            nxt = []
            for b in frontier:
                if rx.search(self.block_text(b)):
                    return b
                for p in sorted(self.preds.get(b, ())):
                    if p not in seen:
                        seen.add(p)
                        nxt.append(p)
            frontier = nxt
            limit -= 1
        return None

    def walk_fwd(self, start, pattern, limit=400):
        rx = re.compile(pattern)
        seen, frontier = {start}, [start]
        while frontier and limit:
            nxt = []
            for b in frontier:
                if rx.search(self.block_text(b)):
                    return b
                for t in re.findall(r'bb\d+', self.blocks[b][1]):
                    if t not in seen and t in self.blocks:
                        seen.add(t)
                        nxt.append(t)
            frontier = nxt
            limit -= 1
        return None


def split_top(s, sep=','):
    out, depth, cur = [], 0, ''
    i = 0
    while i < len(s):
        c = s[i]
        if c in '([{<':
            depth += 1
        elif c in ')]}':
            depth -= 1
        elif c == '>' and not (i > 0 and s[i - 1] in '-='):
            depth -= 1
        if depth == 0 and s.startswith(sep, i):
            out.append(cur)
            cur = ''
            i += len(sep)
            continue
        cur += c
        i += 1
    if cur.strip():
        out.append(cur)
    return [x.strip() for x in out]


CONSTS = {}


def parse_consts(text):
    """named integer constants whose MIR body is a literal"""
    for m in re.finditer(r'^const ([\w:<>]+): (\w+) = const (-?\d+)_(\w+);', text, re.M):
        if m.group(2) in WIDTH:
            CONSTS[m.group(1).split('::')[-1]] = (int(m.group(3)), m.group(2))
    for m in re.finditer(r'^const ([\w:<>]+): (\w+) = \{\n(.*?)^\}', text, re.M | re.S):
        v = re.search(r'_0 = const (-?\d+)_(\w+);', m.group(3))
        if v and m.group(2) in WIDTH:
            CONSTS[m.group(1).split('::')[-1]] = (int(v.group(1)), m.group(2))


def parse_mir(text):
    parse_consts(text)
    fns = {}
    for m in re.finditer(r'^fn ([^\n]*?)\((.*?)\) -> ([^\n]*?) \{\n(.*?)^\}\n', text, re.M | re.S):
        name, params, ret, body = m.group(1), m.group(2), m.group(3), m.group(4)
        locals_ = {'_0': ret.strip()}
        plist = []
        for p in split_top(params):
            pm = re.match(r'(_\d+): (.*)$', p, re.S)
            if pm:
                locals_[pm.group(1)] = pm.group(2).strip()
                plist.append(pm.group(1))
        for lm in re.finditer(r'^\s+let (?:mut )?(_\d+): (.*?);$', body, re.M):
            locals_[lm.group(1)] = lm.group(2).strip()
        blocks = {}
        for bm in re.finditer(r'^    (bb\d+)(?: \(cleanup\))?: \{\n(.*?)^    \}', body, re.M | re.S):
            lines = [l.strip() for l in bm.group(2).strip().split('\n') if l.strip()]
            # join multi-line statements (rare): a statement ends with ';'
            joined, cur = [], ''
            for l in lines:
                cur = (cur + ' ' + l).strip()
                if cur.endswith(';') or cur.endswith('{') or cur in ('return;', 'unreachable;'):
                    joined.append(cur)
                    cur = ''
            if cur:
                joined.append(cur)
            blocks[bm.group(1)] = (joined[:-1], joined[-1])
        fns.setdefault(name.strip(), []).append(Fn(m.group(0).split('\n')[0], name.strip(), plist, locals_, blocks))
    return fns


def find_fn(fns, pattern):
    rx = re.compile(pattern)
    hits = [f for k, lst in fns.items() if rx.search(k) for f in lst]
    if len(hits) != 1:
        raise LookupError('anchor: %d functions match %r' % (len(hits), pattern))
    return hits[0]


# ------------------------------------------------------------------------------------------------ evaluation
class Path:
    def __init__(self, env=None, pc=None, obs=None, mem=None, ver=None, trace=None, asserts=None):
        self.env = dict(env or {})
        self.pc = list(pc or [])
        self.obs = list(obs or [])
        self.mem = dict(mem or {})
        self.ver = dict(ver or {})
        self.trace = list(trace or [])
        self.asserts = list(asserts or [])   # (cond BoolRef, message, block): rustc-inserted assertions passed on this path
        self.end = None

    def fork(self):
        return Path(self.env, self.pc, self.obs, self.mem, self.ver, self.trace, self.asserts)


class Inconclusive(Exception):
    pass


class Evaluator:
    def __init__(self, fn, call_models=None, observe=None, int_mode=False):
        self.fn = fn
        self.int_mode = int_mode
        self.domain = []
        self.fresh = itertools.count()
        self.observe = observe or (lambda callee: True)
        self.sym_decl = {}
        self.max_paths = 4000

    # ---- symbols
    def sym(self, name, ty):
        ty = ty.strip()
        key = (name, ty)
        if key in self.sym_decl:
            return self.sym_decl[key]
        if ty in WIDTH and self.int_mode:
            x = z3.Int(name)
            self.domain += [x >= 0, x <= (1 << WIDTH[ty]) - 1]
            v = IV(x, ty)
        elif ty in WIDTH:
            v = BV(z3.BitVec(name, WIDTH[ty]), ty)
        elif ty == 'bool':
            v = B(z3.Bool(name))
        else:
            v = Opaque(name, ty)
        self.sym_decl[key] = v
        return v

    def fresh_name(self, base):
        return '%s!%d' % (base, next(self.fresh))

    def local_sym(self, p, local):
        """a local read before being written in this region: an arbitrary value of its declared type"""
        ty = self.fn.locals.get(local, '?')
        return self.sym('%s@%d' % (local, p.ver.get(local, 0)), ty)

    # ---- places
    def strip_paren(self, s):
        s = s.strip()
        while s.startswith('(') and s.endswith(')'):
            depth = 0
            ok = True
            for i, c in enumerate(s):
                if c == '(':
                    depth += 1
                elif c == ')':
                    depth -= 1
                    if depth == 0 and i != len(s) - 1:
                        ok = False
                        break
            if not ok:
                break
            return s[1:-1].strip(), True
        return s, False

    def canon(self, p, place):
        """canonical string of a place with local versions (used as key for symbolic memory)"""
        return re.sub(r'_\d+', lambda m: '%s@%d' % (m.group(0), p.ver.get(m.group(0), 0)), place)

    def read_place(self, p, place):
        place = place.strip()
        if re.fullmatch(r'_\d+', place):
            if place in p.env:
                return p.env[place]
            v = self.local_sym(p, place)
            p.env[place] = v
            return v
        inner, had = self.strip_paren(place)
        if had:
            if inner.startswith('*'):
                base = self.read_place(p, inner[1:])
                if isinstance(base, Ref):
                    if base.val is not None:
                        return base.val
                    return self.read_place(p, base.place)
                # dereferencing a symbolic pointer: a symbol of the pointee type (named by the place)
                ptr = inner[1:].strip()
                pty = None
                if re.fullmatch(r'_\d+', ptr):
                    pty = re.sub(r"^&('\w+ )?(mut )?", '', self.fn.locals.get(ptr, '')).strip() or None
                return self.mem_sym(p, place, pty)
            # downcast
            parts = split_top(inner, ' as ')
            if len(parts) == 2 and re.fullmatch(r'\w+', parts[1]):
                base = self.read_place(p, parts[0])
                return ('downcast', base, parts[1])
            # field: PLACE.N: TYPE
            fm = self.split_field(inner)
            if fm:
                basep, idx, ty = fm
                base = self.read_place(p, basep)
                return self.project(p, base, idx, ty, place)
            return self.read_place(p, inner)
        # index or bare field
        m = re.match(r'(.*)\[(.*)\]$', place)
        if m:
            return self.mem_sym(p, place, None)
        return self.mem_sym(p, place, None)

    def split_field(self, inner):
        # find top-level ": " (type annotation)
        depth = 0
        pos = None
        for i, c in enumerate(inner):
            if c in '([{<':
                depth += 1
            elif c in ')]}':
                depth -= 1
            elif c == '>' and inner[i - 1] not in '-=':
                depth -= 1
            elif c == ':' and depth == 0 and inner[i:i + 2] == ': ' and (i == 0 or inner[i - 1] != ':') and inner[i + 1:i + 2] != ':':
                pos = i
                break
        if pos is None:
            return None
        left, ty = inner[:pos], inner[pos + 2:]
        m = re.match(r'(.*)\.(\d+)$', left, re.S)
        if not m:
            return None
        return m.group(1), int(m.group(2)), ty

    def mem_sym(self, p, place, ty):
        key = self.canon(p, place)
        if key in p.mem:
            return p.mem[key]
        v = self.sym(key, ty or '?')
        p.mem[key] = v
        return v

    def project(self, p, base, idx, ty, place):
        if isinstance(base, tuple) and base[0] == 'downcast':
            b, var = base[1], base[2]
            if isinstance(b, Opt) and var == 'Some':
                return b.val
            if isinstance(b, Res):
                return b.okv if var == 'Ok' else b.errv
            if isinstance(b, CF):
                return b.contv if var == 'Continue' else b.brkv
            if isinstance(b, Adt):
                if idx < len(b.fields):
                    return b.fields[idx]
            return self.mem_sym(p, place, ty)
        if isinstance(base, Tup) and idx < len(base.items):
            return base.items[idx]
        if isinstance(base, Adt) and idx < len(base.fields):
            return base.fields[idx]
        return self.mem_sym(p, place, ty)

    def write_place(self, p, place, val):
        place = place.strip()
        if re.fullmatch(r'_\d+', place):
            p.env[place] = val
            p.ver[place] = p.ver.get(place, 0) + 1
            return
        inner, had = self.strip_paren(place)
        if had and inner.startswith('*'):
            base = self.read_place(p, inner[1:])
            if isinstance(base, Ref) and base.place is not None:
                return self.write_place(p, base.place, val)
        fm = self.split_field(inner) if had else None
        if fm:
            basep, idx, ty = fm
            base = self.read_place(p, basep) if re.fullmatch(r'_\d+', basep.strip()) and basep.strip() in p.env else None
            if isinstance(base, Tup) and idx < len(base.items):
                base.items[idx] = val
                return
        p.mem[self.canon(p, place)] = val

    # ---- operands / rvalues
    def const(self, tok):
        m = re.match(r'const (-?\d+)_(\w+)$', tok)
        if m and m.group(2) in WIDTH and self.int_mode:
            return IV(z3.IntVal(int(m.group(1))), m.group(2))
        if m and m.group(2) in WIDTH:
            return BV(z3.BitVecVal(int(m.group(1)), WIDTH[m.group(2)]), m.group(2))
        m = re.match(r'const (true|false)$', tok)
        if m:
            return B(z3.BoolVal(m.group(1) == 'true'))
        m = re.match(r'const "(.*)"$', tok, re.S)
        if m:
            return Str(m.group(1))
        m = re.match(r'const b"(.*)"$', tok, re.S)
        if m:
            return Str(m.group(1))
        m = re.match(r"const b'(.)'$", tok)
        if m:
            return BV(z3.BitVecVal(ord(m.group(1)), 8), 'u8')
        if tok == 'const ()':
            return Unit()
        nm = tok[len('const '):].split('::')[-1].strip()
        if nm in CONSTS:
            val, ty = CONSTS[nm]
            return BV(z3.BitVecVal(val, WIDTH[ty]), ty)
        return Opaque(tok, None)

    def operand(self, p, tok):
        tok = tok.strip()
        if tok.startswith('const '):
            return self.const(tok)
        m = re.match(r'(copy|move) (.*)$', tok, re.S)
        if m:
            return self.read_place(p, m.group(2))
        return self.read_place(p, tok)

    BIN = {'Add', 'Sub', 'Mul', 'Lt', 'Le', 'Gt', 'Ge', 'Eq', 'Ne', 'BitAnd', 'BitOr', 'BitXor', 'Shl', 'Shr', 'Div', 'Rem',
           'AddWithOverflow', 'SubWithOverflow', 'MulWithOverflow', 'AddUnchecked', 'SubUnchecked', 'MulUnchecked', 'ShlUnchecked', 'ShrUnchecked', 'Offset'}

    def binop(self, op, a, b):
        if isinstance(a, IV) and isinstance(b, IV):
            x, y = a.e, b.e
            cmpf = {'Eq': lambda: x == y, 'Ne': lambda: x != y, 'Lt': lambda: x < y, 'Le': lambda: x <= y, 'Gt': lambda: x > y, 'Ge': lambda: x >= y}
            if op in cmpf:
                return B(cmpf[op]())
            hi = (1 << WIDTH[a.ty]) - 1
            if op in ('AddWithOverflow', 'SubWithOverflow', 'MulWithOverflow'):
                r = {'A': x + y, 'S': x - y, 'M': x * y}[op[0]]
                return Tup([IV(r, a.ty), B(z3.Or(r < 0, r > hi))])
            raise Inconclusive('int mode: wrapping operation %s is not modelled' % op)
        if isinstance(a, B) and isinstance(b, B):
            f = {'Eq': lambda x, y: x == y, 'Ne': lambda x, y: x != y, 'BitAnd': z3.And, 'BitOr': z3.Or, 'BitXor': z3.Xor}.get(op)
            return B(f(a.e, b.e)) if f else Opaque(op)
        if not (isinstance(a, BV) and isinstance(b, BV)):
            if op in ('Eq', 'Ne', 'Lt', 'Le', 'Gt', 'Ge'):
                return B(z3.Bool('cmp!%d' % next(self.fresh)))
            return Opaque(op)
        x, y = a.e, b.e
        signed = a.ty in SIGNED
        if y.size() != x.size():
            y = z3.ZeroExt(x.size() - y.size(), y) if y.size() < x.size() else z3.Extract(x.size() - 1, 0, y)
        w = x.size()
        if op in ('Add', 'AddUnchecked'):
            return BV(x + y, a.ty)
        if op in ('Sub', 'SubUnchecked'):
            return BV(x - y, a.ty)
        if op in ('Mul', 'MulUnchecked'):
            return BV(x * y, a.ty)
        if op == 'BitAnd':
            return BV(x & y, a.ty)
        if op == 'BitOr':
            return BV(x | y, a.ty)
        if op == 'BitXor':
            return BV(x ^ y, a.ty)
        if op in ('Shl', 'ShlUnchecked'):
            return BV(x << y, a.ty)
        if op in ('Shr', 'ShrUnchecked'):
            return BV((x >> y) if signed else z3.LShR(x, y), a.ty)
        if op == 'Div':
            return BV((x / y) if signed else z3.UDiv(x, y), a.ty)
        if op == 'Rem':
            return BV(z3.SRem(x, y) if signed else z3.URem(x, y), a.ty)
        if op == 'Eq':
            return B(x == y)
        if op == 'Ne':
            return B(x != y)
        if op == 'Lt':
            return B((x < y) if signed else z3.ULT(x, y))
        if op == 'Le':
            return B((x <= y) if signed else z3.ULE(x, y))
        if op == 'Gt':
            return B((x > y) if signed else z3.UGT(x, y))
        if op == 'Ge':
            return B((x >= y) if signed else z3.UGE(x, y))
        if op in ('AddWithOverflow', 'SubWithOverflow', 'MulWithOverflow'):
            xe, ye = z3.ZeroExt(w, x), z3.ZeroExt(w, y)
            if op[0] == 'A':
                full, res = xe + ye, x + y
                ov = z3.UGT(full, z3.ZeroExt(w, z3.BitVecVal(-1, w)))
            elif op[0] == 'S':
                res = x - y
                ov = z3.ULT(x, y)
            else:
                full, res = xe * ye, x * y
                ov = z3.UGT(full, z3.ZeroExt(w, z3.BitVecVal(-1, w)))
            return Tup([BV(res, a.ty), B(ov)])
        return Opaque(op)

    def rvalue(self, p, rv, dst_ty=None):
        rv = rv.strip()
        m = re.match(r'(\w+)\((.*)\)$', rv, re.S)
        if m and m.group(1) in self.BIN:
            args = split_top(m.group(2))
            if len(args) == 2:
                return self.binop(m.group(1), self.operand(p, args[0]), self.operand(p, args[1]))
        if m and m.group(1) == 'Not':
            a = self.operand(p, m.group(2))
            if isinstance(a, B):
                return B(z3.Not(a.e))
            if isinstance(a, BV):
                return BV(~a.e, a.ty)
            return Opaque('Not')
        if m and m.group(1) == 'Neg':
            a = self.operand(p, m.group(2))
            return BV(-a.e, a.ty) if isinstance(a, BV) else Opaque('Neg')
        if m and m.group(1) == 'PtrMetadata':
            return self.mem_sym(p, self.len_key(p, self.operand(p, m.group(2)), m.group(2)), 'usize')
        if m and m.group(1) == 'discriminant':
            v = self.read_place(p, m.group(2))
            if isinstance(v, Opt):
                return BV(z3.If(v.some, z3.BitVecVal(1, 64), z3.BitVecVal(0, 64)), 'isize')
            if isinstance(v, Res):
                return BV(z3.If(v.ok, z3.BitVecVal(0, 64), z3.BitVecVal(1, 64)), 'isize')
            if isinstance(v, CF):
                return BV(z3.If(v.cont, z3.BitVecVal(0, 64), z3.BitVecVal(1, 64)), 'isize')
            if isinstance(v, Adt) and v.name.startswith('disc:'):
                return v.fields[0]
            return self.sym('disc(%s)' % self.canon(p, m.group(2)), 'isize')
        m2 = re.match(r'(.*) as (\w+) \((\w+)\)$', rv, re.S)
        if m2:
            a = self.operand(p, m2.group(1))
            ty = m2.group(2)
            if isinstance(a, BV) and ty in WIDTH:
                w = WIDTH[ty]
                if w == a.e.size():
                    return BV(a.e, ty)
                if w < a.e.size():
                    return BV(z3.Extract(w - 1, 0, a.e), ty)
                return BV(z3.SignExt(w - a.e.size(), a.e) if a.ty in SIGNED else z3.ZeroExt(w - a.e.size(), a.e), ty)
            if isinstance(a, B) and ty in WIDTH:
                return BV(z3.If(a.e, z3.BitVecVal(1, WIDTH[ty]), z3.BitVecVal(0, WIDTH[ty])), ty)
            return a if m2.group(3) in ('PointerCoercion', 'Transmute', 'PtrToPtr') else Opaque('cast')
        if rv.startswith('&'):
            pl = re.sub(r'^&(raw )?(mut |const )?', '', rv).strip()
            if re.fullmatch(r'_\d+', pl) and pl in p.env and not isinstance(p.env[pl], (Opaque,)):
                return Ref(place=pl)
            return Ref(place=pl)
        if rv.startswith('copy ') or rv.startswith('move ') or rv.startswith('const '):
            return self.operand(p, rv)
        # aggregates
        if rv.startswith('(') and rv.endswith(')'):
            inner = rv[1:-1]
            if inner.strip() == '':
                return Unit()
            return Tup([self.operand(p, a) for a in split_top(inner)])
        if rv.startswith('[') and rv.endswith(']'):
            inner = rv[1:-1]
            rep = re.match(r'(.*); (.*)$', inner)
            if rep:
                return Adt('array-repeat', [self.operand(p, rep.group(1))])
            return Adt('array', [self.operand(p, a) for a in split_top(inner)])
        ms = re.match(r'([\w:<>, &\']+?) \{ (.*) \}$', rv, re.S)
        if ms:
            fields = []
            for f in split_top(ms.group(2)):
                fm = re.match(r'(\w+): (.*)$', f, re.S)
                if fm:
                    fields.append((fm.group(1), self.operand(p, fm.group(2))))
            a = Adt('struct:' + re.sub(r'::<.*', '', ms.group(1)).strip(), [v for _, v in fields])
            a.names = [n for n, _ in fields]
            return a
        if rv.endswith(')') and not rv.startswith('('):
            # constructor call: NAME(args) where NAME may carry generic arguments with parentheses
            depth, idx = 0, None
            for i in range(len(rv) - 1, -1, -1):
                c = rv[i]
                if c == ')':
                    depth += 1
                elif c == '(':
                    depth -= 1
                    if depth == 0:
                        idx = i
                        break
            if idx is not None and idx > 0:
                name = re.sub(r'::<.*>', '', rv[:idx]).strip()
                if re.fullmatch(r'[\w:]+', name):
                    args = [self.operand(p, a) for a in split_top(rv[idx + 1:-1])]
                    if name.endswith('Some'):
                        return Opt(z3.BoolVal(True), args[0])
                    if name.endswith('::Ok') or name == 'Ok':
                        return Res(z3.BoolVal(True), args[0], None)
                    if name.endswith('::Err') or name == 'Err':
                        return Res(z3.BoolVal(False), None, args[0])
                    return Adt(name, args)
        if re.search(r'::None$', rv) or rv == 'None':
            return Opt(z3.BoolVal(False), None)
        m4 = re.match(r'([\w:]+)$', rv)
        if m4:
            return Adt(rv, [])
        return Opaque('rv:' + rv[:40], dst_ty)

    def len_key(self, p, val, tok):
        if isinstance(val, Ref) and val.place:
            return 'len(%s)' % self.canon(p, val.place)
        tok = re.sub(r'^(copy|move) ', '', tok.strip())
        return 'len(%s)' % self.canon(p, tok)

    # ---- calls
    def call(self, p, callee, args, argtoks, dst):
        fn = callee
        A = args
        def bv(i):
            return A[i] if isinstance(A[i], BV) else None
        record = lambda kind, **kw: p.obs.append(dict(kind=kind, callee=fn, args=A, argtoks=argtoks, pc=list(p.pc), **kw))
        m = re.search(r'checked_(add|sub|mul)$', fn)
        if m and isinstance(A[0], IV) and isinstance(A[1], IV):
            t = self.binop({'add': 'AddWithOverflow', 'sub': 'SubWithOverflow', 'mul': 'MulWithOverflow'}[m.group(1)], A[0], A[1])
            return Opt(z3.Not(t.items[1].e), t.items[0])
        if m and bv(0) is not None and bv(1) is not None:
            t = self.binop({'add': 'AddWithOverflow', 'sub': 'SubWithOverflow', 'mul': 'MulWithOverflow'}[m.group(1)], A[0], A[1])
            return Opt(z3.Not(t.items[1].e), t.items[0])
        if re.search(r'saturating_(add|sub|mul)$', fn) and bv(0) is not None and bv(1) is not None:
            op = re.search(r'saturating_(add|sub|mul)$', fn).group(1)
            t = self.binop({'add': 'AddWithOverflow', 'sub': 'SubWithOverflow', 'mul': 'MulWithOverflow'}[op], A[0], A[1])
            w = A[0].e.size()
            sat = z3.BitVecVal(0, w) if op == 'sub' else z3.BitVecVal(-1, w)
            return BV(z3.If(t.items[1].e, sat, t.items[0].e), A[0].ty)
        if re.search(r'wrapping_(add|sub|mul)$', fn) and bv(0) is not None and bv(1) is not None:
            op = re.search(r'wrapping_(add|sub|mul)$', fn).group(1)
            return self.binop({'add': 'Add', 'sub': 'Sub', 'mul': 'Mul'}[op], A[0], A[1])
        if fn.endswith('is_power_of_two') and bv(0) is not None:
            x = A[0].e
            return B(z3.And(x != 0, (x & (x - 1)) == 0))
        if re.search(r'checked_shl$', fn) and bv(0) is not None and bv(1) is not None:
            w = A[0].e.size()
            sh = z3.ZeroExt(w - A[1].e.size(), A[1].e) if A[1].e.size() < w else A[1].e
            return Opt(z3.ULT(sh, w), BV(A[0].e << sh, A[0].ty))
        if re.search(r'checked_shr$', fn) and bv(0) is not None and bv(1) is not None:
            w = A[0].e.size()
            sh = z3.ZeroExt(w - A[1].e.size(), A[1].e) if A[1].e.size() < w else A[1].e
            return Opt(z3.ULT(sh, w), BV(z3.LShR(A[0].e, sh), A[0].ty))
        if fn.endswith('leading_zeros') and bv(0) is not None:
            x = A[0].e
            w = x.size()
            r = z3.BitVecVal(w, 32)
            for i in range(w):
                r = z3.If(z3.Extract(i, i, x) == 1, z3.BitVecVal(w - 1 - i, 32), r)
            return BV(r, 'u32')
        if re.search(r'(ilog2)$', fn) and bv(0) is not None:
            x = A[0].e
            w = x.size()
            r = z3.BitVecVal(0, 32)
            for i in range(w):
                r = z3.If(z3.Extract(i, i, x) == 1, z3.BitVecVal(i, 32), r)
            if 'checked_ilog2' in fn:
                return Opt(x != 0, BV(r, 'u32'))
            p.asserts.append((x != 0, 'ilog2 of zero', 'call'))
            return BV(r, 'u32')
        m = re.search(r'<(u8|u16|u32|u64|usize) as TryFrom<(u8|u16|u32|u64|usize)>>::try_from$', fn) or re.search(r'<impl TryFrom<(?P<src>\w+)> for (?P<dst>\w+)>::try_from$', fn)
        if m and bv(0) is not None:
            gd = m.groupdict()
            dstty = gd.get('dst') or m.group(1)
            w = WIDTH[dstty]
            x = A[0].e
            if w >= x.size():
                return Res(z3.BoolVal(True), BV(z3.ZeroExt(w - x.size(), x) if w > x.size() else x, dstty), None)
            fits = z3.ULE(x, z3.BitVecVal((1 << w) - 1, x.size()))
            return Res(fits, BV(z3.Extract(w - 1, 0, x), dstty), Opaque('TryFromIntError'))
        if 'ok_or' in fn and isinstance(A[0], Opt):
            return Res(A[0].some, A[0].val, A[1] if len(A) > 1 else Opaque('err'))
        if re.search(r'as Try>::branch$', fn):
            a = A[0]
            if isinstance(a, Res):
                return CF(a.ok, a.okv, Res(z3.BoolVal(False), None, a.errv))
            if isinstance(a, Opt):
                return CF(a.some, a.val, Opt(z3.BoolVal(False), None))
            c = z3.Bool('try!%d' % next(self.fresh))
            return CF(c, Opaque('try-ok'), Res(z3.BoolVal(False), None, Opaque('try-err')))
        if 'from_residual' in fn:
            a = A[0]
            if isinstance(a, Res):
                return Res(z3.BoolVal(False), None, a.errv)
            if isinstance(a, Opt):
                return Opt(z3.BoolVal(False), None)
            return Res(z3.BoolVal(False), None, Opaque('residual'))
        if re.search(r'Result::<.*>::map_err', fn) and isinstance(A[0], Res):
            return Res(A[0].ok, A[0].okv, Opaque('map_err', args=[A[0].errv, A[1] if len(A) > 1 else None]))
        if re.search(r'Result::<.*>::map::<', fn) and isinstance(A[0], Res):
            record('map')
            return Res(A[0].ok, Opaque('mapped', args=[A[0].okv]), A[0].errv)
        if re.search(r'Option::<.*>::(is_some|is_none)$', fn):
            a = A[0].val if isinstance(A[0], Ref) and A[0].val is not None else (self.read_place(p, A[0].place) if isinstance(A[0], Ref) else A[0])
            if isinstance(a, Opt):
                return B(a.some if fn.endswith('is_some') else z3.Not(a.some))
        if re.search(r'(Vec::<.*>|<impl \[.*\]>|core::slice::<impl \[.*\]>)::(len)$', fn) or fn.endswith('::len'):
            return self.mem_sym(p, self.len_key(p, A[0], argtoks[0]), 'usize')
        if fn.endswith('::is_empty'):
            return B(self.mem_sym(p, self.len_key(p, A[0], argtoks[0]), 'usize').e == 0)
        if fn.endswith('to_string') and isinstance(A[0], Str):
            return A[0]
        if fn.endswith('to_le_bytes') and bv(0) is not None:
            return Adt('le_bytes', [A[0]])
        def deref_arg(a, tok=None):
            if isinstance(a, Ref):
                if a.val is not None:
                    return a.val
                if a.place is not None:
                    return self.read_place(p, a.place)
            if tok is not None and not isinstance(a, (BV, B)):
                t = re.sub(r'^(copy|move) ', '', tok.strip())
                if re.fullmatch(r'_\d+', t) and self.fn.locals.get(t, '').startswith('&'):
                    return self.read_place(p, '(*%s)' % t)
            return a
        if re.search(r'Zeroizing::<.*>::new$', fn):
            return Adt('Zeroizing', [A[0]])
        if re.search(r'<Zeroizing<.*> as Deref(Mut)?>::deref(_mut)?$', fn):
            z = deref_arg(A[0])
            if isinstance(z, Adt) and z.name == 'Zeroizing':
                inner = z.fields[0]
                if isinstance(inner, (BV, B)):
                    return Ref(val=inner)
            return Ref(place=A[0].place if isinstance(A[0], Ref) else None, val=None if isinstance(A[0], Ref) and A[0].place else Opaque('zeroizing-inner'))
        if re.search(r"<&?('\w+ )?(u64|usize|u32) as Shr<&?(u32|usize|u64)>>::shr$", fn):
            A[0], A[1] = deref_arg(A[0], argtoks[0]), deref_arg(A[1], argtoks[1])
        if re.search(r"<&?('\w+ )?(u64|usize|u32) as Shr<&?(u32|usize|u64)>>::shr$", fn) and bv(0) is not None and bv(1) is not None:
            w = A[0].e.size()
            sh = z3.ZeroExt(w - A[1].e.size(), A[1].e) if A[1].e.size() < w else (A[1].e if A[1].e.size() == w else z3.Extract(w - 1, 0, A[1].e))
            if A[1].e.size() > w:
                p.asserts.append((z3.ULT(A[1].e, w), 'attempt to shift right with overflow (core::ops::Shr)', 'call', list(p.pc)))
                p.pc.append(z3.ULT(A[1].e, w))
            p.asserts.append((z3.ULT(sh, w), 'attempt to shift right with overflow (core::ops::Shr)', 'call', list(p.pc)))
            p.pc.append(z3.ULT(sh, w))
            return BV(z3.LShR(A[0].e, sh), A[0].ty)
        if re.search(r'<std::ops::Range<usize> as IntoIterator>::into_iter$', fn):
            return A[0]
        if re.search(r'<std::ops::Range<usize> as Iterator>::next$', fn):
            r = deref_arg(A[0])
            item = BV(z3.BitVec(self.fresh_name('range_item'), 64), 'usize')
            some = z3.Bool(self.fresh_name('range_some'))
            if isinstance(r, Adt) and r.name == 'struct:std::ops::Range' and all(isinstance(f, BV) for f in r.fields):
                # contract of Range::next: Some(i) only for start <= i < end (an arbitrary iteration of the loop)
                some = z3.And(some, z3.ULE(r.fields[0].e, item.e), z3.ULT(item.e, r.fields[1].e))
                record('range_next', some=some, item=item, range=r)
            else:
                record('range_next', some=some, item=item, range=None)
            return Opt(some, item)
        if fn.endswith('<Scalar as From<u64>>::from') or re.search(r'<Scalar as From<u\d+>>::from$', fn):
            res = Opaque('scalar_from', args=[A[0]])
            record('scalar_from', result=res)
            return res
        if re.search(r'as Iterator>::next$', fn):
            some = z3.Bool('next_some!%d' % next(self.fresh))
            item = Opaque('item', None)
            record('next', some=some, item=item)
            return Opt(some, item)
        if re.search(r'(PartialEq.*>::(ne|eq)|::ne|::eq)$', fn):
            b = z3.Bool('cmp!%d' % next(self.fresh))
            record('cmp', result=b)
            return B(b)
        if self.observe(fn):
            res = Opaque('ret:' + fn[-50:], self.fn.locals.get(dst))
            ty = self.fn.locals.get(dst, '')
            if ty in WIDTH or ty == 'bool':
                res = self.sym(self.fresh_name('ret(%s)' % fn[-30:]), ty)
            record('call', result=res)
            return res
        return Opaque('ret:' + fn[-50:], self.fn.locals.get(dst))

    # ---- driver
    def feasible(self, pc):
        s = z3.Solver()
        s.set('timeout', 20000)
        s.add(*pc)
        r = s.check()
        return r != z3.unsat

    def run(self, start='bb0', stops=(), init=None, max_steps=4000):
        """explore all paths from `start`; stop at blocks in `stops`, at `return`, and at back-edges (a block already on the path)"""
        first = Path()
        if init:
            first.env.update(init)
        done = []
        work = [(first, start)]
        steps = 0
        while work:
            p, bb = work.pop()
            while True:
                steps += 1
                if steps > max_steps * 50 or len(done) > self.max_paths:
                    raise Inconclusive('path explosion in %s' % self.fn.name)
                if bb in stops and p.trace:
                    p.end = ('stop', bb)
                    done.append(p)
                    break
                if bb in p.trace:
                    p.end = ('backedge', bb)
                    done.append(p)
                    break
                p.trace.append(bb)
                stmts, term = self.fn.blocks[bb]
                for st in stmts:
                    m = re.match(r'(.+?) = (.*);$', st, re.S)
                    if not m:
                        continue
                    dst, rv = m.group(1).strip(), m.group(2)
                    if dst.startswith('StorageLive') or dst.startswith('StorageDead'):
                        continue
                    val = self.rvalue(p, rv, self.fn.locals.get(dst))
                    self.write_place(p, dst, val)
                # terminator
                if term.startswith('return'):
                    p.end = ('return', bb)
                    done.append(p)
                    break
                if term.startswith('unreachable') or term.startswith('resume') or term.startswith('abort'):
                    p.end = ('unreachable', bb)
                    break
                m = re.match(r'goto -> (bb\d+);', term)
                if m:
                    bb = m.group(1)
                    continue
                m = re.match(r'drop\(.*\) -> \[return: (bb\d+)', term)
                if m:
                    bb = m.group(1)
                    continue
                m = re.match(r'assert\((!?)(.*?), "(.*?)".*\) -> \[success: (bb\d+)', term, re.S)
                if m:
                    c = self.operand(p, m.group(2))
                    cond = c.e if isinstance(c, B) else z3.Bool('assert!%d' % next(self.fresh))
                    if m.group(1) == '!':
                        cond = z3.Not(cond)
                    p.asserts.append((cond, m.group(3), bb, list(p.pc)))
                    p.pc.append(cond)
                    bb = m.group(4)
                    continue
                m = re.match(r'switchInt\((.*)\) -> \[(.*)\];', term, re.S)
                if m:
                    v = self.operand(p, m.group(1))
                    tgts = [t.strip().split(': ') for t in split_top(m.group(2))]
                    if isinstance(v, B):
                        val = z3.If(v.e, z3.BitVecVal(1, 64), z3.BitVecVal(0, 64))
                    elif isinstance(v, BV):
                        val = v.e
                    else:
                        val = z3.BitVec('switch!%d' % next(self.fresh), 64)
                    taken = []
                    branches = []
                    for k, t in tgts:
                        if k == 'otherwise':
                            cond = z3.And([val != z3.BitVecVal(int(x), val.size()) for x in taken]) if taken else z3.BoolVal(True)
                        else:
                            cond = val == z3.BitVecVal(int(k), val.size())
                            taken.append(k)
                        cond = z3.simplify(cond)
                        if z3.is_false(cond):
                            continue
                        if z3.is_true(cond) or self.feasible(p.pc + [cond]):
                            branches.append((cond, t))
                    if not branches:
                        break
                    for cond, t in branches[1:]:
                        q = p.fork()
                        if not z3.is_true(cond):
                            q.pc.append(cond)
                        work.append((q, t))
                    cond, t = branches[0]
                    if not z3.is_true(cond):
                        p.pc.append(cond)
                    bb = t
                    continue
                m = re.match(r'(.+?) = (.*?)\((.*)\) -> \[return: (bb\d+)', term, re.S)
                if m:
                    dst, callee, args, nxt = m.group(1).strip(), m.group(2).strip(), m.group(3), m.group(4)
                    toks = split_top(args)
                    A = [self.operand(p, a) for a in toks]
                    val = self.call(p, callee, A, toks, dst)
                    self.write_place(p, dst, val)
                    bb = nxt
                    continue
                m = re.match(r'(.+?) = (.*?)\((.*)\) -> (unwind|\[)', term, re.S)
                if m:   # diverging call
                    p.end = ('diverge', bb)
                    p.obs.append(dict(kind='diverge', callee=m.group(2), pc=list(p.pc)))
                    done.append(p)
                    break
                raise Inconclusive('unmodelled terminator in %s %s: %s' % (self.fn.name, bb, term[:120]))
        return done


# ------------------------------------------------------------------------------------------------ MIR dump
def dump_mir(repo='/repo', workdir=None):
    """MIR of the crate from a scratch copy of the working tree (outside /repo and /verif), removed afterwards"""
    tmp = tempfile.mkdtemp(prefix='bpp_mir_', dir=workdir or '/var/tmp')
    try:
        subprocess.run(['rsync', '-a', '--exclude', 'target', '--exclude', '.git', repo.rstrip('/') + '/', tmp + '/src_copy/'], check=True)
        env = dict(os.environ, CARGO_NET_OFFLINE='true', CARGO_TARGET_DIR=os.path.join(tmp, 'target'), RUSTFLAGS='')
        env.pop('RUSTUP_TOOLCHAIN', None)
        t0 = time.time()
        r = subprocess.run(['cargo', '+nightly', 'rustc', '--offline', '--lib', '--no-default-features', '--features', 'std', '--', '-Zunpretty=mir',
                            '-C', 'debug-assertions=off', '-C', 'overflow-checks=on'], cwd=os.path.join(tmp, 'src_copy'), env=env,
                           stdout=subprocess.PIPE, stderr=subprocess.PIPE, text=True)
        if r.returncode != 0 or len(r.stdout) < 1000:
            raise Inconclusive('MIR dump failed: %s' % r.stderr[-1500:])
        return r.stdout, time.time() - t0
    finally:
        shutil.rmtree(tmp, ignore_errors=True)


def check(assertions, timeout_ms=60000):
    """(answer, seconds, model) for a conjunction of z3 expressions"""
    s = z3.Solver()
    s.set('timeout', timeout_ms)
    s.add(*assertions)
    t0 = time.time()
    r = s.check()
    dt = time.time() - t0
    return str(r), dt, (s.model() if r == z3.sat else None), s
