"""C03 batch verification — Engine S (DESIGN.md §5 C03)"""
import itertools
from props.common import *
from props.c02 import ilog2
import props.c08 as c08

FUNCS = ['RangeProof::verify_batch', 'RangeProof::verify', 'RangeProof::verify_statements_and_generators_consistency', 'RangeProof::prove_with_rng',
         'RangeProof::from_bytes', 'ExtendedMask::assign', 'utils::generic::{nonce,compute_generator_padding}']


def honest_member(i, kind):
    m, cap, seeded = kind
    # every member is proved and verified in ITS OWN caller context (transcript state): a batch verifier that reuses one member's context for another is wrong
    return {'m': m, 'cap': cap, 'seeded': seeded, 'promises': [('sym' if (i + j) % 3 == 0 else None) for j in range(m)], 'values': 'sym', 'label': 'member %d' % i}


def cases(tier):
    out = []
    kinds = [(1, 1, True), (2, 2, False), (1, 2, False), (4, 4, False), (1, 1, False)]
    # (a) honest batches in every order (k <= 3), all three modes
    for k in (1, 2, 3):
        base = kinds[:k]
        for perm in itertools.permutations(range(k)):
            cfg = {'scenario': 'batch', 'n': 8, 'x': 2, 'members': [honest_member(i, base[i]) for i in range(k)], 'verify_order': list(perm),
                   'actions': ['VerifyOnly', 'RecoverAndVerify', 'RecoverOnly']}
            out.append({'cfg': cfg, 'kind': 'honest', 'name': 'honest k=%d order %s' % (k, list(perm))})
    wide = [(1, 8, True), (8, 8, False), (2, 8, False)]     # extension degree 6, an aggregate of 8, spare capacity
    for (n, x, ks) in ([(2, 1, kinds), (2, 6, wide)] if tier == 'quick' else [(2, 1, kinds), (2, 6, wide), (16, 3, kinds), (64, 1, kinds[:3])]):
        members = [honest_member(i, ks[i]) for i in range(len(ks))]
        if n * sum(k_[0] for k_ in ks) > 96:
            # beyond 96 witness bits in one batch the h-coefficient query (the only one that needs b*b = b) no longer finishes: the values of
            # these large batches are concrete (their bits are constants), everything else stays symbolic
            members = [dict(mm, values=None, promises=[None] * mm['m']) for mm in members]
        cfg = {'scenario': 'batch', 'n': n, 'x': x, 'members': members, 'verify_order': list(reversed(range(len(ks)))),
               'actions': ['VerifyOnly', 'RecoverAndVerify', 'RecoverOnly']}
        out.append({'cfg': cfg, 'kind': 'honest', 'name': 'honest k=%d n%d x%d reversed' % (len(ks), n, x)})
    # honest batches on SHARED objects and with EQUAL members: one parameters object for every member (aggregates of different sizes, every order);
    # the same member listed two and three times; members that differ only in their caller context
    for perm in itertools.permutations([(4, 4, False), (1, 4, True), (2, 4, False)]):
        cfg = {'scenario': 'batch', 'n': 4, 'x': 1, 'members': [dict(honest_member(i, kd), share_params=True) for i, kd in enumerate(perm)],
               'actions': ['VerifyOnly', 'RecoverAndVerify', 'RecoverOnly']}
        out.append({'cfg': cfg, 'kind': 'honest', 'name': 'honest k=3 on one parameters object, aggregates %s' % [kd[0] for kd in perm]})
    for reps in (2, 3):
        mem = {'m': 1, 'cap': 1, 'seeded': True, 'values': ['9'], 'sym_bits': False, 'name_idx': 0, 'label': 'member 0'}
        members = [dict(mem)] + [dict(mem, rng_replay_of=0) for _ in range(reps - 1)]
        cfg = {'scenario': 'batch', 'n': 8, 'x': 2, 'members': members, 'actions': ['VerifyOnly', 'RecoverAndVerify', 'RecoverOnly']}
        out.append({'cfg': cfg, 'kind': 'honest', 'name': 'honest: the same triple listed %d times' % reps})
        other = {'m': 2, 'cap': 2, 'seeded': False, 'values': ['3', '4'], 'sym_bits': False, 'name_idx': 1, 'label': 'member 1'}
        cfg = {'scenario': 'batch', 'n': 8, 'x': 2, 'members': [dict(mem), dict(other)] + [dict(mem, rng_replay_of=0) for _ in range(reps - 1)], 'actions': ['VerifyOnly', 'RecoverAndVerify', 'RecoverOnly']}
        out.append({'cfg': cfg, 'kind': 'honest', 'name': 'honest: the same triple listed %d times around another member' % reps})
    # different members carrying ONE seed (a wallet's outputs) among others: result i is member i's own mask
    for perm in itertools.permutations(range(3)):
        mems = [{'m': 1, 'cap': 2, 'seeded': True, 'seed_name': 'wallet', 'values': 'sym', 'label': 'member 0'},
                {'m': 1, 'cap': 2, 'seeded': True, 'seed_name': 'wallet', 'values': 'sym', 'label': 'member 1', 'promises': ['sym']},
                {'m': 2, 'cap': 2, 'seeded': False, 'values': 'sym', 'label': 'member 2'}]
        cfg = {'scenario': 'batch', 'n': 8, 'x': 2, 'members': mems, 'verify_order': list(perm), 'actions': ['VerifyOnly', 'RecoverAndVerify', 'RecoverOnly']}
        out.append({'cfg': cfg, 'kind': 'honest', 'name': 'honest k=3, members 0 and 1 share one seed, order %s' % list(perm)})
    # (c) one invalid member at each position
    for k in (2, 3):
        for pos in range(k):
            members = [honest_member(i, kinds[i]) for i in range(k)]
            members[pos] = dict(members[pos], tamper={'op': 'scalar_add_delta', 'elem': 2 + 3})   # r1 (x = 2)
            cfg = {'scenario': 'batch', 'n': 8, 'x': 2, 'members': members, 'actions': ['VerifyOnly', 'RecoverAndVerify']}
            out.append({'cfg': cfg, 'kind': 'one-invalid', 'pos': pos, 'name': 'k=%d invalid member at %d' % (k, pos)})
    # (b) every member is examined, also beyond any chunk limit: adversarial members with their own free points
    sizes = [2, 5, 257] if tier == 'quick' else [2, 5, 255, 256, 257, 300, 511, 512, 513]
    for k in sizes:
        cfg = {'scenario': 'adversarial', 'n': 2, 'x': 1, 'members': [{'m': 1, 'cap': 1, 'rounds': 1} for _ in range(k)], 'actions': ['VerifyOnly'],
               'forced': [['final_eq', 0, True]]}
        out.append({'cfg': cfg, 'kind': 'examined', 'name': 'every member examined, k=%d' % k})
    # honest big batch: exactly k results
    for k in ([257] if tier == 'quick' else [256, 257, 513]):
        cfg = {'scenario': 'batch', 'n': 2, 'x': 1, 'members': [dict({'m': 1, 'cap': 1, 'seeded': (i % 64 == 0 or i == k - 1)}, **({'label': 'member %d' % i} if i % 50 == 1 or i >= 255 else {})) for i in range(k)],
               'actions': ['RecoverAndVerify', 'RecoverOnly']}
        out.append({'cfg': cfg, 'kind': 'count', 'name': 'honest batch of %d returns %d results' % (k, k)})
    # (c') iff: the batch equation is sum_i w_i * (relation of member i) with distinct non-zero weights, so it vanishes identically iff every
    # member's relation does; equal-and-opposite defects in two members do not cancel (shared with C08)
    for c in c08.cases(tier):
        if c['kind'] == 'cancel' or c['name'].startswith('k=3') or c['name'].startswith('k=2 n8'):
            out.append(dict(c, kind='c08:' + c['kind']))
    # large batches with MIXED aggregation factors: the largest member in a later chunk / in the first chunk
    for (k, big) in ([(257, 256), (260, 3)] if tier == 'quick' else [(257, 256), (260, 3), (260, 0), (513, 300), (513, 512)]):
        members = [{'m': (2 if i == big else 1), 'cap': (2 if i == big else 1), 'seeded': (i % 97 == 0 and i != big)} for i in range(k)]
        out.append({'cfg': {'scenario': 'batch', 'n': 2, 'x': 1, 'members': members, 'actions': ['RecoverAndVerify']}, 'kind': 'count', 'name': 'honest batch of %d with a larger member at %d' % (k, big)})
    # a member whose PROOF carries another extension degree than the statements (surplus d1 element), at every position
    for k in (2, 3):
        for pos in range(k):
            members = [{'m': 1, 'cap': 1} for _ in range(k)]
            members[pos] = dict(members[pos], tamper={'op': 'tag', 'tag': 2})
            out.append({'cfg': {'scenario': 'batch', 'n': 8, 'x': 1, 'members': members, 'actions': ['VerifyOnly', 'RecoverAndVerify', 'RecoverOnly']}, 'kind': 'refuse',
                        'name': 'proof of member %d of %d has extension tag 2 (statements degree 1)' % (pos, k)})
    # (d) refused shapes
    two = [honest_member(0, kinds[1]), honest_member(1, kinds[2])]
    for key in ('drop_last_statement', 'drop_last_proof', 'drop_last_transcript'):
        for cnt in (1, 2):
            cfg = {'scenario': 'batch', 'n': 8, 'x': 1, 'members': two, key: cnt, 'actions': ['VerifyOnly', 'RecoverOnly']}
            out.append({'cfg': cfg, 'kind': 'refuse', 'name': '%s=%d' % (key, cnt)})
    for k in ((3,) if tier == 'quick' else (3, 4)):
        for pos in range(k):
            for ts in ({'op': 'bit_length', 'n': 16}, {'op': 'extension', 'x': 2}, {'op': 'h_base'}, {'op': 'g_base', 'k': 0}):
                members = [dict(honest_member(i, kinds[1 + (i % 2)]), values=None) for i in range(k)]
                members[pos] = dict(members[pos], tamper_statement=ts)
                cfg = {'scenario': 'batch', 'n': 8, 'x': 1, 'members': members, 'actions': ['VerifyOnly', 'RecoverOnly']}
                out.append({'cfg': cfg, 'kind': 'refuse', 'name': 'member %d of %d disagrees: %s' % (pos, k, ts['op'])})
    return out


def mask_expectation(run, cfg, action):
    order = cfg.get('verify_order') or list(range(len(run.out['members'])))
    exp = []
    for i in order:
        mem = run.out['members'][i]
        if action == 'VerifyOnly' or not mem['seeded'] or mem['m'] != 1:
            exp.append(None)
        else:
            exp.append(mem['blindings'][0])
    return exp


def analyse(ctx, case, run, S):
    cfg = case['cfg']
    kind = case['kind']
    if kind.startswith('c08:'):
        return c08.analyse(ctx, dict(case, kind=kind[4:]), run, S)
    if kind in ('honest', 'count'):
        if not ctx.expect(all(p['result'] == 'ok' for p in run.out['prove']) and run.out['verify'], 'C03:prove', 'honest prover failed (%s)' % case['name'], cfg, 'honest_rejected'):
            return
        k = len(cfg.get('verify_order') or cfg['members'])
        for v in run.out['verify']:
            if not ctx.expect(v['result'] == 'ok', 'C03:honest-refused', '%s: all-valid batch refused (%s): %s' % (case['name'], v['action'], v['result']), cfg, 'honest_rejected'):
                continue
            ctx.expect(v['n_results'] == k, 'C03:result-count', '%s: %d results for a batch of %d (%s)' % (case['name'], v['n_results'], k, v['action']), cfg, 'results_len_wrong')
            exp = mask_expectation(run, cfg, v['action'])
            masks = v['masks']
            for i in range(min(len(exp), len(masks))):
                if exp[i] is None or masks[i] is None:
                    ctx.expect(exp[i] is None and masks[i] is None, 'C03:mask-position', '%s: result %d is %s but member %d %s a mask (%s)' % (
                        case['name'], i, 'a mask' if masks[i] else 'None', i, 'has' if exp[i] else 'has no', v['action']), cfg, 'mask_wrong')
                    continue
                for kk, (got, want) in enumerate(zip(masks[i], exp[i])):
                    num = (run.norm.frac(got) - run.norm.frac(want)).num
                    S.sync_terms(run.T)
                    if run.T.cval(num) == 0:
                        ctx.D.record('syntactically-identical', 'mask', 'unsat', 0.0, 'unsat')
                        continue
                    ctx.solve(S, 'valid-eq', '%s: result[%d][%d] == blinding of member at position %d (%s)' % (case['name'], i, kk, i, v['action']),
                              run.side_conditions() + ['(not (= t%d 0.0))' % num], cfg=cfg, key='C03:mask-position', pred='mask_wrong')
            if v['action'] != 'RecoverOnly' and kind == 'honest':
                residual_obligations(ctx, run, S, case, v, '%s %s' % (case['name'], v['action']), 'C03')
        return
    if kind == 'one-invalid':
        if not ctx.expect(run.out['verify'] is not None, 'C03:prove', 'prover failed', cfg, 'honest_rejected'):
            return
        for v in run.out['verify']:
            ctx.expect(isinstance(v['result'], dict), 'C03:invalid-accepted', '%s: batch ACCEPTED (%s)' % (case['name'], v['action']), cfg, 'tampered_accepted')
            ev = run.residual_point(v['events'])
            if ev is None:
                continue
            # the residual must be a non-zero polynomial: some coefficient is satisfiable non-zero
            form = run.form(ev['detail']['a'])
            nz = None
            for b, nid in form.items():
                if not run.core['shadows'][nid] == '0':
                    nz = (b, nid)
                    break
            if ctx.expect(nz is not None, 'C03:invalid-residual-zero', '%s: residual vanishes with an invalid member' % case['name'], cfg, 'tampered_accepted'):
                num = run.norm.nm(nz[1])[0]
                ctx.solve_nonzero(S, run, '%s residual[%s]' % (case['name'], run.basis_name(nz[0])), num, run.side_conditions(),
                                  cfg=cfg, key='C03:invalid-residual-zero', pred='tampered_accepted')
        return
    if kind == 'examined':
        infos = run.out['members']
        k = len(infos)
        bi = basis_index(run)
        v = run.out['verify'][0]
        evs = run.residual_points(v['events'])
        if not ctx.expect(len(evs) > 0, 'C03:no-final-comparison', '%s: no final comparison' % case['name'], cfg, None):
            return
        form = {}
        for ev in evs:
            form.update(run.form(ev['detail']['a']))   # the members' own points are distinct basis elements
        pcs = run.path_condition()
        blobs = run.core['blobs']
        missing = []
        for i, info in enumerate(infos):
            a_elem = info['elems'][info['d1']]          # element A of member i
            b = bi.get('free%d' % (1000000 + blobs[a_elem]['k']))
            if b is None or b not in form:
                missing.append(i)
                continue
            num = run.norm.nm(form[b])[0]
            ctx.solve(S, 'never-zero', '%s: coefficient of member %d\'s own A' % (case['name'], i), pcs + ['(= t%d 0.0)' % num], cfg=cfg, key='C03:member-ignored', pred=None)
        if missing:
            # replay: an honest batch of the same size with an invalid member at the first ignored index must be refused
            i0 = missing[0]
            rcfg = {'scenario': 'batch', 'n': 2, 'x': 1, 'members': [dict({'m': 1, 'cap': 1}, **({'tamper': {'op': 'scalar_add_delta', 'elem': 4}} if i == i0 else {})) for i in range(k)],
                    'actions': ['VerifyOnly']}
            ctx.expect(False, 'C03:member-ignored:index>=%d' % (256 if i0 >= 256 else i0),
                       '%s: members %s.. (%d of %d) never enter the verification equation' % (case['name'], missing[:3], len(missing), k), cfg, 'tampered_accepted',
                       {'replay_cfg': rcfg, 'replay_seeds': 1, 'ignored': missing[:10]})
        return
    if kind == 'refuse':
        if not ctx.expect(run.out['verify'] is not None, 'C03:prove', 'prover failed (%s)' % case['name'], cfg, 'honest_rejected'):
            return
        for v in run.out['verify']:
            ctx.expect(isinstance(v['result'], dict), 'C03:shape-not-refused:' + case['name'].split('=')[0].split(':')[-1].strip(),
                       '%s: returned %s instead of an error (%s)' % (case['name'], v['result'], v['action']), cfg, 'verify_not_refused')


def run(ctx):
    parallel_cases(ctx, cases(ctx.tier), analyse, workers=10)
    import mirx_props
    mirx_props.c03_chunk_loop(ctx)
    bounds = {'batch sizes': 'k in {1,2,3,5,257} quick; {255,256,257,300,511,512,513} thorough (k is enumerated: chunking is integer control flow)',
              'within': 'contents of every member symbolic; all orders for k<=3; positions of the invalid / disagreeing member enumerated'}
    outside = ['k > 513', 'symbolic witness bits in batches with more than 96 bits in total (those batches run with concrete values)']
    return finish(ctx, [A_ALL[k] for k in ('A1', 'A2', 'A3', 'A4', 'A5', 'HOOK')], FUNCS, bounds, outside,
                  'honest batches: residual coefficients valid-zero, result i == mask of member i (valid-eq), exactly k results; adversarial batches: the coefficient of every member\'s own point A_i is never-zero '
                  '(a member the verifier does not look at has coefficient 0); one-invalid: residual not-identically-zero; refused shapes: structural')
