"""C13 nonce freshness — Engine S, random-oracle model (DESIGN.md §5 C13)"""
from props.common import *
from props.c02 import ilog2
from inject import Injectivity

FUNCS = ['RangeProof::prove_with_rng', 'ScalarProtocol::{random_not_zero,from_hasher_blake2b}', 'utils::generic::nonce', 'RangeProofTranscript::{new,build_rng,as_mut_rng,challenges_y_z,challenge_round_e,challenge_final_e}']


def cases(tier):
    out = []
    cfgs = [(8, 1, 1, 1), (2, 2, 2, 2), (4, 4, 4, 6), (64, 1, 2, 3)] if tier == 'quick' else \
        [(8, 1, 1, 1), (2, 2, 2, 2), (4, 4, 4, 6), (64, 1, 2, 3), (1, 1, 1, 2), (16, 2, 2, 4), (32, 1, 1, 5), (8, 8, 8, 2), (64, 1, 1, 6)]
    for (n, m, cap, x) in cfgs:
        for seeded in ((False, True) if m == 1 else (False,)):
            # two runs of the same witness with different external randomness
            mem = {'m': m, 'cap': cap, 'seeded': seeded, 'name_idx': 0, 'promises': ['sym' if j == 0 else None for j in range(m)]}
            cfg = {'scenario': 'batch', 'n': n, 'x': x, 'members': [dict(mem, rng='sym'), dict(mem, rng='sym')], 'prove_only': True}
            out.append({'cfg': cfg, 'name': 'n%d m%d c%d x%d %s' % (n, m, cap, x, 'seeded' if seeded else 'unseeded'), 'seeded': seeded})
    # "whatever random-number generator the prover is handed": also one that is stuck. Within a proof the nonces must still be pairwise different
    # (the transcript RNG is re-keyed after every prover message and draws successive outputs in between)
    # (bit lengths with an even and with an odd number of folding rounds: the transcript RNG is rebuilt once per round)
    for (n, m, cap, x) in cfgs[:3] + [(64, 1, 2, 3), (4, 1, 1, 2), (16, 1, 1, 1)]:
        for seeded in ((False, True) if m == 1 else (False,)):
            mem = {'m': m, 'cap': cap, 'seeded': seeded, 'name_idx': 0}
            cfg = {'scenario': 'batch', 'n': n, 'x': x, 'members': [dict(mem, rng='zero'), dict(mem, rng='const')], 'prove_only': True}
            out.append({'cfg': cfg, 'name': 'n%d m%d c%d x%d %s, stuck external RNG' % (n, m, cap, x, 'seeded' if seeded else 'unseeded'), 'seeded': seeded, 'stuck': True})
    return out


def var_of_node(run, nid):
    op = run.core['nodes'][nid]
    return run.core['vars'][op[1]] if op[0] == 'v' else None


def proof_points(run, pr):
    """blob ids of the proof layout -> dict of point ids / scalar nodes"""
    pieces = pr['proof']['pieces']
    blobs = run.core['blobs']
    tag = int(pieces[0]['lit'], 16)
    els = [p for p in pieces[1:]]
    def node(p):
        if 'blob' in p:
            b = blobs[p['blob']]
            return ('scalar', b['node']) if b['t'] == 'scalar' else ('point', b['point'])
        return ('lit', p['lit'])
    ev = [node(p) for p in els]
    x = tag
    rounds = (len(ev) - x - 5) // 2
    return {'x': x, 'rounds': rounds, 'd1': [ev[k][1] for k in range(x)], 'A': ev[x][1], 'A1': ev[x + 1][1], 'B': ev[x + 2][1], 'r1': ev[x + 3][1], 's1': ev[x + 4][1],
            'L': [ev[x + 5 + 2 * j][1] for j in range(rounds)], 'R': [ev[x + 6 + 2 * j][1] for j in range(rounds)]}


def coordinates(run, S, ctx, cfg, pr, n, m, x, what):
    """the blinding coordinates of a proof: name -> node id (read off the linear forms of the proof points)"""
    bi = basis_index(run)
    P = proof_points(run, pr)
    g = [bi['g<RISTRETTO_MASKING_BASEPOINT_%d>' % (k + 1)] for k in range(x)]
    coords = {}
    fA, fA1, fB = run.form(P['A']), run.form(P['A1']), run.form(P['B'])
    for k in range(x):
        coords['alpha_%d' % k] = fA.get(g[k], 0)
        coords['d_%d' % k] = fA1.get(g[k], 0)
        coords['eta_%d' % k] = fB.get(g[k], 0)
        for j in range(P['rounds']):
            coords['dL_%d_%d' % (j, k)] = run.form(P['L'][j]).get(g[k], 0)
            coords['dR_%d_%d' % (j, k)] = run.form(P['R'][j]).get(g[k], 0)
    return P, coords, fA1, bi


def analyse(ctx, case, run, S):
    cfg = case['cfg']
    n, x = cfg['n'], cfg['x']
    m = cfg['members'][0]['m']
    seeded = case['seeded']
    if not ctx.expect(all(p['result'] == 'ok' for p in run.out['prove']), 'C13:prove', 'honest prover failed (%s)' % case['name'], cfg, 'honest_rejected'):
        return
    lv = LogView(run.core)
    inj = Injectivity(run)
    pcs = run.path_condition()
    per_run_vars = []
    for ri, pr in enumerate(run.out['prove']):
        P, coords, fA1, bi = coordinates(run, S, ctx, cfg, pr, n, m, x, case['name'])
        # r and s: A1 = r*G' + s*H' + ...: G' has coefficient prod e_j^-1 on G_0, H' has prod e_j on H_0
        ch = lv.challenges(pr['log_after'])
        es = [run.norm.fvar('chal_%d' % lid) for (lab, lid) in ch[2:-1]]
        G0, H0 = bi['G[0][0]'], bi['H[0][0]']
        prod = run.norm.fconst(1)
        for e in es:
            prod = prod * e
        r_frac = run.norm.frac(fA1.get(G0, 0)) * prod
        s_frac = run.norm.frac(fA1.get(H0, 0)) * prod.inv()
        names = {}
        for cname, nid in sorted(coords.items()):
            v = var_of_node(run, nid)
            want_kind = 'nonce' if seeded else 'rnd'
            ok = v is not None and v['kind'] == want_kind
            ctx.expect(ok, 'C13:coordinate-not-a-nonce:' + cname.split('_')[0], '%s run %d: blinding coordinate %s is not a single %s output (%s)' % (
                case['name'], ri, cname, 'seed-derived nonce' if seeded else 'transcript-RNG', (v or {}).get('name', 'a compound term / zero')), cfg, 'nonces_repeat', {'x': x})
            if v is not None:
                names[cname] = v['name']
            if v is not None and v['kind'] == 'rnd':
                # never-zero under the recorded rejection loop (seed-derived nonces are hash outputs: zero with probability 1/l, A1)
                ctx.solve(S, 'never-zero', '%s run %d: %s != 0' % (case['name'], ri, cname), pcs + ['(= t%d 0.0)' % run.norm.nm(nid)[0]], cfg=cfg, key='C13:nonce-zero', pred=None)
        # r, s must each be exactly one transcript-RNG output (also with a seed)
        for nm_, fr in (('r', r_frac), ('s', s_frac)):
            cands = [v for v in run.core['vars'] if v['kind'] == 'rnd']
            hit = None
            for v in cands:
                if run.T.cval((fr - run.norm.fvar(v['name'])).num) == 0:
                    hit = v
                    break
            if hit is None:
                # not syntactically: ask the solver for each candidate that has the right shadow
                for v in cands:
                    num = (fr - run.norm.fvar(v['name'])).num
                    ans, dt, _ = S.check(['(not (= t%d 0.0))' % num])
                    if ans == 'unsat':
                        hit = v
                        break
            ctx.expect(hit is not None, 'C13:final-mask-not-rng:' + nm_, '%s run %d: the final masking scalar %s is not a transcript-RNG output' % (case['name'], ri, nm_), cfg, 'nonce_hedge_broken', {'x': x})
            if hit is not None:
                names[nm_] = hit['name']
                ctx.D.record('valid-eq', '%s: %s is the RNG output %s' % (case['name'], nm_, hit['name']), 'unsat', 0.0, 'unsat')
        # pairwise distinct within the proof
        inv = {}
        for cname, vn in names.items():
            inv.setdefault(vn, []).append(cname)
        dups = {k: v for k, v in inv.items() if len(v) > 1}
        ctx.expect(not dups, 'C13:nonce-reused-within-proof', '%s run %d: one nonce hides several messages/components: %s' % (case['name'], ri, list(dups.values())[:3]), cfg, 'nonces_aliased', {'x': x, 'alias': [sorted(v) for v in dups.values()]})
        per_run_vars.append(names)
        # every RNG-drawn nonce comes from a state that absorbed external randomness (a fresh symbol of the external stream) ...
        for cname, vn in names.items():
            info = [v for v in run.core['vars'] if v['name'] == vn][0]
            if info['kind'] != 'rnd':
                continue
            b = run.core['blobs'][info['meta']['blob']]
            st = run.core['rng_states'][b['state']]
            has_ext = any('blob' in p and run.core['blobs'][p['blob']]['t'] == 'ext' for p in st['ext'])
            ctx.expect(has_ext or case.get('stuck'), 'C13:nonce-without-external-randomness', '%s run %d: %s is drawn from an RNG state that did not absorb the external RNG' % (case['name'], ri, cname), cfg,
                       'nonce_hedge_broken', {'which': cname})
        # seed-derived ones: exactly the documented function of the seed
        if seeded:
            seed_node = run.out['members'][ri]['seed_node']
            for cname, vn in names.items():
                info = [v for v in run.core['vars'] if v['name'] == vn][0]
                if info['kind'] != 'nonce':
                    continue
                rec = run.core['blake'][run.core['blobs'][info['meta']['blob']]['rec']]
                parts = cname.split('_')
                label = parts[0]
                j = int(parts[1]) if label in ('dL', 'dR') else None
                k = int(parts[-1])
                key = [('lit', '00'), ('scalar', seed_node)]
                tail = b''
                if j is not None:
                    tail += b'j' + j.to_bytes(4, 'little')
                tail += b'k' + k.to_bytes(4, 'little')
                key.append(('lit', tail.hex()))
                got = [lv.piece_desc(p) for p in rec['key']]
                ok = got == key and rec['persona'] == label and rec['salt'] == '' and rec['key_len'] == 33 + len(tail)
                ctx.expect(ok, 'C13:seed-nonce-derivation', '%s: %s is not Blake2b(key = 00|seed|[j,LE32]|k,LE32, persona = "%s")' % (case['name'], cname, label), cfg, 'seed_nonce_vector', {'x': x})
    # different external randomness => no shared RNG nonce between the two runs
    if len(per_run_vars) == 2:
        a = {v for c, v in per_run_vars[0].items() if v.startswith('rnd_')}
        b = {v for c, v in per_run_vars[1].items() if v.startswith('rnd_')}
        ctx.expect(not (a & b), 'C13:nonce-shared-across-runs', '%s: two runs with different external randomness share nonces %s' % (case['name'], sorted(a & b)[:3]), cfg, 'nonce_shared_across_runs')
        if seeded:
            sa = {c: v for c, v in per_run_vars[0].items() if v.startswith('nonce_')}
            sb = {c: v for c, v in per_run_vars[1].items() if v.startswith('nonce_')}
            ctx.expect(sa == sb and len(sa) > 0, 'C13:seed-nonce-not-deterministic', '%s: seed-derived nonces differ between two runs with the same seed' % case['name'], cfg, None)
    if len(ctx.case_samples) < 2:
        ctx.case_samples.append({'scenario': cfg, 'nonces_of_run_0': per_run_vars[0] if per_run_vars else None})


def run(ctx):
    parallel_cases(ctx, cases(ctx.tier), analyse)
    bounds = {'configurations': 'sub-lattice, x up to 6, with and without seed, two prover runs with independent external streams'}
    return finish(ctx, [A_ALL[k] for k in ('A1', 'A2', 'A4', 'A5')], FUNCS, bounds, ['statistical quality of the RNGs', 'collisions of oracle outputs (A1)'],
                  'the blinding coordinates of A, L_j, R_j, A1, B are read off the linear forms of the proof points; each must be ONE oracle output (transcript RNG, or the documented seed nonce), '
                  'pairwise distinct symbols, non-zero on the path (never-zero), drawn from states that absorbed the external stream; r and s are identified by valid-eq against A1\'s G_0/H_0 coefficients')
