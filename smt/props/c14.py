"""C14 hedged prover randomness — Engine S, random-oracle model (DESIGN.md §5 C14)"""
from props.common import *
from props.c13 import coordinates, var_of_node, proof_points
from inject import Injectivity

FUNCS = ['RangeProofTranscript::{new,build_rng,challenges_y_z,challenge_round_e,challenge_final_e,as_mut_rng}', 'RangeProof::prove_with_rng', 'ScalarProtocol::random_not_zero']

FAULTS = ['zero', 'const', 'period2', 'replay']


def member(m, cap, x, fault, **kw):
    mc = dict({'m': m, 'cap': cap, 'name_idx': 0, 'rng': 'sym' if fault == 'replay' else fault}, **kw)
    return mc


def cases(tier):
    out = []
    cfgs = [(8, 1, 1, 2), (4, 2, 2, 3), (2, 4, 4, 2), (2, 8, 8, 6), (64, 1, 1, 1)] if tier == 'quick' else [(8, 1, 1, 2), (4, 2, 2, 3), (2, 4, 4, 2), (64, 1, 1, 1), (16, 2, 4, 6), (8, 8, 8, 2)]
    for (n, m, cap, x) in cfgs:
        for fi, fault in enumerate(FAULTS):
            if tier == 'quick' and (fi + n) % 2 and fault != 'const':
                continue
            def pair(name, a, b, expect_shared):
                if fault == 'replay':
                    b = dict(b, rng_replay_of=0)
                cfg = {'scenario': 'batch', 'n': n, 'x': x, 'members': [a, b], 'prove_only': True}
                out.append({'cfg': cfg, 'name': '%s, external RNG %s (n%d m%d x%d)' % (name, fault, n, m, x), 'expect_shared': expect_shared, 'pairname': name})
            base = member(m, cap, x, fault, promises=['3' if n >= 2 else None] + [None] * (m - 1))
            pair('identical runs', base, dict(base), True)
            # two different openings of ONE commitment need two blinding generators (g_1 = 2 g_0): only for extension degree >= 2
            for sj in (range(m) if x >= 2 else ()):
                pair('witness differs (same commitment), opening %d' % sj, dict(base, degenerate_g=True), dict(base, degenerate_g=True, witness_shift=sj), False)
            pair('transcript context differs', base, dict(base, label='alt'), False)
            if m >= 2 and n >= 2:
                pa = dict(base, promises=['1'] + [None] * (m - 1))
                pb = dict(base, promises=[None, '1'] + [None] * (m - 2))
                pair('statement differs (promise position)', pa, pb, False)
            if x >= 2:
                zb = dict(base, zero_blinding_components=list(range(1, x)))
                pair('statement differs (blinding generator 1, same commitment)', zb, dict(zb, degenerate_g=True), False)
            pair('statement differs (promise value)', base, dict(base, promises=['2' if n >= 2 else '1'] + [None] * (m - 1)), False)
            # boundary promise values: an absent promise and the largest promise that fits are different public inputs
            if n >= 2:
                top = str((1 << n) - 1)
                tb = dict(base, values=[top] * m, sym_bits=False)
                pair('statement differs (promise absent vs 2^n - 1)', dict(tb, promises=[None] * m), dict(tb, promises=[top] + [None] * (m - 1)), False)
                pair('statement differs (promise 1 vs 1 + 2^(n-1))', dict(tb, promises=['1'] + [None] * (m - 1)), dict(tb, promises=[str(1 + (1 << (n - 1)))] + [None] * (m - 1)), False)
                pair('statement differs (promise 2^n - 2 vs 2^n - 1)', dict(tb, promises=[str((1 << n) - 2)] + [None] * (m - 1)), dict(tb, promises=[top] + [None] * (m - 1)), False)
            # the value generator reassigned through its public field without refreshing the cached encoding; value 0, so the commitments agree
            zv = dict(base, values=['0'] * m, promises=[None] * m, sym_bits=False)
            pair('statement differs (value generator reassigned, cached encoding stale; value 0)', zv, dict(zv, h_point_only=True), False)
            # a witness object whose openings were written through the public field after construction is a witness like any other
            pair('identical runs, second witness updated in place', base, dict(base, witness_in_place=True), True)
            for sj in (range(m) if x >= 2 else ()):
                pair('witness differs (same commitment), opening %d, both witnesses updated in place' % sj, dict(base, degenerate_g=True, witness_in_place=True),
                     dict(base, degenerate_g=True, witness_shift=sj, witness_in_place=True), False)
            if m == 1 and x >= 2:
                sa = dict(base, seeded=True)
                pair('seeded: witness differs (same commitment)', dict(sa, degenerate_g=True), dict(sa, degenerate_g=True, witness_shift=0), False)
    return out


def merge_lits(ps):
    out = []
    for p in ps:
        if out and p[0] == 'lit' and out[-1][0] == 'lit':
            out[-1] = ('lit', out[-1][1] + p[1])
        else:
            out.append(p)
    return out


def rnd_info(run, name):
    v = [q for q in run.core['vars'] if q['name'] == name][0]
    b = run.core['blobs'][v['meta']['blob']]
    return b['state'], run.core['rng_states'][b['state']]


def analyse(ctx, case, run, S):
    cfg = case['cfg']
    n, x = cfg['n'], cfg['x']
    m = cfg['members'][0]['m']
    if not ctx.expect(all(p['result'] == 'ok' for p in run.out['prove']), 'C14:prove', 'honest prover failed (%s): %s' % (case['name'], [p['result'] for p in run.out['prove']]), cfg, 'honest_rejected'):
        return
    lv = LogView(run.core)
    inj = Injectivity(run)
    used = []
    rcfg = {'replay_cfg': dict(cfg, members=[dict(mm, rng=('const' if mm.get('rng') == 'sym' else mm.get('rng'))) for mm in cfg['members']])}
    for ri, pr in enumerate(run.out['prove']):
        mem = run.out['members'][ri]
        P = proof_points(run, pr)
        rounds = P['rounds']
        # every transcript-RNG output occurring anywhere in the proof, with the first prover message it occurs in
        order = [('A', P['A'], 'point', 0)]
        for j in range(rounds):
            order.append(('L_%d' % j, P['L'][j], 'point', 1 + 2 * j))
            order.append(('R_%d' % j, P['R'][j], 'point', 1 + 2 * j))
        order += [('A1', P['A1'], 'point', 1 + 2 * rounds), ('B', P['B'], 'point', 1 + 2 * rounds), ('r1', P['r1'], 'scalar', 1 + 2 * rounds), ('s1', P['s1'], 'scalar', 1 + 2 * rounds)]
        order += [('d1_%d' % k, P['d1'][k], 'scalar', 1 + 2 * rounds) for k in range(x)]
        names = {}
        sent_before = {}
        direct_ext = set()
        for (mname, ref, kind, sent) in order:
            nodes = [nid for _, nid in run.core['points'][ref]] if kind == 'point' else [ref]
            for nid in nodes:
                acc, oacc = set(), set()
                inj.atoms_of_node(nid, acc, oacc)
                for o in sorted(oacc):
                    if o.startswith('rnd_') and o not in sent_before:
                        sent_before[o] = sent
                        names['%s:%s' % (mname, o)] = o
                direct_ext |= {a for a in acc if a.startswith('ext_')}
        ctx.expect(not direct_ext, 'C14:raw-external-randomness', '%s run %d: output of the external RNG is used directly in the proof: %s' % (case['name'], ri, sorted(direct_ext)[:3]), cfg, None)
        ctx.expect(len(names) >= 2, 'C14:no-rng-nonce', '%s run %d: fewer than two RNG-drawn nonces in the proof' % (case['name'], ri), cfg, 'nonce_hedge_broken', rcfg)
        used.append(names)
        # serialised witness: LE64(v_j) | r_{j,0} | ... for every opening, in order
        want = []
        for j in range(m):
            want.append(('lit', int(mem['values'][j]['v']).to_bytes(8, 'little').hex()))
            for k in range(x):
                nid = mem['blindings'][j][k]
                # (a blinding component that is the literal zero is serialised as 32 literal zero bytes)
                want.append(('lit', '00' * 32) if run.core['nodes'][nid][0] == 'c' and run.core['shadows'][nid] == '0' else ('scalar', nid))
        for cname, vn in sorted(names.items()):
            sid, st = rnd_info(run, vn)
            ok = len(st['rekeys']) == 1 and st['rekeys'][0]['label'] == 'witness' and merge_lits([lv.piece_desc(p) for p in st['rekeys'][0]['pieces']]) == merge_lits(want) \
                and st['rekeys'][0]['len'] == m * (8 + 32 * x)
            ctx.expect(ok, 'C14:witness-not-keyed', '%s run %d: the RNG state of %s is not rekeyed with the serialised witness LE64(v_j)|r_j,0..|.. of every opening' % (case['name'], ri, cname),
                       cfg, 'nonce_hedge_broken', rcfg)
            # the state is built from the CURRENT transcript: it contains every prover message sent so far
            sent = [e['label'] for _, e in lv.appends(st['log']) if e['label'] in ('A', 'L', 'R', 'A1', 'B')]
            exp = sent_before[vn]
            ctx.expect(len(sent) == exp, 'C14:stale-transcript', '%s run %d: %s is drawn from a state that absorbed %d prover messages, %d had been sent' % (case['name'], ri, cname, len(sent), exp),
                       cfg, 'nonce_hedge_broken', rcfg)
            # ... and determines every blinding factor of the witness (two-copy injectivity query)
        states = sorted({rnd_info(run, vn)[0] for vn in names.values()})
        blind_atoms = set()
        for j in range(m):
            for k in range(x):
                acc, oacc = set(), set()
                inj.atoms_of_node(mem['blindings'][j][k], acc, oacc)
                blind_atoms |= acc
        for sid in states[:3] + states[-1:]:
            for atom in sorted(blind_atoms):
                asserts, atoms = inj.query(('rng', sid), {atom}, blind_atoms)
                ctx.solve(S, 'log-injective', '%s run %d: RNG state %d determines blinding %s' % (case['name'], ri, sid, atom), asserts, cfg=cfg, key='C14:witness-not-keyed',
                          pred='nonce_hedge_broken', detail=rcfg)
    a, b = set(used[0].values()), set(used[1].values())
    if case['expect_shared']:
        la, lb = run.out['prove'][0]['proof']['pieces'], run.out['prove'][1]['proof']['pieces']
        ctx.expect(la == lb and a == b, 'C14:not-reproducible', '%s: identical runs produce different proofs' % case['name'], cfg, None)
    else:
        ctx.expect(not (a & b), 'C14:nonce-shared:' + case['pairname'].split(',')[0].split(' (')[0],
                   '%s: the two runs share the nonces %s' % (case['name'], sorted(k for k, v in used[0].items() if v in b)[:4]), cfg,
                   'nonce_shared_generators' if 'blinding generator' in case['pairname'] else 'nonce_hedge_broken', rcfg)
    if len(ctx.case_samples) < 2:
        ctx.case_samples.append({'scenario': cfg, 'rng_nonces_run0': used[0]})


def run(ctx):
    parallel_cases(ctx, cases(ctx.tier), analyse)
    bounds = {'fault models': FAULTS, 'pairs': 'identical; witness differs under one commitment (degenerate generators) at every opening; context differs; statement differs (promise position / value); with and without seed',
              'configurations': 'sub-lattice with aggregation and extension >= 2'}
    return finish(ctx, [A_ALL[k] for k in ('A1', 'A2', 'A4', 'A5')], FUNCS, bounds,
                  ['that LE64(v) is injective (byte fact)', 'nonces "never computable from public data" is the A1 reading: their oracle input contains the secret witness bytes'],
                  'every RNG-drawn nonce is an output of a state = (current transcript log incl. all prover messages so far, rekey("witness", serialised witness), 32 external bytes); structural equality of the recorded '
                  'derivation with that specification, injectivity query per blinding factor, and no shared nonce symbol between runs that differ in witness / context / statement under a failed external RNG')
