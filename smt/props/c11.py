"""C11 generators are distinct, deterministic and derived as specified — Engine S (derivation structure), under A1 (DESIGN.md §5 C11)"""
from props.common import *
import z3

FUNCS = ['BulletproofGens::new', 'GeneratorsChain::{new,next}', 'AggregatedGensIter::next', 'RangeParameters::{init,gi_base_iter,hi_base_iter,g_bases,h_base,*_compressed,precomp}',
         'ristretto::{create_pedersen_gens_with_extension_degree,ristretto_masking_basepoints,ristretto_compressed_masking_basepoints}', 'CurvePointProtocol::hash_from_bytes_sha3_512']


def cases(tier):
    out = []
    pairs = [(1, 1), (2, 2), (8, 4), (64, 1), (64, 32), (4, 8)] if tier == 'quick' else [(n, c) for n in (1, 2, 4, 8, 16, 32, 64) for c in (1, 2, 4, 8, 16, 32)]
    # party indices beyond one byte: the label carries LE32(party), so capacities above 256 exercise its higher bytes
    for (n, cap) in ([(1, 512)] if tier == 'quick' else [(1, 512), (2, 1024), (1, 2048)]):
        out.append({'cfg': {'scenario': 'gens', 'n': n, 'cap': cap, 'x': 1}, 'name': 'n%d cap%d x1' % (n, cap)})
    # construction history: smaller / larger / other parameter sets built first in the same process
    for (n, cap, x, pre) in [(64, 2, 2, [[16, 1, 1]]), (8, 8, 6, [[2, 2, 1], [8, 1, 3], [64, 32, 6]]), (64, 1, 1, [[1, 1, 1], [2, 4, 2], [32, 2, 1]]), (4, 4, 3, [[64, 1, 6]]),
                             # the SAME bit length built just before with fewer / more parties (a set that is extended or cut down instead of derived afresh)
                             (64, 2, 1, [[64, 1, 1]]), (8, 4, 2, [[8, 2, 2]]), (8, 8, 1, [[8, 1, 1], [8, 2, 1], [8, 4, 1]]), (16, 2, 1, [[16, 4, 1]]), (32, 2, 3, [[64, 4, 3]]), (4, 16, 1, [[4, 2, 1], [2, 16, 1]])]:
        out.append({'cfg': {'scenario': 'gens', 'n': n, 'cap': cap, 'x': x, 'prebuild': pre}, 'name': 'n%d cap%d x%d after building %s' % (n, cap, x, pre)})
    for (n, cap) in pairs:
        for x in ((1, 6) if tier == 'quick' else range(1, 7)):
            out.append({'cfg': {'scenario': 'gens', 'n': n, 'cap': cap, 'x': x}, 'name': 'n%d cap%d x%d' % (n, cap, x)})
    return out


def analyse(ctx, case, run, S):
    cfg = case['cfg']
    n, cap, x = cfg['n'], cfg['cap'], cfg['x']
    o = run.out
    basis = run.core['basis']
    pts = run.core['points']
    rd = {'replay_cfg': cfg}
    def single_basis(pid):
        f = pts[pid]
        if len(f) != 1 or f[0][1] != 1:
            return None
        return basis[f[0][0]]
    seen = {}
    def expect_gen(kind, j, i, pid):
        b = single_basis(pid)
        want = b'GeneratorsChain' + kind.encode() + j.to_bytes(4, 'little')
        ok = b is not None and b['t'] == 'gen' and b['hash'] == 'shake256' and bytes.fromhex(b['input']) == want and b['block'] == i
        ctx.expect(ok, 'C11:vector-generator-derivation', '%s: %s generator %d of party %d is not block %d of SHAKE256("GeneratorsChain" | \'%s\' | LE32(%d)) mapped to the group: %s' % (
            case['name'], kind, i, j, i, kind, j, b), cfg, 'generators_mismatch', rd)
        return b
    ctx.expect(len(o['gi']) == n * cap and len(o['hi']) == n * cap, 'C11:count', '%s: %d/%d vector generators, expected %d each' % (case['name'], len(o['gi']), len(o['hi']), n * cap), cfg, 'generators_mismatch', rd)
    allpts = []
    for j in range(cap):
        for i in range(n):
            k = j * n + i
            if k < len(o['gi']):
                expect_gen('G', j, i, o['gi'][k])
                allpts.append(('G[%d][%d]' % (j, i), o['gi'][k], o['gi_compressed'][k]))
            if k < len(o['hi']):
                expect_gen('H', j, i, o['hi'][k])
                allpts.append(('H[%d][%d]' % (j, i), o['hi'][k], o['hi_compressed'][k]))
    for k in range(x):
        b = single_basis(o['g'][k])
        want = ('RISTRETTO_MASKING_BASEPOINT_%d' % (k + 1)).encode()
        ok = b is not None and b['t'] == 'gen' and b['hash'] == 'sha3_512' and bytes.fromhex(b['input']) == want
        ctx.expect(ok, 'C11:blinding-generator-derivation', '%s: blinding generator %d is not hash-to-group(SHA3-512("%s")): %s' % (case['name'], k, want.decode(), b), cfg, 'generators_mismatch', rd)
        allpts.append(('g[%d]' % k, o['g'][k], o['g_compressed'][k]))
    ctx.expect(len(o['g']) == x, 'C11:count', '%s: %d blinding generators for degree %d' % (case['name'], len(o['g']), x), cfg, 'generators_mismatch', rd)
    bh = single_basis(o['h'])
    ctx.expect(bh is not None and bh['t'] == 'basepoint' and o['pc_h'] == o['h'], 'C11:value-generator', '%s: the value generator is not the group basepoint' % case['name'], cfg, 'generators_mismatch', rd)
    allpts.append(('h', o['h'], o['h_compressed']))
    # pairwise distinct, none the identity: as group elements (point ids are interned linear forms) and as encodings
    ids = [p for _, p, _ in allpts]
    encs = [e for _, _, e in allpts]
    dup = [nm for (nm, p, e) in allpts if ids.count(p) > 1]
    ctx.expect(not dup and len(set(encs)) == len(encs), 'C11:not-distinct', '%s: generators coincide: %s' % (case['name'], dup[:4]), cfg, 'generators_mismatch', rd)
    ctx.expect(all(p != 0 for p in ids) and o['identity'] not in encs, 'C11:identity', '%s: a generator is the identity' % case['name'], cfg, 'generators_mismatch', rd)
    # the compressed forms handed to the transcript are the encodings of the same points
    ctx.expect(o['g_compressed_accessor'] == o['g_compressed'] and o['h_compressed_accessor'] == o['h_compressed'] and o['pc_h_compressed_field'] == o['h_compressed'],
               'C11:compressed-form', '%s: a compressed generator accessor is not the encoding of the generator it belongs to' % case['name'], cfg, 'generators_mismatch', rd)
    # precomputed tables = interleave(flat G, flat H): recorded construction argument and unit-vector probes
    pre = [e for e in run.core['events'] if e['ev'] == 'precomp_new']
    inter = []
    for k in range(n * cap):
        inter += [o['gi'][k], o['hi'][k]] if k < len(o['gi']) and k < len(o['hi']) else []
    ctx.expect(len(pre) >= 1 and pre[-1]['points'] == inter, 'C11:precomputation-order', '%s: the precomputed table is not built from interleave(G, H) in party/index order' % case['name'], cfg, 'generators_mismatch', rd)
    for k, pid, enc in o['precomp_units']:
        ctx.expect(k < len(inter) and pid == inter[k], 'C11:precomputation-order', '%s: table entry %d is not the %s generator of that slot' % (case['name'], k, 'G' if k % 2 == 0 else 'H'), cfg, 'generators_mismatch', rd)
    if len(ctx.case_samples) < 1:
        ctx.case_samples.append({'scenario': cfg, 'first_generators': [(nm, single_basis(p)) for nm, p, _ in allpts[:3]]})


def run(ctx):
    cs = cases(ctx.tier)
    parallel_cases(ctx, cs, analyse)
    crashed = [m for m in ctx.inconclusive if m.startswith('symx crashed on')]
    if crashed:
        # the model could not execute the generator construction of this tree (e.g. generators taken from precomputed byte constants, which only
        # the real curve can decode). The derivation is then compared CONCRETELY on the real crates with the independent SHAKE256 / SHA3-512
        # reference for every enumerated size: a mismatch is a violation (replayed below), agreement leaves the structural part undecided on this tree.
        import replaypreds
        bad = None
        for c in cs:
            f = Finding('C11', 'C11:derivation', '', c['cfg'], 'generators_mismatch', {'replay_cfg': c['cfg']})
            ok, det = replaypreds.generators_mismatch(f)
            ctx.struct_checks += 1
            if ok:
                bad = (c, det)
                break
            ctx.struct_ok += 1
        ctx.inconclusive = [m for m in ctx.inconclusive if not m.startswith('symx crashed on')]
        if bad:
            ctx.findings.append(Finding('C11', 'C11:derivation', 'n%d cap%d x%d: generators differ from the documented derivation on the real crates: %s' % (
                bad[0]['cfg']['n'], bad[0]['cfg']['cap'], bad[0]['cfg']['x'], str(bad[1])[:200]), bad[0]['cfg'], 'generators_mismatch', {'replay_cfg': bad[0]['cfg']}))
        else:
            ctx.m_note('generator derivation structure (Engine S model)', 'the model crates cannot execute this tree\'s generator construction (%d scenarios crashed, e.g. constants only the real curve decodes); '
                       'all %d enumerated sizes were compared concretely with the independent derivation on the real crates and agree' % (len(crashed), len(cs)))
    # labels are pairwise distinct across (kind, party): a bit-vector fact about the documented label encoding, for ALL party indices
    t0 = time.time()
    i, j = z3.BitVec('i', 32), z3.BitVec('j', 32)
    ki, kj = z3.BitVec('ki', 8), z3.BitVec('kj', 8)
    le = lambda v: z3.Concat(z3.Extract(7, 0, v), z3.Extract(15, 8, v), z3.Extract(23, 16, v), z3.Extract(31, 24, v))
    s = z3.Solver()
    s.add(z3.Concat(ki, le(i)) == z3.Concat(kj, le(j)), z3.Or(ki != kj, i != j))
    ans = str(s.check())
    ctx.D.record('bv', 'label tag|LE32(party) is injective in (tag, party) for all u32 parties', ans, time.time() - t0, 'unsat', s.sexpr()[:600])
    bounds = {'sizes': '(bits, capacity) in {(1,1),(2,2),(8,4),(64,1),(64,32),(4,8)} x degree {1,6} quick; all powers of two up to (64,32) x degrees 1..6 thorough — concrete sizes: ENUMERATION, stated',
              'decided': 'the derivation structure: which hash input and which output block every generator comes from, table order, compressed accessors'}
    return finish(ctx, [A_ALL['A1'], A_ALL['A5']], FUNCS, bounds,
                  ['that the resulting Ristretto points are distinct and non-identity as curve points (a fact about Keccak outputs; under A1 distinct oracle inputs give distinct points)',
                   'the schedules part of the property (concurrent first use of the OnceCell statics): not reachable by this family, see C18'],
                  'one native run per (bits, capacity, degree) on the model crates, where hash-to-group outputs are basis elements named by (hash, input bytes, block): structural comparison with the documented derivation; '
                  'one bit-vector query for label injectivity')
