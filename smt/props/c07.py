"""C07 minimum-value promises — Engine S (DESIGN.md §5 C07); the integer guards for all u64 are Engine M (C06/C16 modules)"""
from props.common import *

FUNCS = ['RangeProof::verify_batch', 'RangeProof::verify', 'RangeProof::verify_statements_and_generators_consistency', 'RangeProofTranscript::new', 'RangeProof::prove_with_rng']


def cases(tier):
    out = []
    cfgs = [(8, 1, 1, 1), (8, 4, 4, 1), (4, 2, 4, 2), (64, 1, 1, 1), (2, 8, 8, 1), (4, 2, 2, 6)] if tier == 'quick' else [(8, 1, 1, 1), (8, 4, 4, 1), (4, 2, 4, 2), (64, 1, 1, 1), (16, 8, 8, 1), (2, 2, 2, 6), (32, 2, 2, 3), (64, 4, 4, 1)]
    for (n, m, cap, x) in cfgs:
        maxv = (1 << n) - 1
        # more than 128 symbolic witness bits make the h-coefficient query (the only one that needs b*b = b) too slow here: larger
        # configurations run with concrete values (bits constants), everything else symbolic
        VAL = 'sym' if n * m <= 128 else None
        for j in range(m):
            base_prom = [('sym' if jj == j else None) for jj in range(m)]
            base = {'m': m, 'cap': cap, 'values': VAL, 'promises': base_prom if VAL else [('5' if p_ == 'sym' else p_) for p_ in base_prom]}
            # (a) one promise substituted at verification time -> refused, residual not identically zero
            for repl in (({'op': 'promise', 'j': j, 'value': 'sym', 'concrete': '13'} if n >= 4 else {'op': 'promise', 'j': j, 'value': 'other'}),
                         {'op': 'promise', 'j': j, 'value': None}, {'op': 'promise', 'j': j, 'value': 'other'}):
                cfg = {'scenario': 'batch', 'n': n, 'x': x, 'members': [dict(base, tamper_statement=repl)], 'actions': ['VerifyOnly', 'RecoverAndVerify']}
                out.append({'cfg': cfg, 'kind': 'substituted', 'name': 'promise %d substituted (%s) n%d m%d x%d' % (j, repl['value'], n, m, x)})
            # a promise introduced where there was none
            if m > 1 or True:
                jj = (j + 1) % m
                if jj != j:
                    cfg = {'scenario': 'batch', 'n': n, 'x': x, 'members': [dict(base, tamper_statement={'op': 'promise', 'j': jj, 'value': '1'})], 'actions': ['VerifyOnly', 'RecoverAndVerify']}
                    out.append({'cfg': cfg, 'kind': 'substituted', 'name': 'promise introduced at %d n%d m%d x%d' % (jj, n, m, x)})
            # (a') None <-> Some(0) is the same statement
            for (pp, repl) in ((None, '0'), ('0', None)):
                proms = [(pp if jj == j else ('sym' if jj == (j + 1) % m and m > 1 else None)) for jj in range(m)]
                cfg = {'scenario': 'batch', 'n': n, 'x': x, 'members': [{'m': m, 'cap': cap, 'values': VAL, 'promises': proms if VAL else [('5' if p_ == 'sym' else p_) for p_ in proms], 'tamper_statement': {'op': 'promise', 'j': j, 'value': repl}}],
                       'actions': ['VerifyOnly', 'RecoverAndVerify']}
                out.append({'cfg': cfg, 'kind': 'equivalent', 'name': 'promise %d: %s -> %s n%d m%d x%d' % (j, pp, repl, n, m, x)})
            # the verifier refuses a promise that does not fit the bit length, at every position, in every mode
            if n < 64:
                for bad in (str(maxv + 1), str((1 << 64) - 1), str(1 << 63)):
                    cfg = {'scenario': 'batch', 'n': n, 'x': x, 'members': [dict(base, tamper_statement={'op': 'promise', 'j': j, 'value': bad})],
                           'actions': ['VerifyOnly', 'RecoverAndVerify', 'RecoverOnly']}
                    out.append({'cfg': cfg, 'kind': 'too-large', 'name': 'promise %d = %s does not fit %d bits (m%d)' % (j, bad, n, m)})
                # the largest promise that fits is not refused for that reason (boundary 2^n - 1)
                cfg = {'scenario': 'batch', 'n': n, 'x': x, 'members': [{'m': m, 'cap': cap, 'values': [str(maxv)] * m, 'promises': [(str(maxv) if jj == j else None) for jj in range(m)]}],
                       'actions': ['VerifyOnly', 'RecoverAndVerify']}
                out.append({'cfg': cfg, 'kind': 'honest', 'name': 'promise %d = value = 2^%d-1 (m%d)' % (j, n, m)})
        # ... and inside a batch at every member position (first included)
        if n < 64:
            for pos in range(3):
                members = [{'m': 1, 'cap': 1} for _ in range(3)]
                members[pos] = dict(members[pos], tamper_statement={'op': 'promise', 'j': 0, 'value': str(maxv + 1)})
                cfg = {'scenario': 'batch', 'n': n, 'x': x, 'members': members, 'actions': ['VerifyOnly', 'RecoverAndVerify', 'RecoverOnly']}
                out.append({'cfg': cfg, 'kind': 'too-large', 'name': 'batch member %d carries a promise 2^%d' % (pos, n)})
    # the PROVER refuses value < promise at each position on its own, whatever the other positions look like (promise below, equal to, absent)
    for (n, m, x) in [(8, 2, 1), (8, 4, 2), (64, 2, 1)]:
        for j in range(m):
            for other in ('below', 'equal', 'absent'):
                vals = ['9'] * m
                proms = [{'below': '2', 'equal': '9', 'absent': None}[other]] * m
                vals[j] = '3'
                proms[j] = '4'
                cfg = {'scenario': 'batch', 'n': n, 'x': x, 'members': [{'m': m, 'cap': m, 'values': vals, 'promises': proms, 'sym_bits': False}], 'prove_only': True}
                out.append({'cfg': cfg, 'kind': 'prover-refuses', 'name': 'prover: value 3 < promise 4 at position %d, other promises %s their value (n%d m%d)' % (j, other, n, m)})
        # ... and accepts value == promise at every position together
        cfg = {'scenario': 'batch', 'n': n, 'x': x, 'members': [{'m': m, 'cap': m, 'values': [str(5 + jj) for jj in range(m)], 'promises': [str(5 + jj) for jj in range(m)], 'sym_bits': False}],
               'actions': ['VerifyOnly']}
        out.append({'cfg': cfg, 'kind': 'honest', 'name': 'value == promise at every position (n%d m%d)' % (n, m)})
    # the proof is bound to (commitment_j, promise_j) as absorbed, not to their difference: (V_j - d*H, p_j - d) is refused, at every position
    for (n, m, x) in [(8, 2, 1), (8, 4, 2), (4, 4, 1)]:
        for j in range(m):
            for (p0, p1) in ((7, 0), (3, 5)):
                mem = {'m': m, 'cap': m, 'values': ['9'] * m, 'promises': [(str(p0) if jj == j else None) for jj in range(m)], 'sym_bits': False,
                       'tamper_statement': [{'op': 'promise', 'j': j, 'value': str(p1)}, {'op': 'commitment_shift_h', 'j': j, 'by': p1 - p0}]}
                cfg = {'scenario': 'batch', 'n': n, 'x': x, 'members': [mem], 'actions': ['VerifyOnly', 'RecoverAndVerify']}
                out.append({'cfg': cfg, 'kind': 'shifted', 'name': 'promise %d: %d -> %d with commitment %d moved by %d*H (n%d m%d x%d)' % (j, p0, p1, j, p1 - p0, n, m, x)})
    # promises of DIFFERENT members at the same position do not leak into each other: [Some(p) at j, None at j] in one batch, both orders —
    # honest (accepted), and a proof made under Some(p) presented under None right behind a member that does promise p (refused)
    for (n, m, x) in [(8, 1, 1), (8, 2, 2), (4, 4, 1)]:
        for j in range(m):
            with_p = {'m': m, 'cap': m, 'values': ['9'] * m, 'promises': [('7' if jj == j else None) for jj in range(m)], 'sym_bits': False, 'label': 'member with promise'}
            without = {'m': m, 'cap': m, 'values': ['9'] * m, 'promises': [None] * m, 'sym_bits': False, 'label': 'member without promise', 'name_idx': 1}
            forged = dict(with_p, label='member proved with promise, presented without', name_idx=2, tamper_statement={'op': 'promise', 'j': j, 'value': None})
            for order in ((with_p, without), (without, with_p)):
                cfg = {'scenario': 'batch', 'n': n, 'x': x, 'members': [dict(o) for o in order], 'actions': ['VerifyOnly', 'RecoverAndVerify']}
                out.append({'cfg': cfg, 'kind': 'honest', 'name': 'batch [%s, %s], promise at position %d (n%d m%d x%d)' % (order[0]['label'], order[1]['label'], j, n, m, x)})
            cfg = {'scenario': 'batch', 'n': n, 'x': x, 'members': [dict(with_p, name_idx=0), forged], 'actions': ['VerifyOnly', 'RecoverAndVerify']}
            out.append({'cfg': cfg, 'kind': 'substituted', 'name': 'proof made under Some(7) at %d presented under None behind a member promising 7 there (n%d m%d x%d)' % (j, n, m, x)})
    # honest with u64::MAX promise at 64 bits
    cfg = {'scenario': 'batch', 'n': 64, 'x': 1, 'members': [{'m': 1, 'cap': 1, 'values': [str((1 << 64) - 1)], 'promises': [str((1 << 64) - 1)]}], 'actions': ['VerifyOnly']}
    out.append({'cfg': cfg, 'kind': 'honest', 'name': 'value = promise = u64::MAX at 64 bits'})
    return out


def analyse(ctx, case, run, S):
    cfg = case['cfg']
    kind = case['kind']
    if kind == 'prover-refuses':
        pr = run.out['prove'][0]
        ctx.expect(pr['result'] != 'panic', 'C07:panic', '%s: the prover PANICKED' % case['name'], cfg, 'any_panic')
        ctx.expect(pr['result'] != 'ok', 'C07:prover-accepts-value-below-promise', '%s: the prover returned a proof' % case['name'], cfg, 'prover_accepts_invalid')
        return
    if not ctx.expect(all(p['result'] == 'ok' for p in run.out['prove']) and run.out['verify'] is not None, 'C07:prove', 'honest prover failed (%s): %s' % (case['name'], [p['result'] for p in run.out['prove']]), cfg, 'honest_rejected'):
        return
    side = run.side_conditions()
    for v in run.out['verify']:
        if v['result'] == 'panic':
            ctx.expect(False, 'C07:panic', '%s: PANIC (%s)' % (case['name'], v['action']), cfg, 'any_panic')
            continue
        if kind in ('equivalent', 'honest'):
            if ctx.expect(v['result'] == 'ok', 'C07:equivalent-refused', '%s: refused (%s): %s' % (case['name'], v['action'], v['result']), cfg, 'honest_rejected'):
                residual_obligations(ctx, run, S, case, v, '%s %s' % (case['name'], v['action']), 'C07')
        elif kind == 'too-large':
            ctx.expect(isinstance(v['result'], dict), 'C07:unfit-promise-not-refused', '%s: NOT refused in %s (%s)' % (case['name'], v['action'], v['result']), cfg, 'verify_not_refused')
            ctx.expect(not run.residual_points(v['events']), 'C07:unfit-promise-late', '%s: refused only by the final comparison (%s)' % (case['name'], v['action']), cfg, 'verify_not_refused')
        else:
            ctx.expect(isinstance(v['result'], dict), 'C07:substituted-accepted', '%s: ACCEPTED (%s)' % (case['name'], v['action']), cfg, 'tampered_accepted')
            evs = run.residual_points(v['events'])
            if not evs:
                continue
            form = run.form(evs[-1]['detail']['a'])
            cand = [(b, nid) for b, nid in sorted(form.items()) if run.core['shadows'][nid] != '0']
            if ctx.expect(len(cand) > 0, 'C07:substituted-residual-zero', '%s: the verification equation ignores the promise (%s)' % (case['name'], v['action']), cfg, 'tampered_accepted'):
                b, nid = cand[0]
                ctx.solve_nonzero(S, run, '%s residual[%s]' % (case['name'], run.basis_name(b)), run.norm.nm(nid)[0], side, cfg=cfg, key='C07:substituted-residual-zero', pred='tampered_accepted')


def relation_cases(tier):
    """the statement "acceptance establishes promise_j <= value_j for EVERY commitment" is the paper relation with one weight z^(2(j+1)) per position
    (smt/spec.py, shared with C02): adversarial proofs over aggregates of 8 and 16 with a promise at every position"""
    from props.c02 import ilog2
    out = []
    for (n, m, x) in ([(2, 8, 1), (1, 16, 2)] if tier == 'quick' else [(2, 8, 1), (1, 16, 2), (8, 8, 3), (4, 16, 1)]):
        cfg = {'scenario': 'adversarial', 'n': n, 'x': x, 'members': [{'m': m, 'cap': m, 'rounds': ilog2(n * m), 'promises': ['sym'] * min(m, 4) + [None] * (m - min(m, 4))}], 'actions': ['VerifyOnly']}
        out.append({'cfg': cfg, 'kind': 'relation', 'name': 'relation n%d m%d c%d x%d' % (n, m, m, x)})
    return out


def run(ctx):
    import props.c02 as c02
    parallel_cases(ctx, relation_cases(ctx.tier), c02.analyse)
    parallel_cases(ctx, cases(ctx.tier), analyse)
    bounds = {'configurations': 'sub-lattice incl. m up to 4 (8 thorough); every position j; batch positions 0..2', 'within': 'promise values are symbolic variables (registry) where the bit length leaves room; boundary values 0, value, 2^n-1, 2^n, 2^63, u64::MAX concrete'}
    return finish(ctx, [A_ALL[k] for k in ('A1', 'A2', 'A4', 'A5', 'HOOK')], FUNCS, bounds,
                  ['the guard "promise >= 2^n is refused" for ALL u64 values is decided from the MIR by Engine M (C16)', 'the h-coefficient of the promise inside the relation is C02'],
                  'substituted promise: Err and residual not identically zero; None<->Some(0): accepted with every residual coefficient valid-zero; promises that do not fit: Err before the comparison in all three modes at every position')
