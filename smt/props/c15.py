"""C15 proof encoding — Engine S with opaque 32-byte elements (DESIGN.md §5 C15)"""
from props.common import *
from props.c02 import ilog2

FUNCS = ['RangeProof::from_bytes', 'RangeProof::to_bytes', 'RangeProof::extension_degree_from_proof_bytes', 'Serialize/Deserialize for RangeProof (through bincode)', 'ExtensionDegree::try_from(u8/usize)',
         'RangeProof::prove_with_rng (output lengths, round trip)']
NEEDS_SYMX = True


def spec_ok(tag, elems, trailing, noncanon):
    """the acceptance set of the property statement"""
    if tag is None or not (1 <= tag <= 6) or trailing != 0:
        return False
    d = tag
    if elems < d + 5 or (elems - d - 5) % 2 != 0 or (elems - d - 5) // 2 < 1:
        return False
    scalar_pos = set(range(d)) | {d + 3, d + 4}
    return not (set(noncanon) & scalar_pos)


def cases(tier):
    out = []
    K = 4 if tier == 'quick' else 20
    tags = [None, 0, 1, 2, 3, 6, 7, 8, 9, 15, 16, 17, 22, 33, 65, 129, 134, 241, 246, 128, 255] if tier == 'quick' else [None] + list(range(256))
    max_e = 5 + 6 + 2 * K + 1
    for tag in tags:
        for e in range(0, max_e + 1):
            if tier != 'quick' and tag is not None and tag > 8 and e not in (0, 1, 6, 7, 8, 9, 13):
                continue
            for t in ((0, 1, 17, 31) if tier == 'quick' else (0, 1, 2, 15, 16, 17, 30, 31)):
                if tag is None and (e > 2 or t > 1):
                    continue
                out.append({'cfg': {'scenario': 'codec', **({'tag': tag} if tag is not None else {}), 'elems': e, 'trailing': t, 'noncanonical': []}, 'kind': 'codec'})
    # canonical forks on accepted shapes: every single scalar position, all, and a point position (must not matter)
    for d in range(1, 7):
        for k in ((1, 2, 3) if tier == 'quick' else (1, 2, 3, 6, 8)):
            e = d + 5 + 2 * k
            pos = list(range(d)) + [d + 3, d + 4]
            forks = [[p] for p in pos] + [pos] + [[d], [d + 1], [d + 2], [d + 5], [e - 1]] + [[d + 2, d + 3]]
            for f in forks:
                out.append({'cfg': {'scenario': 'codec', 'tag': d, 'elems': e, 'trailing': 0, 'noncanonical': f}, 'kind': 'codec'})
            # points are opaque to the codec: bytes that decode to no group element at a point position are still accepted
            ptpos = [d, d + 1, d + 2] + list(range(d + 5, e))
            for pp in ptpos[:5] + ptpos[-1:]:
                out.append({'cfg': {'scenario': 'codec', 'tag': d, 'elems': e, 'trailing': 0, 'noncanonical': [], 'undecodable': [pp]}, 'kind': 'codec'})
            out.append({'cfg': {'scenario': 'codec', 'tag': d, 'elems': e, 'trailing': 0, 'noncanonical': [], 'undecodable': ptpos}, 'kind': 'codec'})
            # canonical scalars from the very top of the range (and 0, 1) at every scalar position are accepted
            for kind_ in ('minus_one', 'minus_two', 'two252', 'zero'):
                for pp in pos:
                    if k == 1 or pp in (0, d + 3, d + 4):
                        out.append({'cfg': {'scenario': 'codec', 'tag': d, 'elems': e, 'trailing': 0, 'noncanonical': [], 'special_scalars': [[pp, kind_]]}, 'kind': 'codec'})
    # large proofs (many folding rounds): the acceptance set has no upper size limit
    for d in (1, 2, 6):
        # (incl. the widths at which a narrower round counter would wrap: 127..129, 255..257, 511..513; thorough: 65535..65537)
        for k in (9, 16, 17, 18, 20, 32, 40, 64, 127, 128, 129, 255, 256, 257, 300, 511, 512, 513) + ((65535, 65536, 65537) if tier != 'quick' and d == 1 else ()):
            out.append({'cfg': {'scenario': 'codec', 'tag': d, 'elems': d + 5 + 2 * k, 'trailing': 0, 'noncanonical': []}, 'kind': 'codec'})
            out.append({'cfg': {'scenario': 'codec', 'tag': d, 'elems': d + 5 + 2 * k + 1, 'trailing': 0, 'noncanonical': []}, 'kind': 'codec'})
    # prover outputs: length formula and round trip, over the lattice
    for (n, m, cap, x) in lattice(tier):
        if cap != m:
            continue
        out.append({'cfg': {'scenario': 'batch', 'n': n, 'x': x, 'members': [{'m': m, 'cap': cap, 'seeded': m == 1}], 'prove_only': True}, 'kind': 'prover', 'nmx': (n, m, x)})
    return out


def analyse(ctx, case, run, S):
    cfg = case['cfg']
    o = run.out
    if case['kind'] == 'prover':
        n, m, x = case['nmx']
        pr = o['prove'][0]
        if not ctx.expect(pr['result'] == 'ok', 'C15:prove', 'honest prover failed', cfg, 'honest_rejected'):
            return
        want = 1 + 32 * (5 + x + 2 * ilog2(n * m))
        ctx.expect(pr['proof_len'] == want, 'C15:length', 'prover output for n%d m%d x%d has %d bytes, formula gives %d' % (n, m, x, pr['proof_len'], want), cfg, 'roundtrip_fails')
        rt = pr['roundtrip']
        ctx.expect(rt.get('decoded') and rt.get('equal') and rt.get('bytes_equal'), 'C15:roundtrip:n=%d,m=%d' % (n, m) if n * m == 1 else 'C15:roundtrip',
                   'prover output for n%d m%d x%d does not round-trip through from_bytes: %s' % (n, m, x, rt), cfg, 'roundtrip_fails')
        return
    tag, e, t, nc = cfg.get('tag'), cfg['elems'], cfg['trailing'], cfg['noncanonical']
    want = spec_ok(tag, e, t, nc)
    dec = o['decode']
    got = 'ok' if dec == 'ok' else ('panic' if dec == 'panic' else 'err')
    name = 'tag=%s elems=%d trailing=%d noncanonical=%s%s%s' % (tag, e, t, nc, (' undecodable=%s' % cfg['undecodable']) if cfg.get('undecodable') else '',
                                                                    (' special=%s' % cfg['special_scalars']) if cfg.get('special_scalars') else '')
    det = {'expect_decode': 'ok' if want else 'err', 'replay_priority': 10 * len([1 for it in (cfg.get('special_scalars') or []) if it[1] != 'zero']) + len(cfg.get('undecodable') or [])}
    cls = 'accepts-outside-spec' if got == 'ok' and not want else ('refuses-inside-spec' if want and got != 'ok' else 'x')
    ctx.expect(got != 'panic', 'C15:panic', '%s: from_bytes PANICKED' % name, cfg, 'any_panic')
    ctx.expect((got == 'ok') == want, 'C15:%s' % cls, '%s: from_bytes returned %s, the acceptance set says %s' % (name, dec, 'accept' if want else 'refuse'), cfg, 'codec_mismatch', det)
    # the recorded path condition must justify the verdict: for an accepted buffer every scalar-position element was asked for canonicity and answered yes, nothing else was asked
    # the serde form accepts exactly the same strings whether it is read from a slice or from a stream
    ctx.expect(o.get('serde_reader_decode') == o.get('serde_decode'), 'C15:serde', '%s: serde from a reader returned %s, from a slice %s' % (name, o.get('serde_reader_decode'), o.get('serde_decode')),
               cfg, 'codec_mismatch', dict(det, replay_priority=det['replay_priority'] + 1))
    if got == 'ok' and want:
        d = tag
        asked = [ev['detail'].get('elem') for ev in run.events_in(o['events']) if ev['ev'] == 'branch' and ev['kind'] == 'canonical']
        blobs = run.core['blobs']
        ks = [blobs[b]['k'] for b in o['elems']]
        lits = {it[0] for it in cfg.get('special_scalars', [])}
        want_asked = [ks[p] for p in list(range(d)) + [d + 3, d + 4] if p not in lits]
        ctx.expect(sorted(asked) == sorted(want_asked), 'C15:canonicity-questions', '%s: canonicity was decided for elements %s, the scalar positions are %s' % (name, asked, want_asked), cfg, 'codec_mismatch', det)
        # solver: "accepted" implies the specification predicate, as a propositional validity over the canonicity atoms of this shape
        atoms = ' '.join('(declare-const c%d Bool)' % k for k in ks)
        pc = ['c%d' % k for k in asked]
        spec = ['c%d' % k for k in want_asked]
        q = '(and %s (not (and %s)))' % (' '.join(pc) if pc else 'true', ' '.join(spec) if spec else 'true')
        S.send(atoms)
        ans, dt, _ = S.check([q])
        for k in ks:
            pass
        ctx.D.record('path-implies-spec', name, ans, dt, 'unsat', '(assert %s)' % q)
        if ans != 'unsat':
            # the solver's counterexample: a scalar element whose canonicity was never asked is non-canonical
            missing = [p for p in list(range(d)) + [d + 3, d + 4] if ks[p] not in asked and p not in lits]
            ctx.findings.append(Finding(ctx.pid, 'C15:accepts-outside-spec', '%s: the accepting path does not establish canonicity of scalar element(s) %s' % (name, missing), cfg, 'codec_mismatch',
                                        {'expect_decode': 'err', 'replay_cfg': dict(cfg, noncanonical=missing[:1])}))
        ctx.expect(o.get('reencode_equal') is True, 'C15:reencode', '%s: to_bytes(from_bytes(b)) != b' % name, cfg, 'codec_mismatch', det)
        ctx.expect(o.get('ext') == tag and o.get('ext_from_bytes') == tag, 'C15:extension-degree', '%s: extension degree accessors disagree with the tag' % name, cfg, 'codec_mismatch', det)
        ctx.expect(o.get('serde_decode') == 'ok' and o.get('serde_equal') and o.get('serde_bytes_equal'), 'C15:serde', '%s: the serde form does not accept/produce the same bytes (%s)' % (name, o.get('serde_decode')),
                   cfg, 'codec_mismatch', det)
    else:
        ctx.expect(o.get('serde_decode') != 'ok', 'C15:serde', '%s: serde accepted a buffer from_bytes refuses' % name, cfg, 'codec_mismatch', det)
        ctx.expect(o.get('serde_decode') != 'panic', 'C15:panic', '%s: serde PANICKED' % name, cfg, 'any_panic')
        efb = o.get('ext_from_bytes')
        ctx.expect((efb == tag) if (tag is not None and 1 <= tag <= 6) else (efb == 'err'), 'C15:extension-degree', '%s: extension_degree_from_proof_bytes returned %s' % (name, efb), cfg, 'codec_mismatch', det)
    if len(ctx.case_samples) < 2 and got == 'ok':
        ctx.case_samples.append({'scenario': cfg, 'result': {k: o.get(k) for k in ('decode', 'reencode_equal', 'serde_decode', 'ext')}})


def run(ctx):
    parallel_cases(ctx, cases(ctx.tier), analyse, workers=14)
    bounds = {'tags': 'quick: {absent,0,1,2,3,6,7,8,128,255}; thorough: 0..255', 'lengths': 'every element count 0..%d with trailing remainders in {0,1,17,31} (thorough: 8 remainders), plus 9..64 folding rounds' % (5 + 6 + 2 * (4 if ctx.quick() else 20) + 1),
              'contents': 'every 32-byte element is one opaque symbol (A3): one run covers all contents of that shape; canonicity of a scalar-position element is a recorded fork, explored: none / each single / all'}
    return finish(ctx, [A_ALL[k] for k in ('A3', 'A5')], FUNCS, bounds, ['code that inspects element bytes directly (A3)', 'lengths beyond 64 folding rounds'],
                  'shapes (tag, element count, remainder, canonicity fork) are ENUMERATED, element contents symbolic; per accepted shape one propositional validity query "path condition => every scalar element canonical"; '
                  'structural: verdict == acceptance set, re-encoding identical, serde identical, prover output length formula and round trip')
