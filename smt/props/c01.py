"""C01 completeness — Engine S (DESIGN.md §5 C01)"""
from props.common import *

FUNCS = ['RangeParameters::init', 'RangeStatement::init', 'RangeWitness::init', 'PedersenGens::commit',
         'RangeProof::prove_with_rng', 'RangeProof::verify_batch', 'RangeProof::verify',
         'RangeProof::verify_statements_and_generators_consistency', 'RangeProofTranscript::{new,challenges_y_z,challenge_round_e,challenge_final_e,to_verifier_rng}',
         'utils::generic::{nonce,compute_generator_padding}', 'BulletproofGens::new', 'AggregatedGensIter::next',
         'TranscriptProtocol for Transcript', 'ScalarProtocol for Scalar']


def cases(tier, seed):
    out = []
    for (n, m, cap, x) in lattice(tier):
        for seeded in ((False, True) if m == 1 else (False,)):
            # promise pattern: alternate none / symbolic promise over positions (None == Some(0) handled in C07)
            promises = [('sym' if (j + n + x) % 2 == 0 else None) for j in range(m)]
            rng = ['sym', 'zero', 'const', 'period2'][(n + m + cap + x + seeded) % 4]
            cfg = {'scenario': 'batch', 'n': n, 'x': x,
                   'members': [{'m': m, 'cap': cap, 'values': 'sym', 'promises': promises, 'seeded': seeded, 'rng': rng}],
                   'actions': ['VerifyOnly', 'RecoverAndVerify', 'RecoverOnly']}
            out.append({'cfg': cfg, 'name': 'n%d m%d c%d x%d seed%d rng=%s' % (n, m, cap, x, seeded, rng)})
    # boundary values as concrete instances too (value == promise, 0, 2^n - 1): cheap extra runs
    for (n, m, cap, x) in [(8, 2, 2, 1), (64, 1, 1, 1), (1, 1, 1, 1), (2, 4, 4, 2)]:
        maxv = (1 << n) - 1
        for vals, proms in (([str(maxv)] * m, [None] * m), (['0'] * m, [None] * m), ([str(maxv)] * m, ['eq'] * m), ([str(maxv)] * m, ['0'] * m)):
            cfg = {'scenario': 'batch', 'n': n, 'x': x,
                   'members': [{'m': m, 'cap': cap, 'values': vals, 'promises': proms, 'sym_bits': False}],
                   'actions': ['VerifyOnly', 'RecoverAndVerify']}
            out.append({'cfg': cfg, 'name': 'boundary n%d m%d v=%s p=%s' % (n, m, vals[0], proms[0])})
    # value 0 with the all-zero mask: the commitment is the identity element, still a valid witness (alone and inside an aggregate)
    for (n, m, cap, x, seeded) in [(8, 1, 1, 1, False), (8, 1, 1, 2, True), (4, 4, 4, 1, False), (1, 1, 1, 1, False)]:
        cfg = {'scenario': 'batch', 'n': n, 'x': x, 'members': [{'m': m, 'cap': cap, 'values': ['0'] * m, 'zero_blindings': True, 'seeded': seeded, 'sym_bits': False}],
               'actions': ['VerifyOnly', 'RecoverAndVerify', 'RecoverOnly']}
        out.append({'cfg': cfg, 'name': 'identity commitment (value 0, zero mask) n%d m%d x%d' % (n, m, x)})
    # the same honest proofs verified together: members of different aggregation factor under ONE shared generator capacity (so their
    # capacity - aggregation slack differs), each in its own caller context, in every order
    import itertools
    for (n, x, shape) in ([(4, 1, [(1, 2), (2, 2)]), (2, 2, [(1, 4), (4, 4), (2, 4)])] if tier == 'quick' else
                          [(4, 1, [(1, 2), (2, 2)]), (2, 2, [(1, 4), (4, 4), (2, 4)]), (8, 3, [(2, 8), (1, 8), (8, 8)]), (64, 1, [(1, 2), (2, 2)])]):
        for perm in itertools.permutations(range(len(shape))):
            members = [{'m': shape[i][0], 'cap': shape[i][1], 'values': 'sym' if n * sum(s_[0] for s_ in shape) <= 96 else None, 'seeded': shape[i][0] == 1, 'label': 'member %d' % i} for i in perm]
            cfg = {'scenario': 'batch', 'n': n, 'x': x, 'members': members, 'actions': ['VerifyOnly', 'RecoverAndVerify', 'RecoverOnly']}
            out.append({'cfg': cfg, 'name': 'honest proofs together n%d x%d (m,cap)=%s' % (n, x, [shape[i] for i in perm]), 'batch': True})
    return out


def analyse(ctx, case, run, S):
    cfg = case['cfg']
    if case.get('batch'):
        if not ctx.expect(all(p['result'] == 'ok' for p in run.out['prove']) and run.out['verify'], 'C01:prove-ok', 'prover refused a valid witness (%s)' % case['name'], cfg, 'honest_rejected'):
            return
        for v in run.out['verify']:
            if not ctx.expect(v['result'] == 'ok', 'C01:verify-ok:' + v['action'],
                              'verifier (%s) refused honest proofs verified together (%s): %s' % (v['action'], case['name'], v['result']), cfg, 'honest_rejected'):
                continue
            if v['action'] != 'RecoverOnly':
                residual_obligations(ctx, run, S, case, v, '%s %s' % (case['name'], v['action']), 'C01')
        return
    pr = run.out['prove'][0]
    if not ctx.expect(pr['result'] == 'ok', 'C01:prove-ok', 'prover refused a valid witness (%s): %s' % (case['name'], pr['result']), cfg,
                      'honest_rejected'):
        return
    hook = run.out['hook']['calls']
    ctx.expect(len(hook) == 1 and hook[0].get('expansion_ok'), 'C01:hook', 'bit hook did not observe a correct expansion', cfg, 'honest_rejected')
    nontriv = 0
    for v in run.out['verify']:
        if not ctx.expect(v['result'] == 'ok', 'C01:verify-ok:' + v['action'],
                          'verifier (%s) refused an honest proof (%s): %s' % (v['action'], case['name'], v['result']), cfg, 'honest_rejected'):
            continue
        if v['action'] != 'RecoverOnly':
            nontriv += residual_obligations(ctx, run, S, case, v, '%s %s' % (case['name'], v['action']), 'C01')
    # vacuity guard: at least one non-trivial coefficient must have been posed
    ctx.expect(nontriv > 0 or 'identity commitment' in case['name'], 'C01:vacuous', 'no non-trivial coefficient obligation for %s' % case['name'], cfg, None)
    if len(ctx.case_samples) < 2:
        ctx.case_samples.append({'scenario': cfg, 'dag_nodes': len(run.core['nodes']), 'smt_terms': len(run.T.defs),
                                 'symbolic_bits': sum(1 for s in run.out['hook']['side'] if s['kind'] == 'bool')})


def run(ctx):
    cs = cases(ctx.tier, ctx.seed)
    parallel_cases(ctx, cs, analyse)
    bounds = {'lattice': 'quick: n in {1,2,8,64}, m in {1,2,4}, cap in {m,2m}, x in {1,2,6}, n*m<=64; thorough: n in {1..64 powers of 2}, m<=16, cap in {m,2m,4m}, x in 1..6, n*m<=256',
              'within_configuration': 'all n*m witness bits, values, promises, blindings, nonces, challenges and the batch weight are symbolic',
              'enumerated': ['(n,m,cap,x)', 'seed yes/no', '3 verify modes', 'external RNG model in {sym,zero,const,period2}']}
    outside = ['n*m > 256 (thorough) / > 64 (quick)', 'capacities > 4m', 'RNGs whose fill_bytes panics',
               'the link "bit vector == binary expansion of value-promise" is the Engine M lemma of C06 (checked concretely here by the hook on every run)']
    return finish(ctx, [A_ALL[k] for k in ('A1', 'A2', 'A4', 'A5', 'HOOK')], FUNCS, bounds, outside,
                  'one case = one configuration of the lattice; one obligation = one coefficient (basis generator) of the verifier\'s final linear form, '
                  'non-trivial = numerator not syntactically 0, distinct by numerator term')
