"""C16 no panics on untrusted input — Engine S paths (DESIGN.md §5 C16); integer guards for all values are Engine M (mirx)"""
from props.common import *
from props.c02 import ilog2
import props.c15 as c15

FUNCS = ['RangeProof::from_bytes', 'RangeProof::verify_batch', 'RangeProof::verify', 'RangeProof::verify_statements_and_generators_consistency', 'Deserialize for RangeProof',
         'RangeProof::extension_degree_from_proof_bytes', 'RangeStatement::init', 'utils::generic::{nonce,compute_generator_padding}', 'AggregatedGensIter::next',
         'model MSM with the length assertions of curve25519-dalek precomputed_straus.rs:78-79']
ACTIONS = ['VerifyOnly', 'RecoverAndVerify', 'RecoverOnly']


def cases(tier):
    out = []
    for c in c15.cases(tier):
        if c['kind'] == 'codec':
            out.append({'cfg': c['cfg'], 'kind': 'codec'})
    cfgs = [(2, 2, 2, 1), (8, 1, 4, 2), (4, 4, 4, 6)] if tier == 'quick' else [(2, 2, 2, 1), (8, 1, 4, 2), (4, 4, 4, 6), (64, 1, 1, 1), (1, 2, 2, 3), (16, 8, 16, 2), (32, 2, 2, 4)]
    for (n, m, cap, x) in cfgs:
        good = ilog2(n * m)
        for seeded in ((False, True) if m == 1 else (False,)):
            base = {'m': m, 'cap': cap, 'seeded': seeded, 'promises': ['sym'] + [None] * (m - 1)}
            def add(name, **kw):
                top = {k: v for k, v in kw.items() if k == 'forced'}
                mem = dict(base, **{k: v for k, v in kw.items() if k != 'forced'})
                mem.setdefault('rounds', good)
                out.append({'cfg': dict({'scenario': 'adversarial', 'n': n, 'x': x, 'members': [mem], 'actions': ACTIONS}, **top), 'kind': 'verify',
                            'name': '%s (n%d m%d c%d x%d%s)' % (name, n, m, cap, x, ' seeded' if seeded else '')})
            for rounds in range(1, good + 3):
                add('rounds=%d' % rounds, rounds=rounds)
            add('rounds=20', rounds=20)
            add('rounds=40', rounds=40)
            add('rounds=63', rounds=63)
            add('rounds=64', rounds=64)
            add('rounds=70', rounds=70)
            for tag in range(1, 7):
                add('tag=%d' % tag, tag=tag)
            nel = x + 5 + 2 * good
            for e in range(nel):
                add('identity at element %d' % e, identity_elems=[e])
                add('undecodable at element %d' % e, undecodable_elems=[e])
            add('every point the identity', identity_elems=[e for e in range(nel) if not (e < x or e in (x + 3, x + 4))])
            add('every point undecodable', undecodable_elems=[e for e in range(nel) if not (e < x or e in (x + 3, x + 4))])
            for k in range(2 + good + 1):
                add('challenge #%d == 0' % k, forced=[['scalar_eq', k, True]])
            add('first weight draw == 0', forced=[['scalar_eq', 2 + good + 1, True]])
    # batch shapes: mixed sizes with shared capacity, every order; members disagreeing in n / x; length mismatches are in C03
    for caps in ((4, 4, 4), (1, 2, 4), (8, 8, 8)):
        import itertools
        for ms in set(itertools.permutations((1, 2, 4))):
            members = [{'m': mm, 'cap': max(cc, mm), 'rounds': ilog2(4 * mm)} for mm, cc in zip(ms, caps)]
            out.append({'cfg': {'scenario': 'adversarial', 'n': 4, 'x': 1, 'members': members, 'actions': ACTIONS}, 'kind': 'verify', 'name': 'batch m=%s caps=%s' % (list(ms), list(caps))})
    for bad in ({'n': 8}, {'x': 2}, {'x': 2, 'tag': 2}, {'rounds': 5}, {'rounds': 1}, {'tag': 2}, {'tag': 2, 'd1': 1}):
        for pos in range(3):
            members = [{'m': 1, 'cap': 1, 'rounds': 2} for _ in range(3)]
            members[pos] = dict(members[pos], **bad)
            out.append({'cfg': {'scenario': 'adversarial', 'n': 4, 'x': 1, 'members': members, 'actions': ACTIONS}, 'kind': 'verify', 'name': 'batch member %d deviates: %s' % (pos, bad)})
    # statements of unusual shape through the validating constructor
    for (nc, np_) in [(1, 0), (1, 2), (2, 1), (2, 3), (4, 2), (4, 5), (1, 1), (2, 2), (3, 3), (0, 0), (0, 1)]:
        for seeded in (False, True):
            out.append({'cfg': {'scenario': 'odd_statement', 'n': 4, 'x': 1, 'cap': 4, 'commitments': nc, 'promises': np_, 'seeded': seeded, 'actions': ACTIONS}, 'kind': 'odd',
                        'name': 'statement with %d commitments and %d promises%s' % (nc, np_, ' and a seed' if seeded else '')})
    # batches beyond the internal chunk size with MIXED aggregation factors (opaque proofs: the whole arithmetic runs, nothing is accepted):
    # the largest member in the first chunk / in a later chunk / at a position that recurs in the next chunk
    for (k, big) in ([(257, 0), (300, 7)] if tier == 'quick' else [(257, 0), (300, 7), (257, 256), (513, 300), (520, 258)]):
        members = [{'m': (2 if i == big else 1), 'cap': 2, 'rounds': (2 if i == big else 1)} for i in range(k)]
        out.append({'cfg': {'scenario': 'adversarial', 'n': 2, 'x': 1, 'members': members, 'actions': ['VerifyOnly', 'RecoverAndVerify'], 'forced': [['final_eq', 0, True]]}, 'kind': 'verify',
                    'name': 'batch of %d opaque proofs, the only aggregated member at %d' % (k, big),
                    # on the real crates a chunk of invalid proofs ends the call: the replay uses HONEST proofs of the same shape (every chunk is then reached)
                    'replay_cfg': {'scenario': 'batch', 'n': 2, 'x': 1, 'members': [{'m': (2 if i == big else 1), 'cap': 2} for i in range(k)], 'actions': ['VerifyOnly'], 'replay_seeds': 1}})
    # statements built through the constructors from Pedersen generators whose vector length disagrees with their degree tag
    for x in (1, 2, 6):
        for ts in ({'op': 'g_append'}, {'op': 'g_drop_last'}, {'op': 'gc_append'}, {'op': 'gc_drop_last'}, {'op': 'degree_tag', 'x': x + 1 if x < 6 else 5}, {'op': 'degree_tag', 'x': x - 1 if x > 1 else 2}):
            if ts['op'] == 'g_drop_last' and x == 1:
                continue
            for members in ([{'m': 1, 'cap': 1, 'tamper_statement': ts}], [{'m': 1, 'cap': 2}, {'m': 2, 'cap': 2, 'tamper_statement': ts}], [{'m': 2, 'cap': 2, 'tamper_statement': ts}, {'m': 1, 'cap': 2}]):
                out.append({'cfg': {'scenario': 'batch', 'n': 4, 'x': x, 'members': members, 'actions': ACTIONS}, 'kind': 'gens-shape',
                            'name': 'generator vector / degree tag mismatch: %s x%d batch of %d' % (ts, x, len(members))})
    # the serde visitor handed OTHER data shapes than a byte string (sequence with a hostile declared length, exact sequence, string, integer, owned bytes, unit)
    for (tag, e) in ((1, 8), (2, 9), (6, 13), (1, 0), (9, 3)):
        out.append({'cfg': {'scenario': 'codec', 'tag': tag, 'elems': e, 'trailing': 0, 'noncanonical': [], 'serde_shapes': True}, 'kind': 'codec'})
    # statements whose DATA is special though every shape is ordinary: the identity commitment (value 0, all-zero mask) at each position of an
    # aggregate and of a batch, equal commitments, zero / equal blinding factors, the same member twice, one parameters object for all members
    for (n, x) in ((4, 1), (8, 2)):
        for pos in range(2):
            mem = {'m': 2, 'cap': 2, 'values': [('0' if j == pos else '3') for j in range(2)], 'zero_blindings_at': [pos], 'sym_bits': False}
            for members in ([mem], [{'m': 1, 'cap': 2}, dict(mem, name_idx=3)], [dict(mem, name_idx=3), {'m': 1, 'cap': 2}]):
                out.append({'cfg': {'scenario': 'batch', 'n': n, 'x': x, 'members': members, 'actions': ACTIONS}, 'kind': 'gens-shape', 'name': 'identity commitment at position %d, batch of %d (n%d x%d)' % (pos, len(members), n, x)})
        out.append({'cfg': {'scenario': 'batch', 'n': n, 'x': x, 'members': [{'m': 1, 'cap': 1, 'values': ['0'], 'zero_blindings': True, 'sym_bits': False, 'seeded': True}], 'actions': ACTIONS}, 'kind': 'gens-shape',
                    'name': 'single identity commitment with a seed (n%d x%d)' % (n, x)})
        out.append({'cfg': {'scenario': 'batch', 'n': n, 'x': x, 'members': [{'m': 2, 'cap': 2, 'values': ['5', '5'], 'equal_blindings': True, 'sym_bits': False, 'promises': ['1', '2']}], 'actions': ACTIONS}, 'kind': 'gens-shape',
                    'name': 'equal blinding components / equal values (n%d x%d)' % (n, x)})
        out.append({'cfg': {'scenario': 'batch', 'n': n, 'x': x, 'members': [{'m': 1, 'cap': 1, 'seeded': True, 'name_idx': 0}, {'m': 1, 'cap': 1, 'seeded': True, 'name_idx': 0, 'rng_replay_of': 0}], 'actions': ACTIONS}, 'kind': 'gens-shape',
                    'name': 'the same member twice (n%d x%d)' % (n, x)})
        for perm in ((4, 1, 2), (1, 4, 2), (2, 1, 4)):
            out.append({'cfg': {'scenario': 'batch', 'n': n, 'x': x, 'members': [{'m': mm, 'cap': 4, 'share_params': True, 'label': 'member %d' % i} for i, mm in enumerate(perm)], 'actions': ACTIONS}, 'kind': 'gens-shape',
                        'name': 'one parameters object for aggregates %s (n%d x%d)' % (list(perm), n, x)})
    return out


def analyse(ctx, case, run, S):
    cfg = case['cfg']
    o = run.out
    if case['kind'] == 'codec':
        name = 'tag=%s elems=%d trailing=%d' % (cfg.get('tag'), cfg['elems'], cfg['trailing'])
        ctx.expect(o['decode'] != 'panic' and o.get('serde_decode') != 'panic' and o.get('ext_from_bytes') != 'panic', 'C16:decode-panic', '%s: decoding PANICKED' % name, cfg, 'any_panic')
        for shp, res in (o.get('serde_shapes') or {}).items():
            ctx.expect(res != 'panic', 'C16:decode-panic', '%s: the serde visitor PANICKED on input presented as %s' % (name, shp), cfg, 'any_panic')
        return
    if case['kind'] == 'odd':
        ctx.expect(o.get('params') != 'panic' and o.get('statement') != 'panic', 'C16:constructor-panic', '%s: constructor PANICKED' % case['name'], cfg, 'any_panic')
        for v in o.get('verify') or []:
            ctx.expect(v['result'] != 'panic', 'C16:verify-panic:odd-statement', '%s: verification PANICKED in %s' % (case['name'], v['action']), cfg, 'any_panic')
        return
    if case['kind'] == 'gens-shape':
        for v in o.get('verify') or []:
            ctx.expect(v['result'] != 'panic', 'C16:verify-panic:generator-shape', '%s: verification PANICKED in %s' % (case['name'], v['action']), cfg, 'any_panic')
        return
    if 'error' in o:
        raise Inconclusive('scenario error: %s' % o['error'])
    ctx.expect(not o.get('decode_panic'), 'C16:decode-panic', '%s: decoding PANICKED' % case['name'], cfg, 'any_panic')
    size = sum(len(mm['elems']) for mm in o['members']) + sum(cfg['n'] * mm['m'] for mm in o['members'])
    for v in o.get('verify') or []:
        ctx.expect(v['result'] != 'panic', 'C16:verify-panic:' + case['name'].split(' (')[0].split('=')[0].split(' at ')[0],
                   '%s: verification PANICKED in %s' % (case['name'], v['action']), cfg, 'any_panic',
                   {'replay_cfg': case['replay_cfg'], 'replay_seeds': 1} if case.get('replay_cfg') else None)
        if 'work' in v:
            ctx.expect(v['work'] <= 600 * size + 20000, 'C16:work', '%s: %d arithmetic nodes for an input of size %d' % (case['name'], v['work'], size), cfg, None)
    if len(ctx.case_samples) < 2:
        ctx.case_samples.append({'scenario': cfg, 'results': [(v['action'], v['result']) for v in (o.get('verify') or [])]})


def run(ctx):
    parallel_cases(ctx, cases(ctx.tier), analyse)
    import mirx_props
    mirx_props.c16_guards(ctx)
    bounds = {'codec': 'as C15', 'verification shapes': 'rounds 1..log2(nm)+2 and 20, 40; tags 1..6 vs statement degree; identity / undecodable point at every position and everywhere; zero-challenge forks; '
              'mixed batches in every order with shared capacity; members deviating in n / x / rounds at every position; statements with surplus or missing promises through the constructor; all three modes',
              'integer guards (Engine M)': 'for all usize/u64 values, see mirx section of this evidence'}
    return finish(ctx, [A_ALL[k] for k in ('A3', 'A5')] + ['the model multiscalar multiplication asserts the length contracts of the real backend (static scalar count == table size, dynamic scalars == dynamic points), so a miscounted vector is a panic on the path'],
                  FUNCS, bounds, ['shapes beyond the enumerated ranges', 'allocation failure', 'huge round counts need proportionally huge inputs (from_bytes gives len/64 rounds): the guard itself is decided for all usize by Engine M'],
                  'every explored path runs under catch_unwind: a panic anywhere (library or modelled backend contract) is a finding replayed on the real crates; contents of each shape are symbolic; work (arena nodes) bounded linearly in input size')
