"""C17 constructors accept exactly the documented parameter space — Engine M (all integer arguments) + concrete sweep of the documented ranges"""
from props.common import *
import mirx_props
import replaypreds

FUNCS = ['RangeParameters::init', 'RangeStatement::init', 'RangeWitness::init', 'CommitmentOpening::{new,r_len}', 'ExtendedMask::assign', 'PedersenGens::commit', 'ExtensionDegree::try_from(u8 / usize)']


def cases(tier):
    out = []
    add = lambda **c: out.append({'cfg': dict({'scenario': 'ctor'}, **c)})
    for v in list(range(0, 256)):
        add(fn='ext_u8', v=v)
    for v in list(range(0, 300)) + [511, 512, 513, 769, 65537, 65542, (1 << 32) + 3, (1 << 63) + 1, (1 << 64) - 1]:
        add(fn='ext_usize', v=v)
    rng = range(0, 131) if tier != 'quick' else [0, 1, 2, 3, 4, 5, 7, 8, 16, 31, 32, 33, 63, 64, 65, 96, 127, 128, 129, 130]
    for bl in rng:
        for cap in (rng if tier != 'quick' else [0, 1, 2, 3, 4, 6, 8, 16, 17, 32, 64, 128, 130]):
            if cap > 64 and bl not in (0, 3, 64, 128) and tier == 'quick':
                continue
            add(fn='params', bit_length=bl, cap=cap, x=1)
    for nc in range(0, 18):
        for np_ in range(0, 19):
            if tier == 'quick' and abs(nc - np_) > 2:
                continue
            for cap in (1, 2, 4, 8, 16):
                for seeded in (False, True):
                    add(fn='statement', bit_length=2, commitments=nc, promises=np_, cap=cap, seeded=seeded)
    shapes = [[]]
    for k in range(1, 4 if tier == 'quick' else 5):
        import itertools
        vals = (0, 1, 2, 3, 6, 7, 8) if tier == 'quick' else range(0, 9)
        for sh in itertools.product(vals, repeat=k):
            if tier == 'quick' and k == 3 and len(set(sh)) == 3:
                continue
            shapes.append(list(sh))
    shapes += [[1, 1, 2, 2], [1, 1, 1, 0], [2, 2, 2, 2, 2], [1, 1, 1, 1, 7], [3] * 8, [3] * 7 + [2], [257], [258, 258]]
    for sh in shapes:
        add(fn='witness', blindings=sh)
    for d in range(0, 9):
        for ln in range(0, 10):
            add(fn='mask', degree=d, len=ln)
    for d in range(1, 7):
        for ln in range(0, 10):
            add(fn='commit', degree=d, len=ln)
    # data-dependent corners: the domains are about counts and shapes, never about the VALUES — special seeds, zero blinding factors, value 0
    for nc in (1, 2, 4, 8):
        for sv in ('zero', 'one', 'minus_one'):
            add(fn='statement', bit_length=2, commitments=nc, promises=nc, cap=8, seeded=True, seed_value=sv)
    for d in range(1, 7):
        for ln in range(0, 8):
            for z in ['all'] + [[k] for k in range(min(ln, 6))] + ([[0, ln - 1]] if ln >= 2 else []):
                for val in (0, 7):
                    add(fn='commit', degree=d, len=ln, zero=z, value=val)
            add(fn='mask', degree=d, len=ln, zero='all')
            add(fn='mask', degree=d, len=ln, zero=[0])
    for sh in ([1], [2, 2], [6], [3, 3, 3, 3], [1, 2], [7], [0]):
        for z in ('all', [0]):
            for val in (0, None):
                add(fn='witness', blindings=sh, zero=z, **({'value': val} if val is not None else {}))
    return out


def analyse(ctx, case, run, S):
    cfg = case['cfg']
    o = run.out
    want = replaypreds.ctor_spec(cfg)
    if isinstance(o, dict) and 'skip' in o:
        return
    got = 'panic' if o == 'panic' else ('ok' if isinstance(o, dict) and 'ok' in o else 'err')
    name = ' '.join('%s=%s' % (k, v) for k, v in cfg.items() if k != 'scenario')
    ctx.expect(got != 'panic', 'C17:panic:' + cfg['fn'], '%s: constructor PANICKED' % name, cfg, 'ctor_mismatch')
    ctx.expect((got == 'ok') == want, 'C17:domain:' + cfg['fn'], '%s: constructor returned %s, the documented domain says %s' % (name, o if got != 'ok' else 'Ok', 'accept' if want else 'refuse'), cfg, 'ctor_mismatch')
    if got == 'ok':
        k = o['ok']
        if cfg['fn'] == 'params':
            ctx.expect(k['bit_length'] == cfg['bit_length'] and k['cap'] == cfg['cap'], 'C17:adjusted:params', '%s: stored fields differ from the arguments: %s' % (name, k), cfg, None)
        if cfg['fn'] == 'statement':
            ctx.expect(k['commitments'] == cfg['commitments'] and k['promises_equal'] and k['commitments_equal'] and k['compressed'] == cfg['commitments'] and k['seed'] == cfg['seeded'],
                       'C17:adjusted:statement', '%s: stored fields differ from the arguments: %s' % (name, k), cfg, None)
        if cfg['fn'] == 'witness':
            ctx.expect(k['openings'] == len(cfg['blindings']) and k['degree'] == cfg['blindings'][0], 'C17:adjusted:witness', '%s: stored fields differ: %s' % (name, k), cfg, None)
        if cfg['fn'] == 'mask':
            ctx.expect(k['len'] == cfg['len'] and k['equal'], 'C17:adjusted:mask', '%s: stored blindings differ' % name, cfg, None)
        if cfg['fn'] in ('ext_u8', 'ext_usize'):
            ctx.expect(k == cfg['v'], 'C17:domain:' + cfg['fn'], '%s: mapped to degree %s' % (name, k), cfg, 'ctor_mismatch')


def run(ctx):
    try:
        mirx_props.c17_constructors(ctx)
    except Inconclusive as e:
        # the MIR no longer has the expected shape (anchors / symbols): Engine M is inconclusive, the rest of the check still runs
        ctx.inconclusive.append('Engine M: %s' % e)
    parallel_cases(ctx, cases(ctx.tier), analyse, workers=14)
    bounds = {'Engine M': 'ALL usize/u8 arguments and element counts of RangeParameters::init, RangeStatement::init, ExtensionDegree::try_from (u8, usize), ExtendedMask::assign, CommitmentOpening::r_len, PedersenGens::commit; RangeWitness::init loop body from an arbitrary state',
              'concrete sweep (enumeration, on the model crates)': 'bit lengths / capacities 0..=130 (thorough: full square), commitment counts 0..=17 x promise counts x capacities x seed, opening shapes with blinding counts 0..=8 up to 4 openings, all u8 and selected usize degree encodings'}
    return finish(ctx, [A_ALL['A5'], 'Engine M call table (smt/mirx.py)'], FUNCS, bounds, ['allocation failure', 'generator construction itself (opaque after the argument checks)'],
                  'Engine M: for each constructor "reaches construction / returns Ok" <=> documented predicate as a bit-vector validity query over all argument values, path conditions exhaustive, arguments passed on unchanged; '
                  'sweep: one native run per argument tuple compared with the same documented predicate')
