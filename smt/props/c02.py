"""C02 soundness as exact relation — Engine S vs the paper-form relation (DESIGN.md §5 C02)"""
from props.common import *

FUNCS = ['RangeProof::from_bytes', 'RangeProof::verify_batch', 'RangeProof::verify', 'RangeProof::verify_statements_and_generators_consistency',
         'RangeProofTranscript::{new,challenges_y_z,challenge_round_e,challenge_final_e,to_verifier_rng}', 'TranscriptProtocol for Transcript',
         'RangeStatement::init', 'RangeParameters::init', 'utils::generic::compute_generator_padding', 'AggregatedGensIter::next']


def ilog2(v):
    return v.bit_length() - 1


def cases(tier):
    import props.c04 as c04, props.c08 as c08
    out = []
    # the relation must hold AT THE FIAT-SHAMIR CHALLENGES: every challenge hashes everything sent before it (shared with C04) ...
    for c in c04.cases(tier):
        if c['kind'] == 'verifier' and 'promises at' not in c['name']:
            out.append(dict(c, kind='c04'))
    # ... and in a batch every member's relation enters with its own non-zero weight (shared with C08)
    for c in c08.cases(tier):
        if c['kind'] == 'adversarial':
            out.append(dict(c, kind='c08'))
        elif c['kind'] == 'cancel' and 'members 0,1' in c['name']:
            out.append(dict(c, kind='c08cancel'))
    # acceptance must mean that EVERY submitted proof was checked: input sequences of different length are refused, not truncated to the shortest
    for key in ('drop_last_transcript', 'drop_last_statement', 'drop_last_proof'):
        for k in (2, 3):
            members = [{'m': 1, 'cap': 1} for _ in range(k)]
            members[-1] = dict(members[-1], tamper={'op': 'scalar_add_delta', 'elem': 3 + 1})   # the member that would fall off the end is invalid (r1 shifted; x = 1)
            out.append({'cfg': {'scenario': 'batch', 'n': 4, 'x': 1, 'members': members, key: 1, 'actions': ['VerifyOnly', 'RecoverAndVerify']}, 'kind': 'shape',
                        'name': 'batch of %d with %s=1 and an invalid last member' % (k, key)})
    # more than 256 commitments: generator positions whose party index needs a second byte
    cfg = {'scenario': 'adversarial', 'n': 1, 'x': 1, 'members': [{'m': 512, 'cap': 512, 'rounds': 9, 'promises': [None] * 512}], 'actions': ['VerifyOnly']}
    out.append({'cfg': cfg, 'kind': 'relation', 'name': 'relation n1 m512 c512 x1'})
    for (n, m, cap, x) in lattice(tier):
        if n * m < 2:
            continue   # a proof with zero rounds cannot be decoded from bytes (C15); (1,1) is covered through the prover in C01
        promises = [('sym' if (j + x) % 2 == 0 else None) for j in range(m)]
        cfg = {'scenario': 'adversarial', 'n': n, 'x': x, 'members': [{'m': m, 'cap': cap, 'rounds': ilog2(n * m), 'promises': promises}],
               'actions': ['VerifyOnly', 'RecoverAndVerify']}
        out.append({'cfg': cfg, 'kind': 'relation', 'name': 'relation n%d m%d c%d x%d' % (n, m, cap, x)})
    # shapes that must be refused before the comparison
    shape_cfgs = [(2, 2, 2, 1), (8, 1, 1, 2), (4, 4, 8, 1)] if tier == 'quick' else [(2, 2, 2, 1), (8, 1, 1, 2), (4, 4, 8, 1), (64, 1, 1, 1), (16, 8, 8, 3), (2, 1, 1, 6)]
    for (n, m, cap, x) in shape_cfgs:
        good = ilog2(n * m)
        for rounds in range(1, good + 3):
            if rounds == good:
                continue
            cfg = {'scenario': 'adversarial', 'n': n, 'x': x, 'members': [{'m': m, 'cap': cap, 'rounds': rounds}], 'actions': ['VerifyOnly', 'RecoverAndVerify']}
            out.append({'cfg': cfg, 'kind': 'refuse', 'name': 'rounds %d instead of %d (n%d m%d)' % (rounds, good, n, m)})
        for tag in range(1, 7):
            if tag == x:
                continue
            cfg = {'scenario': 'adversarial', 'n': n, 'x': x, 'members': [{'m': m, 'cap': cap, 'rounds': good, 'tag': tag}], 'actions': ['VerifyOnly']}
            out.append({'cfg': cfg, 'kind': 'refuse', 'name': 'tag %d under statement degree %d (n%d m%d)' % (tag, x, n, m)})
        # identity / undecodable point at every point position
        npts = 3 + 2 * good
        for pi in range(npts):
            e = x + pi if pi < 3 else x + 5 + (pi - 3)
            for how in ('identity_elems', 'undecodable_elems'):
                cfg = {'scenario': 'adversarial', 'n': n, 'x': x, 'members': [{'m': m, 'cap': cap, 'rounds': good, how: [e]}], 'actions': ['VerifyOnly']}
                out.append({'cfg': cfg, 'kind': 'refuse', 'name': '%s at element %d (n%d m%d x%d)' % (how, e, n, m, x)})
        # zero challenge forks: y, z, each round e, final e
        for k in range(2 + good + 1):
            cfg = {'scenario': 'adversarial', 'n': n, 'x': x, 'members': [{'m': m, 'cap': cap, 'rounds': good}], 'actions': ['VerifyOnly'],
                   'forced': [['scalar_eq', k, True]]}
            out.append({'cfg': cfg, 'kind': 'refuse', 'name': 'challenge #%d == 0 (n%d m%d)' % (k, n, m), 'no_replay': True})
    return out


def analyse(ctx, case, run, S):
    cfg = case['cfg']
    if case['kind'] == 'c04':
        import props.c04 as c04
        return c04.analyse(ctx, dict(case, kind='verifier'), run, S)
    if case['kind'] == 'shape':
        for v in run.out.get('verify') or []:
            ctx.expect(v['result'] != 'panic', 'C02:panic', '%s: PANIC (%s)' % (case['name'], v['action']), case['cfg'], 'any_panic')
            ctx.expect(isinstance(v['result'], dict), 'C02:unchecked-member-accepted', '%s: returned %s (%s): a submitted proof was never checked' % (case['name'], v['result'], v['action']),
                       case['cfg'], 'verify_not_refused')
        return
    if case['kind'] in ('c08', 'c08cancel'):
        import props.c08 as c08
        return c08.analyse(ctx, dict(case, kind='adversarial' if case['kind'] == 'c08' else 'cancel'), run, S)
    if 'error' in run.out:
        raise Inconclusive('scenario error: %s' % run.out['error'])
    info = run.out['members'][-1] if run.out['members'] else None
    if case['kind'] == 'refuse':
        pred = None if case.get('no_replay') else 'verify_not_refused'
        if run.out['verify'] is None:
            # refused by the decoder already
            ctx.expect(info is None or info['decode'] != 'ok', 'C02:refuse:' + case['name'].split(' (')[0], 'decoder accepted but no verification ran', cfg, None)
            return
        for v in run.out['verify']:
            ok = isinstance(v['result'], dict) and 'err' in v['result']
            ctx.expect(ok, 'C02:refuse:' + case['name'].split(' (')[0],
                       '%s: verification returned %s instead of an error' % (case['name'], v['result']), cfg, pred)
            ev = run.residual_point(v['events'])
            ctx.expect(ev is None, 'C02:refuse-late:' + case['name'].split(' (')[0],
                       '%s: refused only at the final comparison (shape not enforced)' % case['name'], cfg, pred)
        return
    # relation
    m0 = cfg['members'][0]
    n, x, m = cfg['n'], cfg['x'], m0['m']
    ctx.expect(info['decode'] == 'ok', 'C02:decode', 'well-formed adversarial proof was not decoded: %s' % info['decode'], cfg, None)
    G, H, g, h = gens_by_derivation(run, n, m, x)
    if not ctx.expect(None not in G + H + g + [h], 'C02:generators',
                      '%s: a generator required by the relation (documented derivation) is not used by the verifier at all' % case['name'], cfg, 'relation_disagrees',
                      {'missing': [i for i, b in enumerate(G + H + g + [h]) if b is None][:8]}):
        return
    proof = adversarial_proof(run, info)
    V = [lin_of_point(run, pid) for pid in info['commitments']]
    promises = promise_fracs(run, 0, info['promises'])
    seen_nums = 0
    for v in run.out['verify']:
        ev = run.residual_point(v['events'])
        if not ctx.expect(ev is not None, 'C02:no-final-comparison', '%s: verifier (%s) never compared the relation' % (case['name'], v['action']), cfg, 'tampered_accepted'):
            continue
        ch = member_challenges(run, v['logs_after'][0])
        ctx.expect(len(ch['rounds']) == ilog2(n * m), 'C02:round-challenges', 'number of round challenges differs from log2(nm)', cfg, None)
        spec = relation_residual(run.norm, n, m, x, ch, proof, V, promises, G, H, g, h)
        ws = weight_state(run)
        if not ws:
            raise Inconclusive('weight state not found')
        # the weight of the single member: output 0 of the weight RNG state with one absorbed "proof" entry
        sid = [s for s, napp in ws if napp == 1][-1]
        w = run.norm.fvar('rnd_%d_0' % sid)
        wspec = Lin()
        wspec.add_lin(spec, w)
        impl = run.form(ev['detail']['a'])
        seen_nums += compare_residual(ctx, run, S, cfg, impl, wspec, '%s %s' % (case['name'], v['action']), 'C02:relation', pred='relation_disagrees')
        # never-zero(w): the path condition must contain w != 0 (rejection loop of random_not_zero)
        wnum = w.num
        pcs = run.path_condition()
        ctx.solve(S, 'never-zero', 'batch weight', pcs + ['(= t%d 0.0)' % wnum], cfg=cfg, key='C02:weight-zero', pred=None)
    ctx.expect(seen_nums > 0, 'C02:vacuous', 'no non-trivial comparison for %s' % case['name'], cfg, None)
    if len(ctx.case_samples) < 2:
        ctx.case_samples.append({'scenario': cfg, 'dag_nodes': len(run.core['nodes']), 'smt_terms': len(run.T.defs)})


def run(ctx):
    parallel_cases(ctx, cases(ctx.tier), analyse)
    bounds = {'lattice': 'as C01 without n*m = 1', 'within_configuration': 'proof points and commitments are free basis elements, response scalars free variables, challenges and weight the variables handed out by the transcript model, promises variables',
              'enumerated': ['(n,m,cap,x)', 'round counts 1..log2(nm)+2', 'tags 1..6', 'identity / undecodable point positions', 'zero-challenge forks']}
    outside = ['the extraction theorem of the paper (that the relation implies the range statement)', 'n*m = 1 through bytes (such proofs cannot be decoded, see C15)',
               'proofs with len(L) != len(R) (not constructible through the public API)']
    return finish(ctx, [A_ALL[k] for k in ('A1', 'A2', 'A3', 'A4', 'A5')], FUNCS, bounds, outside,
                  'relation case: one obligation per basis element (generator, proof point, commitment): implementation coefficient == weight * paper coefficient; '
                  'refuse case: structural assertion that an error is returned before the final comparison')
