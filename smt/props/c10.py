"""C10 recovery keyed by the seed, verdict independent of seed and mode — Engine S (DESIGN.md §5 C10)"""
from props.common import *

FUNCS = ['RangeProof::verify_batch', 'RangeProof::verify', 'utils::generic::nonce', 'RangeProof::prove_with_rng']


def cases(tier):
    out = []
    cfgs = [(8, 1, 1), (2, 2, 1), (64, 1, 2), (1, 6, 1), (4, 6, 2)] if tier == 'quick' else [(8, 1, 1), (2, 2, 1), (64, 1, 2), (1, 6, 1), (4, 3, 4), (16, 4, 1), (32, 5, 2), (64, 6, 1)]
    tampers = [None, {'op': 'scalar_add_delta', 'elem': 0}, {'op': 'point_add_delta_basis', 'elem': 'A', 'basis': {'b': 'h'}}, {'op': 'scalar_add_delta', 'elem': 'r1'}]
    for (n, x, cap) in cfgs:
        for ti, t in enumerate(tampers):
            if t is not None and n == 1:
                continue    # a proof with zero folding rounds cannot be re-encoded/decoded (C15 known finding), so it cannot be altered through bytes
            tt = None
            if t is not None:
                tt = dict(t)
                if tt['elem'] == 'A':
                    tt['elem'] = x
                elif tt['elem'] == 'r1':
                    tt['elem'] = x + 3
                tt['shared'] = True
            # three views of the SAME proof: statement with the prover's seed, with another seed, without seed
            mk = lambda ts: dict({'m': 1, 'cap': cap, 'seeded': True, 'name_idx': 0, 'rng_replay_of': None},
                                 **({'tamper_statement': ts} if ts else {}), **({'tamper': tt} if tt else {}))
            members = [mk(None), mk({'op': 'seed_other'}), mk({'op': 'seed_none'})]
            members[1]['rng_replay_of'] = 0
            members[2]['rng_replay_of'] = 0
            del members[0]['rng_replay_of']
            cfg = {'scenario': 'batch', 'n': n, 'x': x, 'members': members, 'verify_each': True, 'actions': ['VerifyOnly', 'RecoverAndVerify', 'RecoverOnly']}
            out.append({'cfg': cfg, 'name': 'n%d x%d cap%d proof %s' % (n, x, cap, 'honest' if t is None else 'altered(%s)' % t['elem']), 'honest': t is None})
    # the zero scalar carried as the statement's seed is just another wrong seed: same verdict, a value (not an error) from the recovering modes
    for (n, x, cap) in [(8, 1, 1), (4, 2, 2)]:
        mk = lambda ts: dict({'m': 1, 'cap': cap, 'seeded': True, 'name_idx': 0, 'rng_replay_of': None}, **({'tamper_statement': ts} if ts else {}))
        members = [mk(None), mk({'op': 'seed_zero'}), mk({'op': 'seed_none'})]
        members[1]['rng_replay_of'] = 0
        members[2]['rng_replay_of'] = 0
        del members[0]['rng_replay_of']
        cfg = {'scenario': 'batch', 'n': n, 'x': x, 'members': members, 'verify_each': True, 'actions': ['VerifyOnly', 'RecoverAndVerify', 'RecoverOnly']}
        out.append({'cfg': cfg, 'name': 'n%d x%d cap%d proof honest, other seed = 0' % (n, x, cap), 'honest': True})
    # a mask with zero entries: accepted and recovered like any other, whatever the seed and the mode
    for (n, x, cap, zc) in [(8, 2, 1, [1]), (4, 1, 2, [0]), (2, 6, 1, [0, 3, 5])]:
        mk = lambda ts: dict({'m': 1, 'cap': cap, 'seeded': True, 'name_idx': 0, 'rng_replay_of': None, 'zero_blinding_components': zc}, **({'tamper_statement': ts} if ts else {}))
        members = [mk(None), mk({'op': 'seed_other'}), mk({'op': 'seed_none'})]
        members[1]['rng_replay_of'] = 0
        members[2]['rng_replay_of'] = 0
        del members[0]['rng_replay_of']
        cfg = {'scenario': 'batch', 'n': n, 'x': x, 'members': members, 'verify_each': True, 'actions': ['VerifyOnly', 'RecoverAndVerify', 'RecoverOnly']}
        out.append({'cfg': cfg, 'name': 'n%d x%d cap%d proof honest, blinding components %s zero' % (n, x, cap, zc), 'honest': True})
    # several views of ONE proof listed in ONE batch (a wallet trying candidate seeds): each result is what that view gives on its own
    for (n, x, cap) in [(8, 1, 1), (4, 2, 2)]:
        mkv = lambda ts: dict({'m': 1, 'cap': cap, 'seeded': True, 'name_idx': 0, 'rng_replay_of': 0}, **({'tamper_statement': ts} if ts else {}))
        for views in (['seed', 'other'], ['other', 'seed'], ['seed', 'other', 'none', 'seed'], ['other', 'none', 'seed', 'other'], ['seed', 'seed']):
            members = [mkv({'seed': None, 'other': {'op': 'seed_other'}, 'none': {'op': 'seed_none'}}[vw]) for vw in views]
            members[0] = {k: v for k, v in members[0].items() if k != 'rng_replay_of'}
            cfg = {'scenario': 'batch', 'n': n, 'x': x, 'members': members, 'actions': ['VerifyOnly', 'RecoverAndVerify', 'RecoverOnly']}
            out.append({'cfg': cfg, 'name': 'n%d x%d one proof listed as views %s in one batch' % (n, x, views), 'views': views})
    # batches mixing members with and without a seed, in every order: the two recovering modes return the same masks, result by result
    import itertools
    kinds = [{'m': 1, 'cap': 2, 'seeded': False}, {'m': 1, 'cap': 2, 'seeded': True}, {'m': 2, 'cap': 2, 'seeded': False}]
    for combo in ([0, 1], [0, 1, 1], [2, 1, 0]):
        for perm in sorted(set(itertools.permutations(combo))):
            members = [dict(kinds[c], label='member %d' % i) for i, c in enumerate(perm)]
            cfg = {'scenario': 'batch', 'n': 4, 'x': 2, 'members': members, 'actions': ['VerifyOnly', 'RecoverAndVerify', 'RecoverOnly']}
            out.append({'cfg': cfg, 'name': 'batch seeded=%s' % [kinds[c]['seeded'] for c in perm], 'batch': True})
    return out


def analyse_batch(ctx, case, run, S):
    cfg = case['cfg']
    if not ctx.expect(all(p['result'] == 'ok' for p in run.out['prove']) and run.out.get('verify'), 'C10:prove', 'honest prover failed (%s)' % case['name'], cfg, 'honest_rejected'):
        return
    by = {v['action']: v for v in run.out['verify']}
    for act, v in sorted(by.items()):
        ctx.expect(v['result'] == 'ok', 'C10:verdict:batch:' + act, '%s: %s returned %s for an all-valid batch' % (case['name'], act, v['result']), cfg, 'verdict_depends_on_seed_or_mode')
    a, b = by.get('RecoverAndVerify'), by.get('RecoverOnly')
    if not (a and b and a['result'] == 'ok' and b['result'] == 'ok'):
        return
    ma, mb = a['masks'], b['masks']
    shape = len(ma) == len(mb) and all((x is None) == (y is None) and (x is None or len(x) == len(y)) for x, y in zip(ma, mb))
    if not ctx.expect(shape, 'C10:recover-only-differs', '%s: RecoverOnly returns %s, RecoverAndVerify %s (presence of masks per member)' % (
            case['name'], [m_ is not None for m_ in mb], [m_ is not None for m_ in ma]), cfg, 'recover_only_differs'):
        return
    for i, (x, y) in enumerate(zip(ma, mb)):
        for kk, (hx, hy) in enumerate(zip(x or [], y or [])):
            if hx == hy:
                continue
            if not ctx.expect(run.core['shadows'][hx] == run.core['shadows'][hy], 'C10:recover-only-differs',
                              '%s: RecoverOnly and RecoverAndVerify masks differ (member %d, component %d)' % (case['name'], i, kk), cfg, 'recover_only_differs'):
                continue
            num = (run.norm.frac(hx) - run.norm.frac(hy)).num
            S.sync_terms(run.T)
            if run.T.cval(num) != 0:
                ctx.solve(S, 'valid-eq', '%s: RecoverOnly mask == RecoverAndVerify mask (member %d, component %d)' % (case['name'], i, kk), run.side_conditions() + ['(not (= t%d 0.0))' % num],
                          cfg=cfg, key='C10:recover-only-differs', pred='recover_only_differs')


def analyse_views(ctx, case, run, S):
    cfg = case['cfg']
    if not ctx.expect(all(p['result'] == 'ok' for p in run.out['prove']) and run.out.get('verify'), 'C10:prove', 'honest prover failed (%s)' % case['name'], cfg, 'honest_rejected'):
        return
    lay = [p['proof']['pieces'] for p in run.out['prove']]
    if any(l != lay[0] for l in lay):
        raise Inconclusive('scenario construction: the views do not share one proof')
    blind = run.out['members'][0]['blindings'][0]
    side = run.side_conditions()
    for v in run.out['verify']:
        if not ctx.expect(v['result'] == 'ok', 'C10:views-batch', '%s: %s returned %s' % (case['name'], v['action'], v['result']), cfg, 'views_batch_wrong'):
            continue
        if v['action'] == 'VerifyOnly':
            continue
        if not ctx.expect(len(v['masks']) == len(case['views']), 'C10:views-batch', '%s: %d results for %d members' % (case['name'], len(v['masks']), len(case['views'])), cfg, 'views_batch_wrong'):
            continue
        for pos, vw in enumerate(case['views']):
            got = v['masks'][pos]
            if vw == 'none':
                ctx.expect(got is None, 'C10:views-batch', '%s: a mask for the view without a seed (position %d, %s)' % (case['name'], pos, v['action']), cfg, 'views_batch_wrong')
                continue
            if not ctx.expect(got is not None and len(got) == len(blind), 'C10:views-batch', '%s: no mask for view %s at position %d (%s)' % (case['name'], vw, pos, v['action']), cfg, 'views_batch_wrong'):
                continue
            for kk, (g, w) in enumerate(zip(got, blind)):
                diff = (run.norm.frac(g) - run.norm.frac(w)).num
                S.sync_terms(run.T)
                if vw == 'seed':
                    if run.T.cval(diff) == 0:
                        ctx.D.record('syntactically-identical', 'mask', 'unsat', 0.0, 'unsat')
                        continue
                    if ctx.expect(run.core['shadows'][g] == run.core['shadows'][w], 'C10:views-batch', '%s: the prover\'s seed at position %d does not recover the mask component %d (%s)' % (case['name'], pos, kk, v['action']), cfg, 'views_batch_wrong'):
                        ctx.solve(S, 'valid-eq', '%s: mask[%d][%d] == r_%d (%s)' % (case['name'], pos, kk, kk, v['action']), side + ['(not (= t%d 0.0))' % diff], cfg=cfg, key='C10:views-batch', pred='views_batch_wrong')
                else:
                    if ctx.expect(run.core['shadows'][g] != run.core['shadows'][w], 'C10:views-batch', '%s: another seed at position %d recovered the true mask component %d (%s)' % (case['name'], pos, kk, v['action']), cfg, 'views_batch_wrong'):
                        ctx.solve_nonzero(S, run, '%s: recovered(other seed)[%d][%d] - r_%d' % (case['name'], pos, kk, kk), diff, side, cfg=cfg, key='C10:views-batch', pred='views_batch_wrong')


def analyse(ctx, case, run, S):
    cfg = case['cfg']
    if case.get('batch'):
        return analyse_batch(ctx, case, run, S)
    if case.get('views'):
        return analyse_views(ctx, case, run, S)
    if not ctx.expect(all(p['result'] == 'ok' for p in run.out['prove']) and run.out.get('verify_each'), 'C10:prove', 'honest prover failed (%s)' % case['name'], cfg, 'honest_rejected'):
        return
    # the three members must carry the very same proof (same variables, replayed RNG stream)
    lay = [p['proof']['pieces'] for p in run.out['prove']]
    if not (lay[0] == lay[1] == lay[2]):
        raise Inconclusive('scenario construction: the three views do not share one proof')
    ve = run.out['verify_each']
    honest = case['honest']
    side = run.side_conditions()
    blind = run.out['members'][0]['blindings'][0]
    # ---- verdict independent of seed presence / value and of the recovering mode
    verdicts = {}
    residual = {}
    for mi, vs in enumerate(ve):
        for v in vs:
            if v['action'] == 'RecoverOnly':
                continue
            verdicts[(mi, v['action'])] = 'ok' if v['result'] == 'ok' else ('panic' if v['result'] == 'panic' else 'err')
            evs = run.residual_points(v['events'])
            residual[(mi, v['action'])] = run.form(evs[-1]['detail']['a']) if evs else None
    want = 'ok' if honest else 'err'
    for k, got in sorted(verdicts.items()):
        ctx.expect(got == want, 'C10:verdict:%s' % (['seed', 'other-seed', 'no-seed'][k[0]] + ':' + k[1]),
                   '%s: verdict %s for view %s in %s (expected %s for every view and mode)' % (case['name'], got, ['seed', 'other-seed', 'no-seed'][k[0]], k[1], want),
                   cfg, 'verdict_depends_on_seed_or_mode')
    ref = residual.get((0, 'VerifyOnly'))
    for k, form in sorted(residual.items()):
        if k == (0, 'VerifyOnly'):
            continue
        if not ctx.expect(form is not None and ref is not None, 'C10:verdict-path', '%s: view %s/%s never reached the final comparison' % (case['name'], k[0], k[1]), cfg,
                          'verdict_depends_on_seed_or_mode'):
            continue
        for b in sorted(set(ref) | set(form)):
            fa = run.norm.frac(ref[b]) if b in ref else run.norm.fconst(0)
            fb = run.norm.frac(form[b]) if b in form else run.norm.fconst(0)
            num = (fa - fb).num
            S.sync_terms(run.T)
            if run.T.cval(num) == 0:
                ctx.D.record('syntactically-identical', 'residual identical across views', 'unsat', 0.0, 'unsat')
                continue
            ctx.solve(S, 'valid-eq', '%s: residual[%s] identical for view %s/%s' % (case['name'], run.basis_name(b), k[0], k[1]), side + ['(not (= t%d 0.0))' % num],
                      cfg=cfg, key='C10:verdict-path', pred='verdict_depends_on_seed_or_mode')
    # ---- masks
    def masks_of(mi, action):
        for v in ve[mi]:
            if v['action'] == action:
                return v
        return None
    for action in ('RecoverAndVerify', 'RecoverOnly'):
        v0, v1, v2 = masks_of(0, action), masks_of(1, action), masks_of(2, action)
        if honest or action == 'RecoverOnly':
            # right seed: exact mask (C09); other seed: a value, no error, different from the mask; no seed: None
            for v, nm in ((v0, 'seed'), (v1, 'other-seed'), (v2, 'no-seed')):
                ctx.expect(v['result'] == 'ok', 'C10:recover-error:' + nm, '%s: %s with view %s returned %s' % (case['name'], action, nm, v['result']), cfg, 'mask_wrong',
                           {'expect_wrong_seed': True})
            if v2['result'] == 'ok':
                ctx.expect(v2['masks'] == [None], 'C10:no-seed-mask', '%s: a mask was returned without a seed' % case['name'], cfg, None)
            if v1['result'] == 'ok' and v1['masks'][0] is not None and honest:
                for kk, (got, want_) in enumerate(zip(v1['masks'][0], blind)):
                    diff = run.norm.frac(got) - run.norm.frac(want_)
                    sh_equal = run.core['shadows'][got] == run.core['shadows'][want_]
                    ctx.expect(not sh_equal, 'C10:wrong-seed-recovers', '%s: another seed recovered the true mask component %d' % (case['name'], kk), cfg, 'wrong_seed_recovers')
                    ctx.solve_nonzero(S, run, '%s: recovered(other seed)[%d] - r_%d' % (case['name'], kk, kk), diff.num, side,
                                      cfg=cfg, key='C10:wrong-seed-recovers', pred='wrong_seed_recovers')
            elif honest:
                ctx.expect(False, 'C10:wrong-seed-none', '%s: no value returned for another seed' % case['name'], cfg, None)
    # every seed-derived nonce is keyed by the WHOLE seed element (00 | seed | indexes): two different seeds never share a key
    if honest and 'other seed = 0' not in case['name']:      # (a literal zero seed merges with the literal prefix of the key: layout checked on the symbolic seeds)
        lv = LogView(run.core)
        seeds = {v['name'] for v in run.core['vars'] if v['kind'] == 'seed'}
        okk = len(run.core['blake']) > 0
        for rec in run.core['blake']:
            d = [lv.piece_desc(p) for p in rec['key']]
            okk = okk and len(d) == 3 and d[0] == ('lit', '00') and d[1][0] == 'scalar' and d[2][0] == 'lit' and rec['key_len'] == 33 + len(d[2][1]) // 2
        ctx.expect(okk, 'C10:nonce-not-keyed-by-whole-seed', '%s: a recovery nonce is not keyed by 00 | <whole seed element> | indexes' % case['name'], cfg, 'wrong_seed_topbyte')
    # RecoverOnly returns the same masks as RecoverAndVerify for every accepted proof
    if honest:
        for mi in range(3):
            a, b = masks_of(mi, 'RecoverAndVerify'), masks_of(mi, 'RecoverOnly')
            if a['result'] == 'ok' and b['result'] == 'ok':
                ma, mb = a['masks'], b['masks']
                shape = len(ma) == len(mb) and all((x is None) == (y is None) and (x is None or len(x) == len(y)) for x, y in zip(ma, mb))
                if not ctx.expect(shape, 'C10:recover-only-differs', '%s: RecoverOnly and RecoverAndVerify return masks of different shape (view %d)' % (case['name'], mi), cfg, 'mask_wrong'):
                    continue
                for x, y in zip(ma, mb):
                    for kk, (hx, hy) in enumerate(zip(x or [], y or [])):
                        if hx == hy:
                            continue
                        # different terms: equal as functions?  (a concrete disagreement at the shadow point settles it; otherwise the solver decides)
                        if not ctx.expect(run.core['shadows'][hx] == run.core['shadows'][hy], 'C10:recover-only-differs',
                                          '%s: RecoverOnly and RecoverAndVerify masks differ (view %d, component %d)' % (case['name'], mi, kk), cfg, 'recover_only_differs'):
                            continue
                        num = (run.norm.frac(hx) - run.norm.frac(hy)).num
                        S.sync_terms(run.T)
                        if run.T.cval(num) == 0:
                            continue
                        ctx.solve(S, 'valid-eq', '%s: RecoverOnly mask[%d] == RecoverAndVerify mask[%d] (view %d)' % (case['name'], kk, kk, mi), side + ['(not (= t%d 0.0))' % num],
                                  cfg=cfg, key='C10:recover-only-differs', pred='recover_only_differs')


def run(ctx):
    parallel_cases(ctx, cases(ctx.tier), analyse)
    bounds = {'configurations': 'aggregation 1; (n, x, cap) over a sub-lattice; honest and three altered proofs', 'within': 'two distinct seed variables, all proof contents symbolic'}
    return finish(ctx, [A_ALL[k] for k in ('A1', 'A2', 'A4', 'A5', 'HOOK')], FUNCS, bounds, ['aggregated statements (no seed allowed)', 'nonce collisions between different seeds (A1)'],
                  'three views of one proof (prover\'s seed / another seed / none) x three modes: verdicts equal (structural), residual linear forms equal per basis element (valid-eq), '
                  'recovered(other seed) - mask not identically zero (sat witness), RecoverOnly masks == RecoverAndVerify masks')
