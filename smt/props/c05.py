"""C05 statement binding — Engine S (DESIGN.md §5 C05)"""
from props.common import *
from props.c02 import ilog2

FUNCS = ['RangeProof::verify_batch', 'RangeProof::verify', 'RangeProof::verify_statements_and_generators_consistency', 'RangeProof::from_bytes', 'RangeProof::to_bytes',
         'RangeProof::prove_with_rng', 'RangeStatement::init', 'RangeProofTranscript::*']


def configs(tier):
    if tier == 'quick':
        return [(8, 1, 1, 1, True), (2, 2, 4, 2, False), (4, 4, 4, 1, False), (2, 1, 1, 6, True), (1, 8, 8, 1, False)]
    return [(8, 1, 1, 1, True), (2, 2, 4, 2, False), (4, 4, 4, 1, False), (64, 1, 2, 1, True), (16, 2, 2, 6, False), (1, 2, 2, 3, False), (8, 8, 8, 2, False), (32, 1, 1, 4, False)]


def cases(tier):
    out = []
    for (n, m, cap, x, seeded) in configs(tier):
        rounds = ilog2(n * m)
        base = {'m': m, 'cap': cap, 'seeded': seeded, 'values': 'sym', 'promises': [('sym' if j == 0 else None) for j in range(m)]}
        def add(name, **kw):
            mem = dict(base)
            top = {}
            for k, v in kw.items():
                if k in ('tamper', 'tamper_statement', 'verify_label'):
                    mem[k] = v
                else:
                    top[k] = v
            cfg = dict({'scenario': 'batch', 'n': n, 'x': x, 'members': [mem], 'actions': ['VerifyOnly', 'RecoverAndVerify']}, **top)
            out.append({'cfg': cfg, 'name': '%s (n%d m%d c%d x%d)' % (name, n, m, cap, x), 'alter': name, **{k: v for k, v in kw.items() if k == 'scalar_elem'}})
        nelem = x + 5 + 2 * rounds
        for e in range(nelem):
            is_scalar = e < x or e in (x + 3, x + 4)
            if is_scalar:
                add('proof scalar element %d += delta' % e, tamper={'op': 'scalar_add_delta', 'elem': e}, scalar_elem=e)
                add('proof scalar element %d re-encoded non-canonically' % e, tamper={'op': 'scalar_noncanonical', 'elem': e})
            else:
                for bs in ({'b': 'h'}, {'b': 'g', 'k': x - 1}, {'b': 'G', 'i': 0}, {'b': 'H', 'i': n * m - 1}, {'b': 'free'}):
                    if tier == 'quick' and bs['b'] in ('g', 'H') and e % 2 == 0:
                        continue
                    add('proof point element %d += delta*%s' % (e, bs['b']), tamper={'op': 'point_add_delta_basis', 'elem': e, 'basis': bs})
                add('proof point element %d opaque' % e, tamper={'op': 'elem_opaque', 'elem': e})
        if rounds >= 1:
            add('swap L0 and R0', tamper={'op': 'swap', 'elem': x + 5, 'with': x + 6})
            add('swap A and A1', tamper={'op': 'swap', 'elem': x, 'with': x + 1})
        add('one more folding round', tamper={'op': 'add_round'})
        # round counts at and beyond the word size: the round-count guard must refuse them with an error (no shift overflow)
        for total in (31, 32, 63, 64, 65):
            add('padded to %d folding rounds' % total, tamper={'op': 'add_round', 'count': total - rounds})
        if rounds >= 2:
            add('one folding round fewer', tamper={'op': 'drop_round'})
        for tag in range(1, 7):
            if tag != x:
                add('extension tag %d' % tag, tamper={'op': 'tag', 'tag': tag})
        # the tag BYTE replaced by values that share bits with the right one (same low nibble, a high bit set): refused by the decoder or by the verifier
        for t in sorted({x | 0x10, x | 0x80, x | 0xf0, x | 0x40, (x << 4) & 0xff, x | 0x08} - {x}):
            add('extension tag byte set to 0x%02x' % t, tamper={'op': 'tag_only', 'tag': t})
        for j in range(m):
            for bs in ({'b': 'h'}, {'b': 'g', 'k': 0}, {'b': 'free'}):
                add('commitment %d += delta*%s' % (j, bs['b']), tamper_statement={'op': 'commitment_add_delta_basis', 'j': j, 'basis': bs})
            add('promise %d replaced' % j, tamper_statement={'op': 'promise', 'j': j, 'value': 'sym', 'concrete': '11'} if n >= 4 else {'op': 'promise', 'j': j, 'value': 'other'})
        if m >= 2:
            add('commitments 0 and 1 swapped', tamper_statement={'op': 'swap_commitments', 'i': 0, 'j': 1})
        if n * 2 <= 64:
            add('bit length doubled', tamper_statement={'op': 'bit_length', 'n': n * 2})
        if n >= 2:
            add('bit length halved', tamper_statement={'op': 'bit_length', 'n': n // 2})
        add('value generator replaced', tamper_statement={'op': 'h_base'})
        add('value generator replaced in a clone of the generators the prover used', tamper_statement={'op': 'h_base', 'from_used': True})
        add('blinding generator %d replaced in a clone of the generators the prover used' % (x - 1), tamper_statement={'op': 'g_base', 'k': x - 1, 'from_used': True})
        add('a blinding generator appended', tamper_statement={'op': 'g_append'})
        if x > 1:
            add('the last blinding generator removed', tamper_statement={'op': 'g_drop_last'})
        for k in range(x):
            add('blinding generator %d replaced' % k, tamper_statement={'op': 'g_base', 'k': k})
        add('transcript initial state', verify_label='alt')
        for other in (x - 1, x + 1):
            if 1 <= other <= 6:
                add('extension-degree tag of the generators set to %d' % other, tamper_statement={'op': 'degree_tag', 'x': other})
    # the altered triple inside a batch: largest / not first positions (generator checks are per batch)
    for (n, x) in [(4, 1), (2, 2)]:
        small = {'m': 1, 'cap': 1}
        for ts in ({'op': 'h_base'}, {'op': 'g_base', 'k': x - 1}, {'op': 'bit_length', 'n': 2 * n}, {'op': 'g_append'}) + (({'op': 'g_drop_last'},) if x > 1 else ()):
            for order in ([0, 1], [1, 0], [0, 1, 0], [0, 2], [0, 0, 2]):
                big = {'m': 2, 'cap': 2, 'tamper_statement': ts}
                same = {'m': 1, 'cap': 1, 'tamper_statement': ts}    # the altered member is no larger than the others (nothing else distinguishes it)
                members = [[small, big, same][o] for o in order]
                cfg = {'scenario': 'batch', 'n': n, 'x': x, 'members': members, 'actions': ['VerifyOnly', 'RecoverAndVerify']}
                out.append({'cfg': cfg, 'name': 'batch %s with the larger member altered: %s (n%d x%d)' % (order, ts['op'], n, x), 'alter': 'batch:' + ts['op']})
    # the blinding-generator vector of a member that is neither first nor largest
    for (n, x) in [(4, 1), (4, 2)]:
        for ts in ({'op': 'g_append'},) + (({'op': 'g_drop_last'},) if x > 1 else ()) + ({'op': 'g_base', 'k': x - 1}, {'op': 'h_base'}):
            for pos in (1, 2):
                members = [{'m': 2, 'cap': 2}, {'m': 1, 'cap': 2}, {'m': 1, 'cap': 2}]
                members[pos] = dict(members[pos], tamper_statement=ts)
                out.append({'cfg': {'scenario': 'batch', 'n': n, 'x': x, 'members': members, 'actions': ['VerifyOnly', 'RecoverAndVerify']},
                            'name': 'batch of 3: generators of member %d altered: %s (n%d x%d)' % (pos, ts['op'], n, x), 'alter': 'batch:' + ts['op']})
    # the caller transcript of ONE member of a batch replaced (each position), members with a common or with their own contexts
    for own in (False, True):
        for k in (2, 3):
            for pos in range(k):
                members = [dict({'m': 1 if i != 1 else 2, 'cap': 2}, **({'label': 'member %d' % i} if own else {})) for i in range(k)]
                members[pos] = dict(members[pos], verify_label='alt')
                cfg = {'scenario': 'batch', 'n': 4, 'x': 1, 'members': members, 'actions': ['VerifyOnly', 'RecoverAndVerify']}
                out.append({'cfg': cfg, 'name': 'batch of %d (%s contexts): transcript of member %d replaced (n4 x1)' % (k, 'own' if own else 'one common', pos), 'alter': 'batch:transcript'})
    # the accepted triple and an ALTERED COPY of it in one batch (same proof bytes, same commitments and promises: only the component that is
    # bound through the transcript differs), in both orders and behind another member
    for (n, x, m) in [(8, 1, 1), (4, 2, 2)]:
        good = {'m': m, 'cap': m, 'name_idx': 0, 'label': 'member 0'}
        for alt_name, alt in (('transcript', {'verify_label': 'alt'}), ('commitment', {'tamper_statement': {'op': 'commitment_add_delta_basis', 'j': m - 1, 'basis': {'b': 'h'}}}),
                              ('promise', {'tamper_statement': {'op': 'promise', 'j': 0, 'value': 'other'}})):
            copy = dict(good, rng_replay_of=0, **alt)
            other = {'m': 1, 'cap': m, 'label': 'member 2', 'name_idx': 2}
            for members in ([good, copy], [good, other, copy], [good, copy, copy]):
                cfg = {'scenario': 'batch', 'n': n, 'x': x, 'members': [dict(mm) for mm in members], 'actions': ['VerifyOnly', 'RecoverAndVerify']}
                out.append({'cfg': cfg, 'name': 'batch of %d: the accepted triple and a copy with altered %s (n%d x%d m%d)' % (len(members), alt_name, n, x, m), 'alter': 'batch:copy-' + alt_name})
    return out


def analyse(ctx, case, run, S):
    cfg = case['cfg']
    if not ctx.expect(all(p['result'] == 'ok' for p in run.out['prove']) and run.out['verify'] is not None, 'C05:prove', 'honest prover failed (%s)' % case['name'], cfg, 'honest_rejected'):
        return
    ti = run.out['tamper'][0] if run.out.get('tamper') else None
    key = 'C05:' + case['alter'].split(' (')[0]
    if 'non-canonically' in case['alter']:
        # the altered byte string must already be refused by the decoder
        ctx.expect(ti is not None and ti.get('decoded') is False, 'C05:noncanonical-scalar', '%s: the re-encoded proof was decoded' % case['name'], cfg, 'noncanonical_accepted')
        return
    if 'tag byte' in case['alter'] and ti is not None and ti.get('decoded') is False:
        ctx.expect(True, key, '', cfg)      # refused by the decoder: an error value
        return
    for v in run.out['verify']:
        if v['result'] == 'panic':
            ctx.expect(False, key + ':panic', '%s: PANIC in %s' % (case['name'], v['action']), cfg, 'any_panic')
            continue
        rejected = isinstance(v['result'], dict)
        ctx.expect(rejected, key + ':accepted', '%s: altered triple ACCEPTED (%s)' % (case['name'], v['action']), cfg, 'tampered_accepted')
        evs = run.residual_points(v['events'])
        if not evs:
            continue            # refused structurally before the comparison
        form = run.form(evs[-1]['detail']['a'])
        side = run.side_conditions()
        pcs = run.path_condition()
        cand = [(b, nid) for b, nid in sorted(form.items()) if run.core['shadows'][nid] != '0']
        if not ctx.expect(len(cand) > 0, key + ':residual-zero', '%s: the verification equation does not change with the alteration (%s)' % (case['name'], v['action']), cfg, 'tampered_accepted'):
            continue
        if 'scalar_elem' in case and ti and 'delta' in ti:
            # for EVERY delta != 0 and every admissible challenge value some coefficient is non-zero
            dnum = run.norm.nm(ti['delta'])[0]
            ok = False
            for b, nid in cand[:4]:
                num = run.norm.nm(nid)[0]
                ans, dt, _ = S.check(side + pcs + run.atom_conditions() + ['(not (= t%d 0.0))' % dnum, '(= t%d 0.0)' % num])
                ctx.D.stats['solver_time_s'] += dt
                if ans == 'unsat':
                    ok = True
                    ctx.D.record('never-zero', '%s residual[%s] for every delta != 0' % (case['name'], run.basis_name(b)), 'unsat', 0.0, 'unsat',
                                 '(assert (not (= t%d 0.0)))\n(assert (= t%d 0.0))' % (dnum, num))
                    break
            if not ok:
                ctx.D.record('never-zero', '%s: no coefficient is non-zero for every delta' % case['name'], 'sat', 0.0, 'unsat')
                ctx.findings.append(Finding(ctx.pid, key + ':delta-can-cancel', '%s: no coefficient of the residual is non-zero for every delta != 0' % case['name'], cfg, 'tampered_accepted'))
        else:
            b, nid = cand[0]
            num = run.norm.nm(nid)[0]
            ctx.solve_nonzero(S, run, '%s residual[%s] (%s)' % (case['name'], run.basis_name(b), v['action']), num, side,
                              cfg=cfg, key=key + ':residual-zero', pred='tampered_accepted')


def run(ctx):
    parallel_cases(ctx, cases(ctx.tier), analyse)
    bounds = {'configurations': str(configs(ctx.tier)), 'alterations': 'every proof element (5 + x + 2 log2(nm)), every commitment, promise, generator, bit length, tag, round count, transcript context; the altered triple also inside batches',
              'within': 'the accepted triple is the symbolic honest run; alterations are +delta*X with delta a fresh non-zero variable, X ranging over generators and a free point'}
    outside = ['alterations an attacker would have to solve for (soundness: C02 + the paper)', 'probability <= deg/l accidents (A1)']
    return finish(ctx, [A_ALL[k] for k in ('A1', 'A2', 'A3', 'A4', 'A5', 'HOOK')], FUNCS, bounds, outside,
                  'one case = one alteration of one component; structural: Err (never Ok, never panic) in VerifyOnly and RecoverAndVerify; solver: scalar alterations leave a coefficient that is non-zero for every delta != 0 '
                  'and every non-zero challenge (never-zero), point/statement alterations leave a residual that is not identically zero (sat witness)')
