"""C08 batch weighting — Engine S (DESIGN.md §5 C08)"""
from props.common import *
from props.c02 import ilog2
from inject import Injectivity

FUNCS = ['RangeProof::verify_batch', 'RangeProof::verify', 'RangeProofTranscript::{new,challenges_y_z,challenge_round_e,challenge_final_e,to_verifier_rng,build_rng}',
         'NullRng::fill_bytes', 'ScalarProtocol::random_not_zero', 'RangeProof::from_bytes']


def batches(tier):
    import itertools
    b = [(8, 1, [(1, 1), (2, 2)]), (8, 1, [(1, 1), (1, 1)]), (4, 2, [(2, 2), (2, 2), (1, 1)]), (2, 6, [(1, 1), (1, 1)]), (2, 1, [(8, 8), (1, 8)])]
    # three different aggregation factors under one capacity, in EVERY order (which member is the largest, and where it stands, matters to the verifier)
    b += [(2, 2 if i == 0 else 1, list(p)) for i, p in enumerate(itertools.permutations([(2, 4), (1, 4), (4, 4)]))]
    if tier != 'quick':
        b += [(2, 1, [(1, 1), (2, 2), (4, 4), (1, 2), (2, 8)]), (64, 1, [(1, 1), (1, 2), (1, 1)]), (8, 3, [(4, 4), (1, 1)]), (16, 6, [(1, 1), (2, 2)])]
    return b


def cases(tier):
    out = []
    for (n, x, mems) in batches(tier):
        cfg = {'scenario': 'adversarial', 'n': n, 'x': x,
               'members': [{'m': m, 'cap': cap, 'rounds': ilog2(n * m), 'promises': [('sym' if j == 0 else None) for j in range(m)]} for (m, cap) in mems],
               'actions': ['VerifyOnly', 'RecoverAndVerify']}
        out.append({'cfg': cfg, 'kind': 'adversarial', 'name': 'k=%d n%d x%d %s' % (len(mems), n, x, mems)})
    # the very same proof BYTES presented by several members under different statements (a wallet trying one proof against several outputs):
    # every member still enters with its own challenges (they hash its own statement) and its own weight
    for (n, x, k, same) in [(8, 1, 3, [None, 0, 0]), (4, 2, 4, [None, 0, None, 2]), (2, 1, 3, [None, None, 1])]:
        cfg = {'scenario': 'adversarial', 'n': n, 'x': x,
               'members': [dict({'m': 1, 'cap': 1, 'rounds': ilog2(n), 'promises': ['sym']}, **({'same_proof_as': sp} if sp is not None else {})) for sp in same],
               'actions': ['VerifyOnly', 'RecoverAndVerify']}
        out.append({'cfg': cfg, 'kind': 'adversarial', 'name': 'k=%d n%d x%d, members presenting the same proof bytes: %s' % (k, n, x, same)})
    # offsetting defects on honest proofs: +delta in one member, -delta in another, same coordinate
    for (n, x, k) in ([(8, 1, 2), (4, 2, 3)] if tier == 'quick' else [(8, 1, 2), (4, 2, 3), (64, 1, 2), (2, 6, 5)]):
        for coord in range(min(x, 2)):
            for (i, j) in [(0, k - 1)] + ([(1, 0)] if k > 2 else []):
                members = []
                for t in range(k):
                    mc = {'m': 1 if t % 2 == 0 else 2, 'cap': 2}
                    if t == i:
                        mc['tamper'] = {'op': 'scalar_add_delta', 'elem': coord, 'shared': True, 'name': 'c'}
                    if t == j:
                        mc['tamper'] = {'op': 'scalar_add_delta', 'elem': coord, 'shared': True, 'name': 'c', 'neg': True}
                    members.append(mc)
                cfg = {'scenario': 'batch', 'n': n, 'x': x, 'members': members, 'actions': ['VerifyOnly', 'RecoverAndVerify']}
                out.append({'cfg': cfg, 'kind': 'cancel', 'pair': (i, j), 'coord': coord, 'name': 'offsetting +d/-d on d1[%d] of members %d,%d (k=%d n%d x%d)' % (coord, i, j, k, n, x)})
    return out


def fold_recipe(run, k):
    """if some weight-RNG state's transcript absorbed the members' bindings FOLDED into one 8-byte value (xor / wrapping sum of the u64 each member's
    final transcript RNG gives), return that derivation as a recipe the replay crate can re-execute on the real crates for any batch size:
    {'init': label, 'entries': [{'label', 'fold': 'xor'|'add'} | {'label', 'count': True} | {'label', 'lit': hex}]}; None otherwise.
    (u64 values cannot carry provenance through integer arithmetic in the model; the registered stand-ins are recognised by value.)"""
    lv = LogView(run.core)
    regs = [(int(r['concrete']), r['rnd_blob']) for r in run.core['u64'] if 'rnd_blob' in r]
    # the documented per-member binding: first output (ctr 0) of an RNG state finalised with the null RNG
    bind = [v for v, b in regs if run.core['blobs'][b].get('ctr') == 0 and run.core['blobs'][b].get('t') == 'rnd']
    if len(bind) < k:
        return None
    import itertools
    for sid, _ in weight_state(run):
        st = run.core['rng_states'][sid]
        chain = lv.chain(st['log'])
        entries, folded = [], False
        for _, e in chain:
            if e['t'] == 'init':
                continue
            if e['t'] != 'append' or len(e['pieces']) != 1 or 'lit' not in e['pieces'][0] or e['len'] != 8:
                entries = None
                break
            val = int.from_bytes(bytes.fromhex(e['pieces'][0]['lit']), 'little')
            lab = e['label']
            hit = None
            for sub in itertools.combinations(bind, k):
                x = 0
                a = 0
                for v in sub:
                    x ^= v
                    a = (a + v) & ((1 << 64) - 1)
                if val == x:
                    hit = 'xor'
                elif val == a:
                    hit = 'add'
                if hit:
                    break
            if hit:
                entries.append({'label': lab, 'fold': hit})
                folded = True
            elif val == k:
                entries.append({'label': lab, 'count': True})
            else:
                entries.append({'label': lab, 'lit': e['pieces'][0]['lit']})
        if entries and folded:
            return {'init': chain[0][1]['label'], 'entries': entries}
    return None


def analyse(ctx, case, run, S):
    cfg = case['cfg']
    if case['kind'] == 'cancel':
        return analyse_cancel(ctx, case, run, S)
    infos = run.out['members']
    k = len(infos)
    n, x = cfg['n'], cfg['x']
    bi = basis_index(run)
    for v in run.out['verify']:
        ev = run.residual_point(v['events'])
        if not ctx.expect(ev is not None, 'C08:no-final-comparison', '%s: no final comparison' % case['name'], cfg, 'tampered_accepted'):
            continue
        ws = [s for s, napp in weight_state(run) if napp == k]
        if not ctx.expect(len(ws) >= 1, 'C08:weight-derivation', '%s: no weight RNG whose transcript absorbed one entry per member (%s)' % (case['name'], v['action']), cfg, 'weights_predictable',
                          {'weight_recipe': fold_recipe(run, k)}):
            continue
        sid = ws[-1]
        total = Lin()
        groups = []
        for i, info in enumerate(infos):
            m = cfg['members'][i]['m']
            G, H, g, h = gens_by_derivation(run, n, m, x)
            proof = adversarial_proof(run, info)
            V = [lin_of_point(run, pid) for pid in info['commitments']]
            promises = promise_fracs(run, i, info['promises'])
            try:
                ch = member_challenges(run, v['logs_after'][i])
            except (AssertionError, IndexError):
                # this member's own transcript does not hold the chain y, z, e.., e after the call: its challenges (and with them its weight binding)
                # were not derived from ITS statement and transcript
                kk = len(infos)
                ctx.expect(False, 'C08:member-not-challenged', '%s: the transcript of member %d does not hold its own challenges after %s (the member is weighted and challenged through another member)' % (
                    case['name'], i, v['action']), cfg, 'member_transcript_skipped',
                    {'replay_cfg': {'scenario': 'batch', 'n': n, 'x': x, 'members': [dict({'m': 1, 'cap': 1, 'name_idx': 0}, **({'rng_replay_of': 0} if t else {})) for t in range(kk)], 'actions': ['VerifyOnly']}})
                ch = None
                break
            spec = relation_residual(run.norm, n, m, x, ch, proof, V, promises, G, H, g, h)
            w = run.norm.fvar('rnd_%d_%d' % (sid, i))
            total.add_lin(spec, w)
            # (2) never-zero
            ctx.solve(S, 'never-zero', 'weight of member %d' % i, run.path_condition() + ['(= t%d 0.0)' % w.num], cfg=cfg, key='C08:weight-zero', pred=None)
            blobs = run.core['blobs']
            ks = [blobs[b]['k'] for b in info['elems']]
            nd1 = info['d1']
            groups.append(['elem_%d' % ks[e] for e in list(range(nd1)) + [nd1 + 3, nd1 + 4]])
            group_elems = list(range(nd1)) + [nd1 + 3, nd1 + 4]
        if ch is None:
            continue
        # (1) residual == sum_i w_i R_i with pairwise distinct weight variables
        compare_residual(ctx, run, S, cfg, run.form(ev['detail']['a']), total, '%s %s' % (case['name'], v['action']), 'C08:weighted-sum', pred='batch_relation_disagrees')
        # (3) derivation of the weights: every response scalar of every member is determined by what the weight RNG hashes
        inj = Injectivity(run)
        st = run.core['rng_states'][sid]
        zero32 = [{'lit': '00' * 32}]
        ctx.expect(st['ext'] == zero32 and not st['rekeys'], 'C08:weight-rng-external', 'the weight RNG is not finalised with the null RNG only', cfg, None)
        for i, grp in enumerate(groups):
            asserts, atoms = inj.query(('rng', sid), set(grp))
            S.sync_terms(run.T)
            ctx.solve(S, 'log-injective', 'response scalars of member %d -> every batch weight (%s)' % (i, v['action']), asserts, cfg=cfg,
                      key='C08:weights-bind-responses', pred='probe_or_weights',
                      detail={'group': grp, 'n': n, 'x': x, 'm': cfg['members'][i]['m'], 'cap': cfg['members'][i]['cap'], 'elems': list(range(x)) + [x + 3, x + 4]})
        # the u64 each member contributes comes from ITS transcript RNG, built after r1,s1,d1 were appended, external = null
        lv = LogView(run.core)
        contrib = [e for _, e in lv.appends(st['log'])]
        ok = len(contrib) == k
        for i, e in enumerate(contrib):
            p = e['pieces'][0] if e['pieces'] else {}
            reg = run.core['u64'][p['u64']] if 'u64' in p else {}
            bl = run.core['blobs'][reg['rnd_blob']] if 'rnd_blob' in reg else None
            ok = ok and e['label'] == 'proof' and bl is not None and bl['t'] == 'rnd' and bl['ctr'] == 0 \
                and run.core['rng_states'][bl['state']]['log'] == v['logs_after'][i] and run.core['rng_states'][bl['state']]['ext'] == zero32
        ctx.expect(ok, 'C08:weight-transcript', '%s: weight transcript is not ("proof", first output of member i\'s final transcript RNG) per member in order' % case['name'], cfg, 'weights_predictable')
    if len(ctx.case_samples) < 2:
        ctx.case_samples.append({'scenario': cfg, 'dag_nodes': len(run.core['nodes'])})


def analyse_cancel(ctx, case, run, S):
    cfg = case['cfg']
    if not ctx.expect(all(p['result'] == 'ok' for p in run.out['prove']) and run.out['verify'] is not None, 'C08:prove', 'honest provers failed', cfg, 'honest_rejected'):
        return
    i, j = case['pair']
    x = cfg['x']
    bi = basis_index(run)
    gk = bi['g<RISTRETTO_MASKING_BASEPOINT_%d>' % (case['coord'] + 1)]
    delta = run.norm.fvar('delta_shared_c')
    k = len(cfg['members'])
    for v in run.out['verify']:
        ctx.expect(isinstance(v['result'], dict), 'C08:offsetting-accepted', '%s: batch with offsetting defects was ACCEPTED (%s)' % (case['name'], v['action']),
                   cfg, 'tampered_accepted')
        ev = run.residual_point(v['events'])
        if ev is None:
            continue
        form = run.form(ev['detail']['a'])
        ws = [s for s, napp in weight_state(run) if napp == k]
        if not ws:
            continue
        sid = ws[-1]
        wi, wj = run.norm.fvar('rnd_%d_%d' % (sid, i)), run.norm.fvar('rnd_%d_%d' % (sid, j))
        expected = (wi - wj) * delta
        got = run.norm.frac(form[gk]) if gk in form else run.norm.fconst(0)
        num = (got - expected).num
        S.sync_terms(run.T)
        side = run.side_conditions()
        ctx.solve(S, 'valid-eq', '%s: residual[g_%d] == (w_i - w_j)*delta (%s)' % (case['name'], case['coord'], v['action']), side + ['(not (= t%d 0.0))' % num],
                  cfg=cfg, key='C08:offsetting-coefficient', pred='tampered_accepted')
        # and that polynomial is not identically zero: a satisfying assignment must exist (and the F_l shadow is non-zero)
        ctx.solve_nonzero(S, run, '%s: (w_i - w_j)*delta' % case['name'], expected.num, [], cfg=cfg, key='C08:offsetting-nonzero', pred='tampered_accepted')
        # every other coefficient is identically zero (the two members are otherwise honest)
        for b, nid in form.items():
            if b == gk:
                continue
            nn = run.norm.nm(nid)[0]
            S.sync_terms(run.T)
            if run.T.cval(nn) == 0:
                continue
            ctx.solve(S, 'valid-zero', '%s residual[%s]' % (case['name'], run.basis_name(b)), side + ['(not (= t%d 0.0))' % nn], cfg=cfg, key='C08:offsetting-other', pred=None)


def run(ctx):
    parallel_cases(ctx, cases(ctx.tier), analyse)
    bounds = {'batches': 'k in {2,3} quick, up to 5 thorough; members mix aggregation 1..4 and capacities', 'within': 'all proof elements, commitments, promises, challenges symbolic',
              'enumerated': ['batch composition', 'offsetting pair (i,j) and blinding coordinate']}
    outside = ['adaptive attacks that grind the hash (A1)', 'k > 5']
    return finish(ctx, [A_ALL[k] for k in ('A1', 'A2', 'A3', 'A4', 'A5')], FUNCS, bounds, outside,
                  'adversarial batch: residual == sum_i w_i * (paper relation of member i) per basis element with DISTINCT weight variables, each weight non-zero, '
                  'and the weight RNG input determines (r1,s1,d1) of every member (two-copy injectivity query); offsetting case: residual[g_k] == (w_i-w_j)*delta, not identically zero')
