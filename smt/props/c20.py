"""C20 secrets are wiped from heap memory before it is released — Engine K (Kani/CBMC, freed-block inspection) for the owning types and
nonce(); concrete allocator scan on the real crates (stated as such) for the prover / verifier temporaries and the statement seed"""
import subprocess, re
from props.common import *

NEEDS_SYMX = False
FUNCS = ['Drop for CommitmentOpening / RangeWitness / ExtendedMask (zeroize derive)', 'utils::generic::nonce (through verif_hooks re-export)', 'Drop for RangeStatement (concrete)',
         'RangeProof::prove_with_rng, RangeProof::verify_batch temporaries (concrete)']
HARNESSES = {
    'opening_drop_wipes_1': ('opening', {'what': 'opening', 'x': 1}),
    'opening_drop_wipes_2': ('opening', {'what': 'opening', 'x': 2}),
    'mask_drop_wipes': ('mask', {'what': 'mask', 'x': 2}),
    'witness_drop_wipes': ('witness', {'what': 'witness', 'x': 1, 'm': 2}),
    'nonce_frees_no_seed_bytes_none_none': ('nonce', {'what': 'prove', 'x': 1, 'm': 1, 'n': 64}),
    'nonce_frees_no_seed_bytes_none_k': ('nonce', {'what': 'prove', 'x': 2, 'm': 1, 'n': 64}),
    'nonce_frees_no_seed_bytes_j_k': ('nonce', {'what': 'verify_recover', 'x': 2, 'm': 1, 'n': 64}),
    'witness_plain_vec_is_dirty': ('vacuity-twin', None),
    'statement_drop_clears_seed': ('statement', {'what': 'statement', 'x': 1, 'm': 1, 'n': 8}),
}
SLOW = {'statement_drop_clears_seed'}    # ~8 min (unwind 140 through generator construction): thorough tier only


def run_kani(ctx):
    """two Kani runs: the drop harnesses (and the vacuity twin) first, the nonce() harnesses second with their own time limit — CBMC's time on nonce()
    depends strongly on how the key buffer is written (a Vec with pushes: 20 s per harness; a stack array filled through an iterator chain: no result
    in 25 min), and a run that does not finish must not take the other harnesses' results with it"""
    first = [h for h, (kind, _) in HARNESSES.items() if kind != 'nonce' and not (ctx.quick() and h in SLOW)]
    second = [h for h, (kind, _) in HARNESSES.items() if kind == 'nonce']
    r1, w1, _ = run_kani_on(ctx, first, 1500 if ctx.quick() else 3600, nonce_group=False)
    r2, w2, timed_out = run_kani_on(ctx, second, 600 if ctx.quick() else 1800, nonce_group=True)
    r1.update(r2)
    ctx.extra['kani_nonce_group_timed_out'] = timed_out
    return r1, w1 + w2


def run_kani_on(ctx, names, limit, nonce_group):
    env = dict(os.environ, CARGO_NET_OFFLINE='true', RUSTFLAGS='--cfg bpp_verif')
    cmd = ['cargo', 'kani', '-Z', 'stubbing', '--target-dir', os.path.join(BUILD, 'kani'), '--output-format', 'terse']
    for h in names:
        cmd += ['--harness', h]
    t0 = time.time()
    timed_out = False
    # own process group: on a time-out only THIS run's cargo-kani / cbmc processes are killed (a machine-wide `pkill cbmc` would take down the
    # harnesses of any other check running at the same time, which Kani then reports as FAILED without naming a failed check)
    import signal
    proc = subprocess.Popen(['bash', '-c', 'ulimit -v 24000000; exec "$@"', 'kani'] + cmd, cwd=os.path.join(VERIF, 'kani'), env=env, stdout=subprocess.PIPE, stderr=subprocess.STDOUT, text=True,
                            start_new_session=True)
    try:
        out, _ = proc.communicate(timeout=limit)
    except subprocess.TimeoutExpired:
        try:
            os.killpg(proc.pid, signal.SIGKILL)
        except ProcessLookupError:
            pass
        out, _ = proc.communicate()
        out = out or ''
        timed_out = True
        if not nonce_group:
            ctx.inconclusive.append('Kani run exceeded %d s' % limit)
    wall = time.time() - t0
    results = {}
    cur = None
    for line in out.splitlines():
        m = re.match(r'Checking harness harnesses::(\w+)', line)
        if m:
            cur = m.group(1)
            results[cur] = {'verdict': None, 'failed': [], 'cover': None, 'time_s': None, 'checks': None, 'stubs': []}
            continue
        if cur is None:
            continue
        m = re.match(r'\s*- Stub: (.*)', line)
        if m:
            results[cur]['stubs'].append(m.group(1).replace(' ', ''))
        m = re.match(r'\s*\*\* (\d+) of (\d+) failed', line)
        if m:
            results[cur]['checks'] = int(m.group(2))
        m = re.match(r'Failed Checks: (.*)', line)
        if m:
            results[cur]['failed'].append(m.group(1))
        m = re.match(r'\s*\*\* (\d+) of (\d+) cover properties satisfied', line)
        if m:
            results[cur]['cover'] = (int(m.group(1)), int(m.group(2)))
        m = re.match(r'VERIFICATION:- (\w+)', line)
        if m:
            results[cur]['verdict'] = m.group(1)
        m = re.match(r'Verification Time: ([\d.]+)s', line)
        if m:
            results[cur]['time_s'] = float(m.group(1))
        if 'out of memory' in line or 'unwinding assertion' in line:
            results[cur]['failed'].append(line.strip())
    if not results and not (nonce_group and timed_out):
        ctx.inconclusive.append('Kani produced no harness results: %s' % out[-1500:])
    return results, wall, timed_out


def run(ctx):
    results, wall = run_kani(ctx)
    for h, (kind, rcfg) in HARNESSES.items():
        if ctx.quick() and h in SLOW:
            continue
        r = results.get(h)
        # (a harness that was being solved when the group's time limit struck is reported by Kani as FAILED without naming any failed check)
        if kind == 'nonce' and ctx.extra.get('kani_nonce_group_timed_out') and (r is None or r['verdict'] is None or (r['verdict'] == 'FAILED' and not r['failed'])):
            # not a verdict: CBMC did not finish on this tree's shape of nonce(). The concrete allocator scan below runs the same function on the
            # real crates with a marker seed (30 derivations per seeded prove / recovering verify) and decides the enumerated cases.
            ctx.m_note('Kani harness %s' % h, 'CBMC did not finish within the time limit on this tree (the key buffer of nonce() is written in a shape it does not terminate on); '
                       'the concrete allocator scan of seeded prove / recovering verify covers nonce() on the real crates')
            continue
        if r is None:
            ctx.inconclusive.append('Kani harness %s did not run' % h)
            continue
        dt = r['time_s'] or 0.0
        need = {'alloc::alloc::dealloc_nonnull->checking_dealloc_nn', 'zeroize::barrier::optimization_barrier->no_barrier'}
        if not need.issubset(set(r['stubs'])):
            ctx.inconclusive.append('Kani harness %s: the dealloc / barrier stubs were not applied (%s)' % (h, r['stubs']))
            continue
        if kind == 'vacuity-twin':
            ok = r['verdict'] == 'SUCCESSFUL' and r['cover'] == (1, 1)
            ctx.D.record('kani-cover', '%s: a plain Vec<Scalar> IS reported dirty by the same machinery (reachability / vacuity witness)' % h, 'sat' if ok else 'unknown', dt, 'sat',
                         'kani::cover!(DIRTY == 1) -> %s' % (r['cover'],))
            if not ok:
                ctx.inconclusive.append('vacuity witness %s not satisfied: %s' % (h, r))
            continue
        dirty = [f for f in r['failed'] if 'DIRTY == 0' in f or 'seed_nonce.is_none()' in f]
        other = [f for f in r['failed'] if not ('DIRTY == 0' in f or 'seed_nonce.is_none()' in f)]
        if r['verdict'] == 'SUCCESSFUL':
            ctx.D.record('kani', '%s: no freed block contains a secret byte, for all secret bytes (%d CBMC checks)' % (h, r['checks'] or 0), 'unsat', dt, 'unsat', 'cargo kani --harness %s' % h)
        elif dirty and not other:
            ctx.D.record('kani', '%s' % h, 'sat', dt, 'unsat', 'cargo kani --harness %s' % h)
            ctx.findings.append(Finding('C20', 'C20:%s-frees-secret' % kind, 'Kani: %s: a heap block is released while it still holds secret bytes' % h, {'scenario': 'zeroize', **rcfg}, 'zeroize_dirty', {}))
        else:
            ctx.D.record('kani', h, 'unknown', dt, 'unsat')
            ctx.inconclusive.append('Kani harness %s: %s %s' % (h, r['verdict'], r['failed'][:3]))
    # ---- concrete companion on the REAL crates (not solver-decided, stated): allocator that inspects every released block
    conc = []
    for cfg in ([{'what': 'opening', 'x': 2}, {'what': 'opening_spare', 'x': 1}, {'what': 'opening_spare', 'x': 3}, {'what': 'witness', 'x': 2, 'm': 4}, {'what': 'mask', 'x': 6}, {'what': 'statement', 'x': 1, 'm': 1, 'n': 8}]
                + [{'what': w, 'x': x, 'm': m, 'n': 64, 'seeded': s} for w in ('prove', 'verify_recover') for (x, m, s) in ((1, 1, True), (2, 1, True), (6, 1, True), (5, 1, True), (1, 2, False), (2, 4, False), (3, 8, False))] \
                + [{'what': w, 'x': x, 'm': m, 'n': 64, 'seeded': False} for w in ('prove_refused_g',) for (x, m) in ((1, 1), (2, 2), (6, 1))]
                + [{'what': w, 'x': x, 'm': 1, 'n': n, 'seeded': True} for w in ('verify_recover_fail', 'verify_recover_fail_batch') for (x, n) in ((1, 64), (2, 64), (6, 64))]
                + [{'what': 'prove', 'x': 1, 'm': m, 'n': 64, 'seeded': False, 'promise': True} for m in (1, 2)]
                + [{'what': 'witness_popped', 'x': x, 'm': m, 'swap_remove': sr} for (x, m, sr) in ((1, 4, False), (2, 2, False), (1, 8, True), (3, 4, True))]
                + [{'what': 'prove_refused_late', 'x': x, 'm': m, 'n': 64} for (x, m) in ((1, 2), (1, 4), (2, 4), (1, 8))]
                + [{'what': 'opening_clone_from', 'x': x} for x in (1, 2, 3)]
                + [{'what': 'verify_recover', 'x': x, 'm': 1, 'n': 64, 'seeded': True, 'zero_last_blinding': True} for x in (2, 3, 6)]
                + [{'what': 'prove_twice', 'x': x, 'm': m, 'n': 64, 'seeded': sd} for (x, m, sd) in ((1, 1, True), (2, 1, True), (1, 4, False))]):
        c = dict({'scenario': 'zeroize'}, **cfg)
        o = run_replay(c, ctx.seed)
        conc.append({'cfg': cfg, 'out': o})
        ctx.expect('crash' not in o and o.get('freed_blocks', 0) > 0, 'C20:replay-crash', 'concrete zeroize scenario failed: %s' % str(o)[:200], c, None)
        if 'crash' not in o:
            key = 'C20:%s-frees-secret' % {'prove': 'prover-temporary', 'verify_recover': 'verifier-temporary', 'verify_recover_fail': 'verifier-temporary', 'verify_recover_fail_batch': 'verifier-temporary', 'prove_refused_g': 'prover-temporary', 'prove_refused_h': 'prover-temporary', 'prove_refused_late': 'prover-temporary', 'prove_twice': 'prover-temporary', 'opening_clone_from': 'opening', 'witness_popped': 'witness', 'opening_spare': 'opening'}.get(cfg['what'], cfg['what'])
            ctx.expect(o['dirty_blocks'] == 0, key, 'concrete run on the real crates: %s (x=%s m=%s) released %d heap block(s) still holding secret bytes (e.g. one of %d bytes)' % (
                cfg['what'], cfg.get('x'), cfg.get('m'), o['dirty_blocks'], o['a_dirty_block_size']), c, 'zeroize_dirty')
    ctx.cases = len(results) + len(conc)
    ctx.extra['kani'] = {'harnesses': results, 'wall_s': round(wall, 1), 'unwind': 70, 'instantiations': 'CommitmentOpening with 1 and 2 blindings, ExtendedMask degree 2, RangeWitness 2 openings x 1 blinding, nonce() with (j,k) presence in {(None,None),(None,Some),(Some,Some)}'}
    ctx.extra['concrete_companion'] = {'runs': conc[:6], 'n': len(conc), 'note': 'ordinary executions on the real crates with secrets made of marker bytes and a global allocator that scans every released block; covers the prover / verifier / statement temporaries that are out of Kani\'s reach here'}
    return finish(ctx, [A_ALL['A6'], 'Kani stubs: alloc::alloc::dealloc_nonnull -> inspecting checker (blocks are leaked in the model), zeroize::barrier::optimization_barrier -> no-op (inline asm), '
                        'ScalarProtocol::from_hasher_blake2b -> constant, blake2 patched by the contract-only model crate kshim/blake2', 'secret bytes are constrained to >= 0x80, all public bytes in the harnesses are < 0x80'],
                  FUNCS, {'Kani': 'all values of the secret bytes; container shapes enumerated as listed; unwind 70 with unwinding assertions on', 'concrete': 'listed configurations'},
                  ['stack copies and registers', 'RangeStatement drop and the prover/verifier temporaries are covered only by the concrete allocator scan, not by Kani (generator construction and the monolithic functions are out of CBMC\'s reach, DESIGN §1.3)'],
                  'Kani harness = one obligation: "no block freed during the harness contains a byte >= 0x80", decided by CBMC for all secret values; a vacuity twin shows the checker does fire on an unwiped Vec')
