"""C12 capacity independence — Engine S (DESIGN.md §5 C12); compute_generator_padding for all usize is Engine M"""
import itertools
from props.common import *

FUNCS = ['BulletproofGens::new', 'GeneratorsChain::new', 'AggregatedGensIter::next', 'RangeParameters::init', 'RangeProof::prove_with_rng', 'RangeProof::verify_batch', 'RangeProof::verify',
         'utils::generic::compute_generator_padding', 'VartimePrecomputedMultiscalarMul (model with the backend\'s length assertions)']


def cases(tier):
    out = []
    nm = [(8, 1), (2, 2), (4, 4), (64, 1), (1, 8)] if tier == 'quick' else [(8, 1), (2, 2), (4, 4), (64, 1), (1, 8), (16, 4), (32, 2), (8, 16)]
    for (n, m) in nm:
        caps = [m, 2 * m, 4 * m] + ([8 * m] if tier != 'quick' else [])
        for cp in caps:
            for cv in caps:
                if cp == cv and cp != m:
                    continue
                cfg = {'scenario': 'batch', 'n': n, 'x': [1, 2, 6][(cp + cv + n) % 3], 'members': [{'m': m, 'cap': cp, 'values': 'sym', 'seeded': m == 1, 'tamper_statement': {'op': 'capacity', 'cap': cv}}],
                       'actions': ['VerifyOnly', 'RecoverAndVerify']}
                out.append({'cfg': cfg, 'kind': 'single', 'name': 'n%d m%d proved with capacity %d verified with %d' % (n, m, cp, cv)})
    # batches mixing capacities, every choice of "largest member", every order for k <= 3
    mixes = [[(1, 4), (2, 2)], [(1, 1), (1, 2)], [(2, 2), (1, 8), (4, 4)], [(1, 2), (1, 1), (1, 4)]]
    if tier != 'quick':
        mixes += [[(4, 8), (2, 16), (1, 1)], [(8, 8), (1, 16)], [(2, 4), (2, 2), (2, 8)]]
    for mix in mixes:
        for perm in itertools.permutations(range(len(mix))):
            members = [{'m': mm, 'cap': cc, 'values': 'sym'} for (mm, cc) in mix]
            cfg = {'scenario': 'batch', 'n': 4, 'x': 1, 'members': members, 'verify_order': list(perm), 'actions': ['VerifyOnly', 'RecoverAndVerify']}
            out.append({'cfg': cfg, 'kind': 'batch', 'name': 'batch (m,cap)=%s order %s' % (mix, list(perm))})
    # ONE parameters object (clones of it) serving aggregates of different sizes one after the other, in every order: what a call gets from the
    # object must not depend on which aggregate used it before (tables / caches kept inside or behind the object)
    for (n, x, cap, ms) in [(4, 1, 4, (4, 1, 2)), (8, 2, 2, (2, 1))] + ([(2, 3, 8, (8, 1, 4)), (64, 1, 2, (2, 1))] if tier != 'quick' else []):
        for perm in itertools.permutations(ms):
            members = [{'m': mm, 'cap': cap, 'values': 'sym', 'share_params': True, 'seeded': mm == 1, 'label': 'member %d' % i} for i, mm in enumerate(perm)]
            cfg = {'scenario': 'batch', 'n': n, 'x': x, 'members': members, 'actions': ['VerifyOnly', 'RecoverAndVerify']}
            out.append({'cfg': cfg, 'kind': 'batch', 'name': 'one parameters object (capacity %d) used for aggregates %s in this order' % (cap, list(perm))})
    return out


def analyse(ctx, case, run, S):
    cfg = case['cfg']
    if not ctx.expect(all(p['result'] == 'ok' for p in run.out['prove']) and run.out['verify'] is not None, 'C12:prove', 'honest prover failed (%s)' % case['name'], cfg, 'honest_rejected'):
        return
    for v in run.out['verify']:
        if v['result'] == 'panic':
            ctx.expect(False, 'C12:panic', '%s: PANIC (%s)' % (case['name'], v['action']), cfg, 'any_panic')
            continue
        if ctx.expect(v['result'] == 'ok', 'C12:refused', '%s: refused (%s): %s' % (case['name'], v['action'], v['result']), cfg, 'honest_rejected'):
            residual_obligations(ctx, run, S, case, v, '%s %s' % (case['name'], v['action']), 'C12')
    # generator j of party i is the same basis element whatever the capacity: all vector generators referenced in this run must be
    # named by (kind, party, index) only — the model names basis elements by their derivation input, so two capacities that derive
    # "the same" generator from different inputs would show up as two basis elements with the same (kind,party,index) name
    names = {}
    for i, b in enumerate(run.core['basis']):
        nm = run.basis_name(i)
        if nm in names:
            ctx.expect(False, 'C12:generator-derivation', '%s: two different derivations for generator %s' % (case['name'], nm), cfg, 'honest_rejected')
        names[nm] = i


def run(ctx):
    parallel_cases(ctx, cases(ctx.tier), analyse)
    bounds = {'pairs': '(c_p, c_v) in {m,2m,4m}^2 (8m thorough) for (n,m) in a sub-lattice; batches of 2-3 members mixing capacities in every order', 'within': 'all witness bits, values, blindings, nonces, challenges symbolic'}
    return finish(ctx, [A_ALL[k] for k in ('A1', 'A2', 'A4', 'A5', 'HOOK')], FUNCS, bounds, ['capacities > 8m', 'compute_generator_padding for all usize triples: Engine M (C16)'],
                  'proof made under capacity c_p, statement rebuilt with capacity c_v: verify Ok and every residual coefficient valid-zero; the model MSM asserts the real backend\'s length contracts, so a miscounted padding is a panic on the path')
