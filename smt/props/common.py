"""shared pieces of the Engine S property checks"""
import itertools
from lib import *

Q_N = [1, 2, 8, 64]
T_N = [1, 2, 4, 8, 16, 32, 64]


def lattice(tier, seeded=(False, True), max_nm_q=64, max_nm_t=256, xs_q=(1, 2, 6), xs_t=(1, 2, 3, 4, 5, 6)):
    """configurations (n, m, cap, x) of DESIGN.md §4"""
    out = []
    if tier == 'quick':
        for n in Q_N:
            for m in (1, 2, 4, 8, 16):
                if n * m > max_nm_q or (m == 16 and n > 2):
                    continue
                for cap in (m, 2 * m):
                    for x in xs_q:
                        if m >= 8 and (x == 6 or (cap != m and n > 1)):
                            continue
                        # keep the quick tier small: the large extension degrees only with small vectors or cap == m
                        if x == 6 and n * m > 16 and cap != m:
                            continue
                        out.append((n, m, cap, x))
    else:
        for n in T_N:
            for m in (1, 2, 4, 8, 16):
                if n * m > max_nm_t:
                    continue
                for cap in (m, 2 * m, 4 * m):
                    for x in xs_t:
                        if n * m >= 128 and (x not in (1, 2) or cap == 4 * m):
                            continue
                        if n * m >= 64 and x in (3, 4, 5):
                            continue
                        out.append((n, m, cap, x))
    return out


def bit_lemma(ctx, run, S, nid, label, dt0):
    """Fallback for the one coefficient that needs the bit constraints (the h coefficient) when the direct query times out:
    three solver-decided steps instead of one.  With v_j := p_j + sum b 2^i substituted (the definition of the value),
      (1) pure identity, NO side conditions:   2 N  ==  sum_i C_i * (b_i^2 - b_i),   C_i := N[b_i := -1, all other bits := 0]
      (2) b_i^2 = b_i  =>  b_i^2 - b_i = 0                                   (one trivial query)
      (3) all t_i = 0  =>  sum_i C_i t_i = 0                                 (t_i fresh reals: linear)
    Together: under the side conditions N = 0.  Returns True iff all three are discharged."""
    from dag import Norm
    hook = run.out.get('hook') or {}
    bools = [s_['node'] for s_ in hook.get('side', []) if s_['kind'] == 'bool']
    defs = [s_ for s_ in hook.get('side', []) if s_['kind'] == 'value_def']
    if not bools:
        return False
    nodes = run.core['nodes']
    vname = lambda n: run.core['vars'][nodes[n][1]]['name']
    bit_names = [vname(n) for n in bools]
    def value_subst(bitvals):
        sub = {}
        for d in defs:
            if nodes[d['v']][0] != 'v':
                continue
            def mk(norm, d=d):
                f = norm.frac(d['p'])
                for i, bn in enumerate(d['bits']):
                    f = f + norm.frac(bn) * (1 << i)
                return f
            sub[vname(d['v'])] = mk
        sub.update(bitvals)
        return sub
    T = run.T
    n0 = Norm(run.core, terms=T, subst=value_subst({}))
    N, den, _ = n0.nm(nid)
    total = None
    t0 = time.time()
    for i, bn in enumerate(bit_names):
        ni = Norm(run.core, terms=T, subst=value_subst({b: (-1 if b == bn else 0) for b in bit_names}))
        Ci, deni, _ = ni.nm(nid)
        if deni != den:
            return False
        bt = T.var(bn)
        ti = T.sub(T.mul(bt, bt), bt)
        term = T.mul(Ci, ti)
        total = term if total is None else T.add(total, term)
    lhs = T.sub(T.mul(T.const(2), N), total)
    S.sync_terms(T)
    a1, d1, _ = S.check(['(not (= t%d 0.0))' % lhs])
    ok1 = ctx.D.record('valid-zero(bit-lemma identity)', label + ': 2N == sum_i C_i (b_i^2 - b_i) with v := p + sum b 2^i, no side conditions', a1, d1 + dt0, 'unsat',
                       '(assert (not (= t%d 0.0)))' % lhs)
    if not ok1:
        ctx.inconclusive.append('bit lemma for %s: identity answered %s' % (label, a1))
        return False
    b0 = T.var(bit_names[0])
    a2, d2, _ = S.check(['(= (* t%d t%d) t%d)' % (b0, b0, b0), '(not (= (- (* t%d t%d) t%d) 0.0))' % (b0, b0, b0)])
    ctx.D.record('valid-zero(bit-lemma step)', 'b*b = b => b*b - b = 0', a2, d2, 'unsat')
    k = len(bit_names)
    decl = ' '.join('(declare-const lemma_t%d Real) (declare-const lemma_c%d Real)' % (i, i) for i in range(k))
    S.send('(push 1)')
    S.send(decl)
    zeros = ['(= lemma_t%d 0.0)' % i for i in range(k)]
    summ = '(+ %s 0.0)' % ' '.join('(* lemma_c%d lemma_t%d)' % (i, i) for i in range(k))
    a3, d3, _ = S.check(zeros + ['(not (= %s 0.0))' % summ])
    S.send('(pop 1)')
    ctx.D.record('valid-zero(bit-lemma step)', 'all t_i = 0 => sum_i C_i t_i = 0 (%d terms)' % k, a3, d3, 'unsat')
    ctx.notes.append('%s: decided through the bit lemma (%d bits, %.1fs to build)' % (label, k, time.time() - t0))
    return a2 == 'unsat' and a3 == 'unsat'


def residual_obligations(ctx, run, S, case, vout, what, key_prefix, pred='honest_rejected'):
    """valid-zero for every coefficient of the verifier's final linear form"""
    evs = run.residual_points(vout['events'])
    if not ctx.expect(len(evs) > 0, key_prefix + ':no-final-comparison', '%s: verifier never reached its final comparison' % what,
                      case['cfg'], pred):
        return 0
    side = run.side_conditions()
    S.sync_terms(run.T)
    nontrivial = 0
    done = set()
    for ev in evs:
        form = run.form(ev['detail']['a'])
        for b, nid in sorted(form.items()):
            num, den, _ = run.norm.nm(nid)
            if num in done:
                continue
            done.add(num)
            S.sync_terms(run.T)
            if run.T.cval(num) == 0:
                continue
            nontrivial += 1
            label = '%s residual[%s]' % (what, run.basis_name(b))
            ans, dt, _ = S.check(side + ['(not (= t%d 0.0))' % num])
            if ans == 'unknown' and bit_lemma(ctx, run, S, nid, label, dt):
                continue
            smt = '\n'.join('(assert %s)' % a for a in (side + ['(not (= t%d 0.0))' % num]))
            if not ctx.D.record('valid-zero', label, ans, dt, 'unsat', smt):
                if ans in ('sat', 'unsat'):
                    ctx.findings.append(Finding(ctx.pid, key_prefix + ':residual', 'valid-zero obligation %s answered %s (expected unsat)' % (label, ans), case['cfg'], pred))
                else:
                    ctx.inconclusive.append('valid-zero %s: solver answered %s' % (label, ans))
    return nontrivial


# ------------------------------------------------------------------------------------------------
# reading proofs / statements of a run as linear forms, and the comparison with the paper-form relation
from spec import Lin, relation_residual
from logs import LogView, member_challenges, weight_state


def basis_index(run):
    """name -> basis id for the named generators present in the dump"""
    return {run.basis_name(i): i for i in range(len(run.core['basis']))}


def lin_of_point(run, pid):
    return Lin({b: run.norm.frac(nid) for b, nid in run.core['points'][pid]})


def gens_by_derivation(run, n, m, x):
    """the generators a statement with (n, m, x) must use, located by their DOCUMENTED derivation
    (label 'GeneratorsChain' || G/H || LE32(party), block = index; SHA3-512 of the masking labels; basepoint)"""
    bi = basis_index(run)
    G = [bi.get('G[%d][%d]' % (j, i)) for j in range(m) for i in range(n)]
    H = [bi.get('H[%d][%d]' % (j, i)) for j in range(m) for i in range(n)]
    g = [bi.get('g<RISTRETTO_MASKING_BASEPOINT_%d>' % (k + 1)) for k in range(x)]
    h = bi.get('h')
    return G, H, g, h


def adversarial_proof(run, info):
    """proof elements of an adversarial member (opaque elements) as Lin / Frac"""
    blobs = run.core['blobs']
    nd1 = info['d1']
    ks = [blobs[b]['k'] for b in info['elems']]
    bi = basis_index(run)
    lay = info['layout']['pieces']
    # identity elements show up as literal zero bytes in the layout; detect per element from the layout
    # element e occupies bytes [1+32e, 33+32e); rebuild the per-element view from the pieces
    elems = []
    pos = 0
    for p in lay:
        if 'blob' in p:
            if pos >= 1:
                elems.append(('blob', p['blob']))
            pos += 32
        else:
            raw = bytes.fromhex(p['lit'])
            for off in range(len(raw)):
                if pos + off >= 1 and (pos + off - 1) % 32 == 0 and len(raw) - off >= 32:
                    elems.append(('lit', raw[off:off + 32]))
            pos += len(raw)
    def scalar(e):
        kind, v = elems[e]
        if kind == 'blob':
            return run.norm.fvar('elem_%d' % blobs[v]['k'])
        return run.norm.fconst(int.from_bytes(v, 'little'))
    def point(e):
        kind, v = elems[e]
        if kind == 'blob':
            b = bi.get('free%d' % (1000000 + blobs[v]['k']))
            if b is None:
                raise Inconclusive('adversarial point element %d was never decompressed' % e)
            return Lin({b: run.norm.fconst(1)})
        if v == bytes(32):
            return Lin()
        raise Inconclusive('literal point bytes')
    x = nd1
    rounds = info['rounds']
    return {'d1': [scalar(k) for k in range(x)], 'A': point(x), 'A1': point(x + 1), 'B': point(x + 2),
            'r1': scalar(x + 3), 's1': scalar(x + 4),
            'L': [point(x + 5 + 2 * j) for j in range(rounds)], 'R': [point(x + 6 + 2 * j) for j in range(rounds)]}


def promise_fracs(run, idx, pinfo):
    out = []
    for j, p in enumerate(pinfo):
        if p['p'] is None:
            out.append(None)
        elif p.get('p_sym'):
            out.append(run.norm.fvar('p_%d_%d' % (idx, j)))
        else:
            out.append(run.norm.fconst(int(p['p'])))
    return out


def compare_residual(ctx, run, S, cfg, impl_form, spec_lin, what, key, pred='tampered_accepted', side=None):
    """valid-eq(impl coefficient, spec coefficient) for every basis element of either form"""
    side = side or []
    keys = set(impl_form) | set(spec_lin.d)
    n_nontrivial = 0
    n_failed = 0
    for b in sorted(keys, key=lambda v: (v is None, v)):
        fi = run.norm.frac(impl_form[b]) if b in impl_form else run.norm.fconst(0)
        fs = spec_lin.d.get(b, run.norm.fconst(0))
        num = (fi - fs).num
        S.sync_terms(run.T)
        if run.T.cval(num) == 0:
            ctx.D.record('syntactically-identical', what, 'unsat', 0.0, 'unsat')
            continue
        n_nontrivial += 1
        ok = ctx.solve(S, 'valid-eq', '%s coefficient[%s]' % (what, run.basis_name(b) if b is not None else 'missing-generator'),
                       side + ['(not (= t%d 0.0))' % num], cfg=cfg, key=key, pred=pred)
        if ok is False:
            n_failed += 1
            if n_failed >= 12:
                # a dozen coefficients of this residual already fail (findings recorded): the remaining ones add nothing and, on a tree where the
                # relation is broken, each costs a hard satisfiable query
                ctx.notes.append('%s: stopped after %d failing coefficients' % (what, n_failed))
                break
    return n_nontrivial


def weights_of(run, k):
    """the k batch weights of a verification (variables of the weight RNG state), under the recorded non-zero path condition"""
    cands = [s for s in weight_state(run)]
    if not cands:
        raise Inconclusive('no weight RNG state found')
    return cands
