"""shared pieces of the Engine S property checks"""
import itertools
from lib import *

Q_N = [1, 2, 8, 64]
T_N = [1, 2, 4, 8, 16, 32, 64]


def lattice(tier, seeded=(False, True), max_nm_q=64, max_nm_t=256, xs_q=(1, 2, 6), xs_t=(1, 2, 3, 4, 5, 6)):
    """configurations (n, m, cap, x) of DESIGN.md §4"""
    out = []
    if tier == 'quick':
        for n in Q_N:
            for m in (1, 2, 4, 8, 16):
                if n * m > max_nm_q or (m == 16 and n > 2):
                    continue
                for cap in (m, 2 * m):
                    for x in xs_q:
                        if m >= 8 and (x == 6 or (cap != m and n > 1)):
                            continue
                        # keep the quick tier small: the large extension degrees only with small vectors or cap == m
                        if x == 6 and n * m > 16 and cap != m:
                            continue
                        out.append((n, m, cap, x))
    else:
        for n in T_N:
            for m in (1, 2, 4, 8, 16):
                if n * m > max_nm_t:
                    continue
                for cap in (m, 2 * m, 4 * m):
                    for x in xs_t:
                        if n * m >= 128 and (x not in (1, 2) or cap == 4 * m):
                            continue
                        if n * m >= 64 and x in (3, 4, 5):
                            continue
                        out.append((n, m, cap, x))
    return out


def residual_obligations(ctx, run, S, case, vout, what, key_prefix, pred='honest_rejected'):
    """valid-zero for every coefficient of the verifier's final linear form"""
    ev = run.residual_point(vout['events'])
    if not ctx.expect(ev is not None, key_prefix + ':no-final-comparison', '%s: verifier never reached its final comparison' % what,
                      case['cfg'], pred):
        return 0
    form = run.form(ev['detail']['a'])
    side = run.side_conditions()
    S.sync_terms(run.T)
    nontrivial = 0
    done = set()
    for b, nid in sorted(form.items()):
        num, den, _ = run.norm.nm(nid)
        if num in done:
            continue
        done.add(num)
        S.sync_terms(run.T)
        if run.T.cval(num) == 0:
            continue
        nontrivial += 1
        ctx.solve(S, 'valid-zero', '%s residual[%s]' % (what, run.basis_name(b)), side + ['(not (= t%d 0.0))' % num],
                  cfg=case['cfg'], key=key_prefix + ':residual', pred=pred)
    return nontrivial
