"""C18 (partial) history independence of proving / verifying / generator construction — Engine S, cross-process (DESIGN.md §5 C18)

What is decided: for every call T of a menu and every call history h of a menu (length 1 quick, length <= 2 thorough), the outputs of T
executed after h IN THE SAME PROCESS (same statics, caches, thread-locals, allocator state) are equal to the outputs of T executed first in
a fresh process — as symbolic objects: every proof scalar, every coefficient of every proof point over the generators named by derivation,
every verdict, every recovered mask component, for ALL values of blindings, seeds, nonces and challenges. Oracle outputs are renamed to a
digest of their derivation (smt/canon.py), so that equal derivations give equal variables whatever was interned before.
What is NOT decided here (stated in MANIFEST / evidence): thread schedules. The concurrency part of the property is reduced to (i) an
inventory of the crate's shared mutable state read off the compiler's MIR (every `static`, every interior-mutability type) which must
consist of once-initialised cells only, (ii) the contract of once_cell (exactly one initialiser runs, happens-before every reader),
(iii) history independence above, which includes which call triggers the initialisation. A concrete racing-first-use run on the real crates
is a companion (it can confirm a difference, it decides nothing)."""
import re, json
from props.common import *
from canon import Canon
from dag import Norm
from lib import run_symx, run_replay, Run
from solver import Session

FUNCS = ['RangeProof::prove_with_rng', 'RangeProof::verify_batch', 'RangeProof::verify', 'RangeParameters::init', 'BulletproofGens::new',
         'ristretto::create_pedersen_gens_with_extension_degree', 'ristretto::ristretto_masking_basepoints', 'ristretto::ristretto_compressed_masking_basepoints',
         'utils::generic::nonce', 'RangeProofTranscript::new']
ACTS = ['VerifyOnly', 'RecoverAndVerify', 'RecoverOnly']
U64MAX = '18446744073709551615'

TARGETS = {
    'T1 n8 x1 seeded promise': {'scenario': 'batch', 'n': 8, 'x': 1, 'members': [{'m': 1, 'cap': 1, 'seeded': True, 'values': ['200'], 'promises': ['3'], 'rng': 'const'}], 'actions': ACTS},
    'T2 n4 x2 aggregate': {'scenario': 'batch', 'n': 4, 'x': 2, 'members': [{'m': 2, 'cap': 4, 'values': ['7', '9'], 'rng': 'zero'}], 'actions': ACTS},
    'T3 n64 x3 seeded max': {'scenario': 'batch', 'n': 64, 'x': 3, 'members': [{'m': 1, 'cap': 2, 'seeded': True, 'values': [U64MAX], 'rng': 'const'}], 'actions': ACTS},
    'T4 n2 x6 m4': {'scenario': 'batch', 'n': 2, 'x': 6, 'members': [{'m': 4, 'cap': 4, 'values': ['0', '1', '2', '3'], 'rng': 'const'}], 'actions': ACTS},
    'T5 n8 x1 batch of 3': {'scenario': 'batch', 'n': 8, 'x': 1, 'members': [
        {'m': 1, 'cap': 2, 'seeded': True, 'values': ['17'], 'rng': 'const', 'label': 'member 0'},
        {'m': 2, 'cap': 2, 'values': ['255', '0'], 'rng': 'const', 'label': 'member 1'},
        {'m': 1, 'cap': 2, 'values': ['99'], 'promises': ['99'], 'rng': 'zero', 'label': 'member 2'}], 'actions': ACTS},
    'T6 gens n4 cap2 x2': {'scenario': 'gens', 'n': 4, 'cap': 2, 'x': 2},
}
# the same PARAMETERS OBJECT (clones of it) used by successive calls with different aggregation factors, in both directions
TARGETS['T7 n8 x1 cap4 shared parameters, m=1'] = {'scenario': 'batch', 'n': 8, 'x': 1, 'members': [{'m': 1, 'cap': 4, 'seeded': True, 'values': ['41'], 'rng': 'const', 'share_params': True}], 'actions': ACTS}
TARGETS['T8 n8 x1 cap4 shared parameters, m=4'] = {'scenario': 'batch', 'n': 8, 'x': 1, 'members': [{'m': 4, 'cap': 4, 'values': ['1', '20', '3', '255'], 'rng': 'zero', 'share_params': True, 'name_idx': 3}], 'actions': ACTS}
TARGETS['T9 n8 x1 cap4 shared parameters, batch m=2,1,4'] = {'scenario': 'batch', 'n': 8, 'x': 1, 'members': [
    {'m': 2, 'cap': 4, 'values': ['5', '6'], 'rng': 'const', 'share_params': True, 'label': 'member 0', 'name_idx': 4},
    {'m': 1, 'cap': 4, 'values': ['7'], 'seeded': True, 'rng': 'const', 'share_params': True, 'label': 'member 1', 'name_idx': 5},
    {'m': 4, 'cap': 4, 'values': ['8', '9', '10', '11'], 'rng': 'const', 'share_params': True, 'label': 'member 2', 'name_idx': 6}], 'actions': ACTS}
# argument OBJECTS with a history of their own: a witness whose openings were written through the public field after construction must behave
# like a freshly constructed one with the same content (EQUIVALENT below); an invalid witness for commitments that were just proven with a
# valid one must still be refused (what an earlier call validated says nothing about this call's arguments)
TARGETS['T10 = T1 with the witness updated in place'] = {'scenario': 'batch', 'n': 8, 'x': 1, 'members': [{'m': 1, 'cap': 1, 'seeded': True, 'values': ['200'], 'promises': ['3'], 'rng': 'const', 'witness_in_place': True}], 'actions': ACTS}
TARGETS['T11 = T1 with a wrong opening (refused)'] = {'scenario': 'batch', 'n': 8, 'x': 1, 'members': [{'m': 1, 'cap': 1, 'seeded': True, 'values': ['200'], 'promises': ['3'], 'rng': 'const',
                                                                                                       'witness_tamper': {'op': 'blinding_delta', 'j': 0, 'k': 0}}], 'actions': ACTS}
TARGETS['T12 = T2 with a wrong value in opening 1 (refused)'] = {'scenario': 'batch', 'n': 4, 'x': 2, 'members': [{'m': 2, 'cap': 4, 'values': ['7', '9'], 'rng': 'zero', 'witness_tamper': {'op': 'value_set', 'j': 1, 'value': '8'}}], 'actions': ACTS}
EQUIVALENT = [('T1 n8 x1 seeded promise', 'T10 = T1 with the witness updated in place')]
for _k, _t in TARGETS.items():
    if _t['scenario'] == 'batch':
        _t['repeat_prove'] = True
HISTORY_ONLY = {
    'H1 gens n8 cap4 x6': {'scenario': 'gens', 'n': 8, 'cap': 4, 'x': 6},
    'H2 altered proof refused': {'scenario': 'batch', 'n': 8, 'x': 1, 'members': [{'m': 1, 'cap': 1, 'seeded': True, 'values': ['31'], 'rng': 'const', 'name_idx': 7,
                                                                                  'tamper': {'op': 'scalar_add_delta', 'elem': 0}}], 'actions': ACTS},
    'H3 undecodable bytes': {'scenario': 'codec', 'tag': 9, 'elems': 3},
    'H4 n8 x1 larger aggregate': {'scenario': 'batch', 'n': 8, 'x': 1, 'members': [{'m': 4, 'cap': 8, 'values': ['1', '2', '3', '4'], 'rng': 'const', 'name_idx': 8}], 'actions': ACTS},
    'H5 same shape as T1, other data': {'scenario': 'batch', 'n': 8, 'x': 1, 'members': [{'m': 1, 'cap': 1, 'seeded': True, 'values': ['77'], 'promises': ['5'], 'rng': 'zero', 'name_idx': 9}], 'actions': ACTS},
    'H7 batch refused inside the member loop (too few rounds at position 1)': {'scenario': 'batch', 'n': 8, 'x': 1, 'members': [
        {'m': 2, 'cap': 2, 'values': ['1', '2'], 'rng': 'const', 'name_idx': 11, 'label': 'member 0'},
        {'m': 1, 'cap': 2, 'values': ['3'], 'rng': 'const', 'name_idx': 12, 'label': 'member 1', 'tamper': {'op': 'drop_round'}}], 'actions': ACTS},
    'H8 batch refused inside the member loop (identity point at position 2)': {'scenario': 'batch', 'n': 8, 'x': 1, 'members': [
        {'m': 1, 'cap': 4, 'values': ['1'], 'rng': 'const', 'name_idx': 13, 'label': 'member 0', 'seeded': True},
        {'m': 4, 'cap': 4, 'values': ['3', '4', '5', '6'], 'rng': 'const', 'name_idx': 14, 'label': 'member 1'},
        {'m': 2, 'cap': 4, 'values': ['3', '9'], 'rng': 'const', 'name_idx': 15, 'label': 'member 2', 'tamper': {'op': 'point_identity', 'elem': 1}}], 'actions': ACTS},
    'H6 n64 x1 m4 cap8': {'scenario': 'batch', 'n': 64, 'x': 1, 'members': [{'m': 4, 'cap': 8, 'values': ['5', U64MAX, '0', '9'], 'rng': 'const', 'name_idx': 10}], 'actions': ['VerifyOnly']},
}

DROP = {'events', 'work', 'logs_after', 'log_after', 'hook', 'members', 'tamper', 'reference', 'a_blind'}
POINT_LISTS = {'gi', 'hi', 'g'}
POINT_KEYS = {'h', 'pc_h'}


def cases(tier):
    menu = dict(TARGETS)
    menu.update(HISTORY_ONLY)
    out = []
    for tn, t in TARGETS.items():
        out.append({'cfg': {'scenario': 'history', 'steps': [t, t]}, 'name': '%s repeated' % tn, 'target': tn, 'at': [0, 1], 'hist': []})
        for hn, h in menu.items():
            if hn == tn:
                continue
            out.append({'cfg': {'scenario': 'history', 'steps': [h, t, t]}, 'name': '%s after [%s]' % (tn, hn), 'target': tn, 'at': [1, 2], 'hist': [hn]})
    if tier != 'quick':
        names = list(menu)
        for tn, t in TARGETS.items():
            for h1 in names:
                for h2 in names:
                    if h1 == h2 or tn in (h1, h2):
                        continue
                    out.append({'cfg': {'scenario': 'history', 'steps': [menu[h1], menu[h2], t]}, 'name': '%s after [%s, %s]' % (tn, h1, h2), 'target': tn, 'at': [2], 'hist': [h1, h2]})
    return out


class Pair:
    """fresh run A and history run B over ONE term table, variables renamed canonically"""

    def __init__(self, core_a, core_b):
        self.ca, self.cb = Canon(core_a), Canon(core_b)
        ra, rb = self.ca.rename_map(), self.cb.rename_map()
        self.na = Norm(core_a, rename=lambda n: ra.get(n, n))
        self.nb = Norm(core_b, terms=self.na.T, rename=lambda n: rb.get(n, n))
        self.T = self.na.T
        self.core_a, self.core_b = core_a, core_b


def same_scalar(ctx, S, P, a, b, label, cfg):
    if P.ca.node(a) == P.cb.node(b):
        ctx.D.record('syntactically-identical', label, 'unsat', 0.0, 'unsat')
        return True
    num = (P.na.frac(a) - P.nb.frac(b)).num
    S.sync_terms(P.T)
    if P.T.cval(num) == 0:
        ctx.D.record('syntactically-identical', label, 'unsat', 0.0, 'unsat')
        return True
    return ctx.solve(S, 'valid-eq', label, ['(not (= t%d 0.0))' % num], cfg=cfg, key='C18:history-dependent', pred='history_dependent')


def same_point(ctx, S, P, a, b, label, cfg):
    if P.ca.point(a) == P.cb.point(b):
        ctx.D.record('syntactically-identical', label, 'unsat', 0.0, 'unsat')
        return True
    fa = {P.ca.basis(bi): n for bi, n in P.core_a['points'][a]}
    fb = {P.cb.basis(bi): n for bi, n in P.core_b['points'][b]}
    ok = True
    for k in sorted(set(fa) | set(fb)):
        xa = P.na.frac(fa[k]) if k in fa else P.na.fconst(0)
        xb = P.nb.frac(fb[k]) if k in fb else P.na.fconst(0)
        num = (xa - xb).num
        S.sync_terms(P.T)
        if P.T.cval(num) == 0:
            continue
        ok = ctx.solve(S, 'valid-eq', '%s coefficient of %s' % (label, k[:60]), ['(not (= t%d 0.0))' % num], cfg=cfg, key='C18:history-dependent', pred='history_dependent') and ok
    if ok:
        ctx.D.record('syntactically-identical', label, 'unsat', 0.0, 'unsat')
    return ok


def same_blob(ctx, S, P, a, b, label, cfg):
    ea, eb = P.core_a['blobs'][a], P.core_b['blobs'][b]
    if ea['t'] != eb['t']:
        return ctx.expect(False, 'C18:history-dependent', '%s: a %s after the history, a %s in a fresh process' % (label, eb['t'], ea['t']), cfg, 'history_dependent')
    if ea['t'] == 'scalar':
        return same_scalar(ctx, S, P, ea['node'], eb['node'], label, cfg)
    if ea['t'] == 'point':
        return same_point(ctx, S, P, ea['point'], eb['point'], label, cfg)
    return ctx.expect(P.ca.blob(a) == P.cb.blob(b), 'C18:history-dependent', '%s: opaque element differs from the fresh process' % label, cfg, 'history_dependent')


def walk(ctx, S, P, a, b, path, cfg, key=None):
    """parallel walk over the two step outputs"""
    lab = '/'.join(str(x) for x in path)
    if key == 'pieces' and isinstance(a, list) and isinstance(b, list):
        if not ctx.expect(len(a) == len(b), 'C18:history-dependent', '%s: %d elements after the history, %d fresh' % (lab, len(b), len(a)), cfg, 'history_dependent'):
            return
        for i, (x, y) in enumerate(zip(a, b)):
            if 'blob' in x and 'blob' in y:
                same_blob(ctx, S, P, x['blob'], y['blob'], '%s[%d]' % (lab, i), cfg)
            else:
                ctx.expect(P.ca.piece(x) == P.cb.piece(y), 'C18:history-dependent', '%s[%d]: literal bytes differ from the fresh process' % (lab, i), cfg, 'history_dependent')
        return
    if key == 'masks' and isinstance(a, list) and isinstance(b, list):
        if not ctx.expect(len(a) == len(b) and all((x is None) == (y is None) and (x is None or len(x) == len(y)) for x, y in zip(a, b)), 'C18:history-dependent',
                          '%s: mask presence differs from the fresh process' % lab, cfg, 'history_dependent'):
            return
        for i, (x, y) in enumerate(zip(a, b)):
            for k, (u, v) in enumerate(zip(x or [], y or [])):
                same_scalar(ctx, S, P, u, v, '%s[%d][%d]' % (lab, i, k), cfg)
        return
    if key in POINT_LISTS and isinstance(a, list) and isinstance(b, list) and all(isinstance(x, int) for x in a + b):
        if ctx.expect(len(a) == len(b), 'C18:history-dependent', '%s: generator count differs from the fresh process' % lab, cfg, 'history_dependent'):
            for i, (x, y) in enumerate(zip(a, b)):
                same_point(ctx, S, P, x, y, '%s[%d]' % (lab, i), cfg)
        return
    if key in POINT_KEYS and isinstance(a, int) and isinstance(b, int):
        same_point(ctx, S, P, a, b, lab, cfg)
        return
    if key == 'precomp_units' and isinstance(a, list) and isinstance(b, list):
        if ctx.expect(len(a) == len(b), 'C18:history-dependent', '%s: probe count differs' % lab, cfg, 'history_dependent'):
            for x, y in zip(a, b):
                same_point(ctx, S, P, x[1], y[1], '%s[%s]' % (lab, x[0]), cfg)
        return
    if isinstance(a, dict) and isinstance(b, dict):
        ka, kb = set(a) - DROP, set(b) - DROP
        ctx.expect(ka == kb, 'C18:history-dependent', '%s: result fields differ from the fresh process (%s)' % (lab, sorted(ka ^ kb)), cfg, 'history_dependent')
        for k in sorted(ka & kb):
            walk(ctx, S, P, a[k], b[k], path + [k], cfg, k)
        return
    if isinstance(a, list) and isinstance(b, list):
        if ctx.expect(len(a) == len(b), 'C18:history-dependent', '%s: %d entries after the history, %d fresh' % (lab, len(b), len(a)), cfg, 'history_dependent'):
            for i, (x, y) in enumerate(zip(a, b)):
                walk(ctx, S, P, x, y, path + [i], cfg, key if key in ('verify', 'verify_each', 'prove') else None)
        return
    if isinstance(a, str) and isinstance(b, str) and len(a) == 64 and a != b:
        # a hex field holding the byte form of a symbolic element (handle encoding): compare through the handle table
        from lib import _canon_handles
        a, b = _canon_handles(a), _canon_handles(b)
        ma, mb = re.match(r'<blob:([0-9a-f]{8})>', a), re.match(r'<blob:([0-9a-f]{8})>', b)
        if ma and mb:
            ia, ib = int.from_bytes(bytes.fromhex(ma.group(1)), 'little'), int.from_bytes(bytes.fromhex(mb.group(1)), 'little')
            if ia < len(P.core_a['blobs']) and ib < len(P.core_b['blobs']):
                same_blob(ctx, S, P, ia, ib, lab, cfg)
                return
    ctx.expect(a == b, 'C18:history-dependent', '%s: %s after the history, %s in a fresh process' % (lab, str(b)[:80], str(a)[:80]), cfg, 'history_dependent')


FRESH = {}


def repeats(ctx, S, run, steps, case):
    """the same objects, transcript and RNG stream once more inside one call sequence: same proof (same canonical term, else valid-eq)"""
    P = None
    for si, st in enumerate(steps):
        for pi, pr in enumerate((st['out'].get('prove') or []) if isinstance(st['out'], dict) else []):
            if not isinstance(pr, dict) or 'repeat' not in pr or 'proof' not in pr:
                continue
            rp = pr['repeat']
            if not ctx.expect(isinstance(rp, dict) and 'pieces' in rp, 'C18:repeat-differs', '%s step %d member %d: proving again with the same objects and stream returned %s' % (case['name'], si, pi, str(rp)[:80]), case['cfg'], 'history_dependent'):
                continue
            if rp['pieces'] == pr['proof']['pieces']:
                ctx.D.record('syntactically-identical', 'repeated prove', 'unsat', 0.0, 'unsat')
                continue
            if P is None:
                P = Pair(run.core, run.core)
                S.T = P.T
            walk(ctx, S, P, pr['proof']['pieces'], rp['pieces'], [case['name'], 'step %d' % si, 'prove %d repeated' % pi], case['cfg'], 'pieces')



def analyse(ctx, case, run, S):
    cfg = case['cfg']
    fresh = FRESH[case['target']]
    steps = run.out['steps']
    for si, st in enumerate(steps):
        if st['out'].get('panic'):
            ctx.expect(False, 'C18:history-dependent', '%s: step %d panicked' % (case['name'], si), cfg, 'history_dependent')
            return
    P = Pair(fresh['core'], run.core)
    S.T = P.T
    for at in case['at']:
        walk(ctx, S, P, fresh['out']['steps'][0]['out'], steps[at]['out'], [case['name'], 'step %d' % at], cfg)
    # the calls of the history itself are honest calls too: each must give what it gives in a fresh process (first-use-wins state)
    for hi, hn in enumerate(case['hist']):
        if hn in FRESH and hn != case['target']:
            Ph = Pair(FRESH[hn]['core'], run.core)
            S.T = Ph.T
            walk(ctx, S, Ph, FRESH[hn]['out']['steps'][0]['out'], steps[hi]['out'], [case['name'], 'history step %d (%s)' % (hi, hn)], cfg)
    repeats(ctx, S, run, steps, case)
    if len(ctx.case_samples) < 1:
        ctx.case_samples.append({'scenario': cfg})


def mir_inventory(ctx):
    """shared mutable state of the crate, from the compiler's MIR of the current tree"""
    import mirx
    try:
        text, dt = mirx.dump_mir()
    except Exception as e:
        ctx.m_note('C18 shared-state inventory', 'no MIR: %s' % str(e)[:200])
        return
    statics = []
    for m in re.finditer(r'^(?:pub )?static (mut )?([^\s:]+(?:::[^\s:]+)*): (.+?) = \{', text, re.M):
        statics.append({'mut': bool(m.group(1)), 'name': m.group(2), 'type': m.group(3)[:160]})
    words = ['UnsafeCell', 'RefCell', 'Cell<', 'AtomicBool', 'AtomicUsize', 'AtomicU64', 'AtomicPtr', 'AtomicU32', 'Mutex', 'RwLock', 'LocalKey', 'thread_local', 'OnceLock', 'LazyLock', 'Lazy<', 'OnceCell',
             'static mut', 'Rc<']
    counts = {w: len(re.findall(r'(?<![A-Za-z])' + re.escape(w), text)) for w in words}
    once = ('OnceCell<', 'OnceLock<', 'Lazy<', 'LazyLock<')
    other_static = [s for s in statics if s['mut'] or not any(o in s['type'] for o in once)]
    # immutable plain-data statics (arrays of constants, strings) are not shared MUTABLE state
    interior = ('Cell', 'Mutex', 'RwLock', 'Atomic', 'LocalKey')
    bad_static = [s for s in other_static if s['mut'] or any(w in s['type'] for w in interior)]
    other_words = {w: c for w, c in counts.items() if c and w not in ('OnceCell', 'OnceLock', 'LazyLock', 'Lazy<')}      # once-initialised cells of any flavour
    ctx.extra['shared_state_inventory'] = {'source': 'cargo +nightly rustc -Zunpretty=mir on a scratch copy of /repo (%.0f s)' % dt, 'statics': statics, 'interior_mutability_mentions': counts}
    if bad_static or other_words:
        ctx.m_note('C18 shared-state inventory', 'the crate holds shared mutable state other than once-initialised cells (%s %s): the reduction of the thread-schedule part to history '
                   'independence is not claimed on this tree; the history checks and the concrete racing run still ran' % ([s['name'] for s in bad_static], other_words))
    else:
        ctx.m_decided.append('C18 shared-state inventory: %d static(s), all once-initialised cells; no other interior mutability, no thread-local, no static mut' % len(statics))
        ctx.expect(True, 'C18:inventory', '', None)


def concrete_companions(ctx):
    """REAL crates (stated as concrete, not solver-decided): (a) every quick history case byte for byte against the fresh process,
    (b) racing first use: 8 threads released together in a fresh process, 3 rounds, all results identical"""
    import concurrent.futures
    fresh = {}
    for tn, t in TARGETS.items():
        fresh[tn] = run_replay({'scenario': 'history', 'steps': [t]}, ctx.seed)
    jobs = [c for c in cases('quick')]

    def strip(o):
        if isinstance(o, dict):
            return {k: strip(v) for k, v in o.items() if k not in ('events', 'work')}
        if isinstance(o, list):
            return [strip(x) for x in o]
        return o

    def one(case):
        o = run_replay(case['cfg'], ctx.seed)
        return case, o
    n = 0
    with concurrent.futures.ThreadPoolExecutor(max_workers=12) as ex:
        for case, o in ex.map(one, jobs):
            if 'crash' in o or 'crash' in fresh[case['target']]:
                ctx.inconclusive.append('replay crate crashed on %s' % case['name'])
                continue
            ref = strip(fresh[case['target']]['steps'][0]['out'])
            for st_ in o['steps']:
                for pr in ((st_['out'].get('prove') or []) if isinstance(st_['out'], dict) else []):
                    if isinstance(pr, dict) and 'repeat' in pr and 'proof' in pr:
                        ctx.expect(pr['repeat'] == pr['proof'], 'C18:repeat-differs', '%s (real crates): proving again with the same objects, transcript and RNG stream gives other bytes' % case['name'], case['cfg'], 'history_dependent', {'replay_priority': 1})
            for at in case['at']:
                n += 1
                ctx.expect(strip(o['steps'][at]['out']) == ref, 'C18:history-dependent', '%s (real crates): the bytes of step %d differ from the same call in a fresh process' % (case['name'], at),
                           case['cfg'], 'history_dependent', {'replay_priority': 1})
    m = 0
    for tn, t in TARGETS.items():
        cfg = {'scenario': 'threads', 'threads': 8, 'rounds': 3, 'step': t}
        for rep in range(2):
            o = run_replay(cfg, ctx.seed)
            if 'crash' in o:
                ctx.inconclusive.append('replay crate crashed on the threads scenario for %s' % tn)
                break
            m += 1
            ctx.expect(not o['differences'], 'C18:threads-differ', '%s: results differ between threads racing the first use (real crates): %s' % (tn, str(o['differences'])[:300]), cfg, 'threads_differ')
            ref = strip(fresh[tn]['steps'][0]['out'])
            got = json.loads(o['reference']) if o.get('reference') else {}
            for k in ('prove', 'verify', 'gens'):
                if k in ref and ref.get(k) is not None and got.get(k) is not None:
                    ctx.expect(strip(got[k]) == strip(ref[k]), 'C18:threads-differ', '%s: a racing thread returns other bytes than the sequential call (real crates, field %s)' % (tn, k), cfg, 'threads_differ')
    # calls with DIFFERENT arguments racing the first use of what they share (the once-initialised statics serve every extension degree), then
    # every call once more sequentially in the raced process; each fresh process is one more race
    mixed = [{'scenario': 'gens', 'n': 2, 'cap': 1, 'x': d} for d in (1, 2, 3, 4, 5, 6)] + [TARGETS[k] for k in ('T2 n4 x2 aggregate', 'T4 n2 x6 m4')]
    mcfg = {'scenario': 'threads', 'threads': 16, 'rounds': 1, 'steps': mixed}
    PICK = ('prove', 'verify', 'verify_each', 'gens', 'gi', 'hi', 'g', 'h', 'g_compressed_accessor', 'precomp_units', 'panic')
    pick = lambda o: strip({k: o.get(k) for k in PICK})
    mref = []
    for st in mixed:
        fo = run_replay({'scenario': 'history', 'steps': [st]}, ctx.seed)
        mref.append(pick(fo['steps'][0]['out']) if 'crash' not in fo else None)
    races = 0
    for rep in range(8 if ctx.quick() else 40):
        o = run_replay(mcfg, ctx.seed)
        if 'crash' in o:
            ctx.inconclusive.append('replay crate crashed on the mixed threads scenario')
            break
        races += 1
        bad = None
        for k, ref in enumerate(mref):
            if ref is None:
                continue
            got_t = json.loads(o['references'][k]) if o['references'][k] and o['references'][k].startswith('{') else o['references'][k]
            if strip(got_t) != ref:
                bad = 'step %d (%s) run by a racing thread' % (k, json.dumps(mixed[k])[:80])
            elif strip(o['after'][k]) != ref:
                bad = 'step %d (%s) run sequentially after the race' % (k, json.dumps(mixed[k])[:80])
            if bad:
                break
        ctx.expect(not o['differences'] and bad is None, 'C18:threads-differ', 'calls with different arguments racing the first use (real crates): %s returns other bytes than in a fresh sequential process%s' % (
            bad or 'a thread', (' / threads disagree: ' + str(o['differences'])[:200]) if o['differences'] else ''), mcfg, 'threads_differ')
        if bad or o['differences']:
            break
    m += races
    ctx.extra['concrete_companions'] = {'history_cases_compared_bytewise_on_real_crates': n, 'racing_first_use_runs': m, 'threads': 8, 'rounds_per_run': 3,
                                        'note': 'concrete executions; they can confirm a difference, they decide nothing about schedules'}


def run(ctx):
    for name, cfg in list(TARGETS.items()) + [(k, v) for k, v in HISTORY_ONLY.items() if v['scenario'] == 'batch' and not any('tamper' in mm for mm in v['members'])]:
        FRESH[name] = run_symx({'scenario': 'history', 'steps': [cfg]}, ctx.seed)
    for name in TARGETS:
        st = FRESH[name]['out']['steps'][0]['out']
        if TARGETS[name]['scenario'] == 'batch':
            if '(refused)' in name:
                ctx.expect(all(p['result'] != 'ok' for p in st['prove']), 'C18:fresh', '%s: the prover returns a proof for an invalid witness in a fresh process' % name, TARGETS[name], 'prover_accepts_invalid')
                continue
            ok = all(p['result'] == 'ok' for p in st['prove']) and st.get('verify') and all(v['result'] == 'ok' for v in st['verify'])
            ctx.expect(ok, 'C18:fresh', '%s: the honest call fails in a fresh process' % name, TARGETS[name], 'honest_rejected')
    # argument objects with different construction histories but the same content: same outputs
    for a, b in EQUIVALENT:
        P = Pair(FRESH[a]['core'], FRESH[b]['core'])
        S = Session('z3', ctx.D.timeout_s)
        S.T = P.T
        try:
            oa, ob = FRESH[a]['out']['steps'][0]['out'], FRESH[b]['out']['steps'][0]['out']
            cfg_eq = {'scenario': 'history', 'steps': [TARGETS[b]], 'equivalent_to': TARGETS[a]}
            for k in ('prove', 'verify'):
                walk(ctx, S, P, oa.get(k), ob.get(k), ['%s vs %s' % (a.split(' ')[0], b.split(' ')[0]), k], cfg_eq, k)
        finally:
            S.close()
    mir_inventory(ctx)
    concrete_companions(ctx)
    parallel_cases(ctx, cases(ctx.tier), analyse)
    bounds = {'calls': sorted(TARGETS), 'histories': 'every other call of the menu %s; length 1 (quick) / every ordered pair, length 2 (thorough); the call itself repeated' % sorted(HISTORY_ONLY),
              'within': 'blindings, seeds, Blake2b nonces, transcript-RNG outputs and challenges symbolic (oracle outputs renamed to a digest of their derivation); values, promises and the stuck external RNG streams concrete',
              'threads': 'NOT quantified: reduced to the MIR shared-state inventory + once_cell contract + history independence; 8 racing threads x 3 rounds x 2 runs per call executed concretely'}
    return finish(ctx, [A_ALL[k] for k in ('A1', 'A2', 'A4', 'A5')] + ['once_cell::sync::OnceCell contract: exactly one initialiser runs and its result is visible to every caller (thread schedules are not explored)'],
                  FUNCS, bounds, ['thread interleavings (no engine of this family models Rust threads here)', 'histories longer than 2 calls or outside the menu', 'other processes / machines'],
                  'one obligation per output element (proof scalar, coefficient of a proof point per generator, mask component, generator): value after the history == value in a fresh process (valid-eq over a shared term table); verdicts / shapes structural')
