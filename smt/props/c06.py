"""C06 the prover emits a proof exactly when the witness is valid — Engine M (guards for all values) + Engine S (every position)"""
from props.common import *
import mirx_props

FUNCS = ['RangeProof::prove_with_rng (MIR regions: head checks, value guard loop, opening check loop, promise offset, bit decomposition loop)', 'PedersenGens::commit', 'RangeWitness::init']


def cases(tier):
    out = []
    cfgs = [(8, 1, 1, 1), (4, 4, 4, 2), (2, 2, 4, 1), (64, 2, 2, 1), (2, 8, 8, 1), (4, 1, 2, 6)] if tier == 'quick' else [(8, 1, 1, 1), (4, 4, 4, 2), (2, 2, 4, 1), (64, 2, 2, 1), (1, 8, 8, 1), (16, 4, 4, 3), (32, 2, 2, 6), (8, 8, 8, 2)]
    for (n, m, cap, x) in cfgs:
        maxv = (1 << n) - 1
        def add(name, valid, **kw):
            mem = dict({'m': m, 'cap': cap}, **kw)
            out.append({'cfg': {'scenario': 'batch', 'n': n, 'x': x, 'members': [mem], 'actions': ['VerifyOnly']}, 'name': '%s (n%d m%d x%d)' % (name, n, m, x), 'valid': valid})
        for j in range(m):
            vals = lambda jv: [str(jv if jj == j else (maxv - jj % (maxv // 2 + 1))) for jj in range(m)]
            add('value 2^bits-1 at %d' % j, True, values=vals(maxv))
            add('value 0 at %d' % j, True, values=vals(0))
            if n < 64:
                add('value 2^bits at %d' % j, False, values=vals(maxv + 1))
                add('value u64::MAX at %d' % j, False, values=vals((1 << 64) - 1))
                # value out of range but value - promise in range: still invalid
                add('value 2^bits with promise 1 at %d' % j, False, values=vals(maxv + 1), promises=[('1' if jj == j else None) for jj in range(m)])
                add('value = promise = 2^bits at %d' % j, False, values=vals(maxv + 1), promises=[(str(maxv + 1) if jj == j else None) for jj in range(m)])
            add('promise = value at %d' % j, True, values=vals(maxv), promises=[('eq' if jj == j else None) for jj in range(m)])
            if maxv >= 1:
                add('promise = value + 1 at %d' % j, False, values=vals(maxv - 1), promises=[(str(maxv) if jj == j else None) for jj in range(m)])
            add('promise = 0 at %d' % j, True, values=vals(maxv), promises=[('0' if jj == j else None) for jj in range(m)])
            for k in range(x):
                add('wrong blinding %d of opening %d' % (k, j), False, witness_tamper={'op': 'blinding_delta', 'j': j, 'k': k})
            if n >= 2:
                add('opening %d has value+1' % j, False, witness_tamper={'op': 'value_set', 'j': j, 'value': '1'}, values=['2'] * m)
        # value 0 under the all-zero mask: that commitment is the identity element — still a valid witness (alone, at each position of an aggregate)
        for j in range(m):
            add('identity commitment at %d' % j, True, values=[('0' if jj == j else '1') for jj in range(m)], zero_blindings_at=[j])
        if x >= 2:
            add('blinding components 0 and %d are zero' % (x - 1), True, zero_blinding_components=[0, x - 1])
        if m >= 2:
            add('openings 0 and 1 swapped', False, witness_tamper={'op': 'swap_openings', 'i': 0, 'j': 1})
            add('one opening missing', False, witness_tamper={'op': 'drop_opening'})
            # errors that cancel across positions: one unit of value moved between two openings
            add('one unit of value moved between openings', False, values=[str(3 if n >= 2 else 1)] * m, witness_tamper={'op': 'value_set', 'j': 0, 'value': str(2 if n >= 2 else 0)})
        add('one opening too many', False, witness_tamper={'op': 'extra_opening'})
        if x < 6:
            add('witness with one more blinding factor per opening', False, witness_tamper={'op': 'extra_blinding'})
        if x > 1:
            add('witness with one blinding factor fewer per opening', False, witness_tamper={'op': 'fewer_blinding'})
            # ... and the same with commitments that ARE reproduced by the short vectors: only the degree check can refuse it
            for nb in range(1, x):
                add('witness of extension degree %d (commitments consistent) under a statement of degree %d' % (nb, x), False, blindings_count=nb)
            # ragged witnesses: the short vectors DO reproduce their commitments, only the "equal blinding counts of the statement's degree" rule refuses them
            if m >= 2:
                for shape in ([x] * (m // 2) + [x - 1] * (m - m // 2), [x - 1] + [x] * (m - 1), [x] * (m - 1) + [x - 1], [x, x - 1] * (m // 2)):
                    add('ragged witness with blinding counts %s (commitments consistent)' % shape, False, blindings_count=shape)
    return out


def analyse(ctx, case, run, S):
    cfg = case['cfg']
    pr = run.out['prove'][0]
    if pr['result'] == 'panic':
        ctx.expect(False, 'C06:panic', '%s: the prover PANICKED' % case['name'], cfg, 'any_panic')
        return
    got = pr['result'] == 'ok'
    if case['valid']:
        if ctx.expect(got, 'C06:valid-refused', '%s: valid witness refused: %s' % (case['name'], pr['result']), cfg, 'prover_rejects_valid'):
            hook = run.out['hook']['calls']
            ctx.expect(len(hook) == 1 and hook[0]['expansion_ok'], 'C06:bit-decomposition', '%s: the bit vector is not the binary expansion of value - promise' % case['name'], cfg, 'honest_rejected')
            v = (run.out['verify'] or [{}])[0]
            ctx.expect(v.get('result') == 'ok', 'C06:proof-does-not-verify', '%s: the prover returned a proof that does not verify: %s' % (case['name'], v.get('result')), cfg, 'honest_rejected')
    else:
        ctx.expect(not got, 'C06:invalid-accepted', '%s: the prover returned a proof for an INVALID witness' % case['name'], cfg, 'prover_accepts_invalid')


def run(ctx):
    try:
        mirx_props.c06_prover_guards(ctx)
    except Inconclusive as e:
        # the MIR no longer has the expected shape (anchors / symbols): Engine M is inconclusive, the rest of the check still runs
        ctx.inconclusive.append('Engine M: %s' % e)
    parallel_cases(ctx, cases(ctx.tier), analyse)
    bounds = {'Engine M': 'all u64 values and promises, every constructible bit length; one loop iteration from an arbitrary state (that the loops visit every element is covered by the position sweep below)',
              'Engine S position sweep': 'each single violation at each position of aggregates up to m=4 (8 thorough), boundaries 2^bits-1, 2^bits, promise = value, value+1; these concrete runs are enumeration and reported as such'}
    return finish(ctx, [A_ALL[k] for k in ('A2', 'A5')] + ['Engine M call table: the ~30 core functions modelled in smt/mirx.py (checked_*, ok_or, Try::branch, TryFrom, Shr, Range::next contract, ...)',
                        'invariant used: bit_length of constructed parameters is a power of two <= 64 (proved in C17)'],
                  FUNCS, bounds, ['that each loop visits every element is iterator semantics (covered by the concrete position sweep)', 'commitment equality is injective in the opening under A2'],
                  'Engine M: bit-vector obligations over MIR regions located by source anchors on every run; Engine S: one concrete run per (violation kind, position)')
