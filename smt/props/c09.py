"""C09 mask recovery exactness — Engine S (DESIGN.md §5 C09)"""
import itertools
from props.common import *
from props.c03 import mask_expectation

FUNCS = ['RangeProof::prove_with_rng', 'RangeProof::verify_batch', 'RangeProof::verify', 'utils::generic::nonce', 'ExtendedMask::{assign,blindings}', 'ScalarProtocol::from_hasher_blake2b']


def cases(tier):
    out = []
    ns = [1, 2, 8, 64] if tier == 'quick' else [1, 2, 4, 8, 16, 32, 64]
    for n in ns:
        for x in range(1, 7):
            for cap in (1, 2, 8):
                if tier == 'quick' and cap == 8 and x not in (1, 6):
                    continue
                cfg = {'scenario': 'batch', 'n': n, 'x': x, 'members': [{'m': 1, 'cap': cap, 'seeded': True, 'values': 'sym', 'promises': ['sym' if (n + x) % 2 else None],
                                                                         'rng': ['sym', 'zero'][(n + x + cap) % 2]}],
                       'actions': ['RecoverAndVerify', 'RecoverOnly', 'VerifyOnly']}
                out.append({'cfg': cfg, 'name': 'n%d x%d cap%d' % (n, x, cap)})
    # masks with zero entries (a single zero component, several, the all-zero mask) are masks like any other
    for (n, x, zc) in [(8, 1, [0]), (8, 2, [1]), (2, 3, [0, 2]), (64, 6, [0, 5]), (4, 2, [0, 1])]:
        cfg = {'scenario': 'batch', 'n': n, 'x': x, 'members': [{'m': 1, 'cap': 2, 'seeded': True, 'values': 'sym', 'zero_blinding_components': zc}],
               'actions': ['RecoverAndVerify', 'RecoverOnly', 'VerifyOnly']}
        out.append({'cfg': cfg, 'name': 'n%d x%d zero blinding components %s' % (n, x, zc)})
    # the owner's statement is built over a parameter set of ANOTHER capacity than the prover's
    for (n, x, cp, cv) in [(8, 1, 1, 4), (8, 2, 4, 1), (2, 3, 2, 8), (64, 1, 1, 2)]:
        cfg = {'scenario': 'batch', 'n': n, 'x': x, 'members': [{'m': 1, 'cap': cp, 'seeded': True, 'values': 'sym', 'tamper_statement': {'op': 'capacity', 'cap': cv}}],
               'actions': ['RecoverAndVerify', 'RecoverOnly', 'VerifyOnly']}
        out.append({'cfg': cfg, 'name': 'n%d x%d proved at capacity %d, recovered at capacity %d' % (n, x, cp, cv)})
    # batch compositions: seeded / unseeded / aggregated members in every order
    kinds = [{'m': 1, 'cap': 1, 'seeded': True}, {'m': 1, 'cap': 2, 'seeded': False}, {'m': 2, 'cap': 2, 'seeded': False}, {'m': 1, 'cap': 4, 'seeded': True}]
    combos = [[0, 1], [0, 2], [0, 1, 2], [0, 3, 1]] if tier == 'quick' else [[0, 1], [0, 2], [0, 1, 2], [0, 3, 1], [0, 1, 2, 3], [3, 3, 2]]
    for combo in combos:
        for perm in set(itertools.permutations(range(len(combo)))):
            cfg = {'scenario': 'batch', 'n': 4, 'x': 2, 'members': [dict(kinds[c], values='sym', label='member %d' % ci) for ci, c in enumerate(combo)], 'verify_order': list(perm),
                   'actions': ['RecoverAndVerify', 'RecoverOnly', 'VerifyOnly']}
            out.append({'cfg': cfg, 'name': 'batch %s order %s' % (combo, list(perm))})
    # several members of one batch carrying the SAME seed (a wallet's outputs): each result is that member's own mask; the same member listed twice
    for (n, x) in ((8, 1), (4, 3)):
        mk = lambda i, **kw: dict({'m': 1, 'cap': 1, 'seeded': True, 'seed_name': 'wallet', 'values': 'sym', 'label': 'member %d' % i}, **kw)
        for members in ([mk(0), mk(1)], [mk(0), mk(1), mk(2)], [mk(0), {'m': 1, 'cap': 1, 'seeded': True, 'values': 'sym', 'label': 'member 1'}, mk(2)],
                        [mk(0), {'m': 2, 'cap': 2, 'values': 'sym', 'label': 'member 1'}, mk(2)], [mk(0, name_idx=0, values=['9'], sym_bits=False), mk(0, name_idx=0, rng_replay_of=0, values=['9'], sym_bits=False)]):
            cfg = {'scenario': 'batch', 'n': n, 'x': x, 'members': members, 'actions': ['RecoverAndVerify', 'RecoverOnly', 'VerifyOnly']}
            out.append({'cfg': cfg, 'name': 'n%d x%d batch of %d, members %s share one seed' % (n, x, len(members), [i for i, mm in enumerate(members) if mm.get('seed_name') == 'wallet'])})
    # boundary data: value == promise == 2^n - 1 (u64::MAX at 64 bits), value 0, promise 0 — recovered like any other
    for (n, x) in ((64, 1), (8, 2), (32, 1)):
        top = str((1 << n) - 1)
        for (val, prom) in ((top, 'eq'), (top, None), (top, '1'), ('0', None), ('0', '0'), (str(1 << (n - 1)), 'eq')):
            cfg = {'scenario': 'batch', 'n': n, 'x': x, 'members': [{'m': 1, 'cap': 1, 'seeded': True, 'values': [val], 'promises': [prom], 'sym_bits': False}], 'actions': ['RecoverAndVerify', 'RecoverOnly', 'VerifyOnly']}
            out.append({'cfg': cfg, 'name': 'n%d x%d value %s promise %s' % (n, x, val, prom)})
    return out


def analyse(ctx, case, run, S):
    cfg = case['cfg']
    if not ctx.expect(all(p['result'] == 'ok' for p in run.out['prove']) and run.out['verify'] is not None, 'C09:prove', 'honest prover failed (%s)' % case['name'], cfg, 'honest_rejected'):
        return
    for v in run.out['verify']:
        if not ctx.expect(v['result'] == 'ok', 'C09:verify', '%s: %s returned %s' % (case['name'], v['action'], v['result']), cfg, 'honest_rejected'):
            continue
        exp = mask_expectation(run, cfg, v['action'])
        masks = v['masks']
        ctx.expect(len(masks) == len(exp), 'C09:count', '%s: %d results for %d members' % (case['name'], len(masks), len(exp)), cfg, 'results_len_wrong')
        for i in range(min(len(exp), len(masks))):
            if exp[i] is None or masks[i] is None:
                ctx.expect(exp[i] is None and masks[i] is None, 'C09:presence', '%s: result %d is %s, expected %s (%s)' % (
                    case['name'], i, 'a mask' if masks[i] else 'None', 'a mask' if exp[i] else 'None', v['action']), cfg, 'mask_wrong')
                continue
            ctx.expect(len(masks[i]) == len(exp[i]), 'C09:components', '%s: mask has %d components, expected %d' % (case['name'], len(masks[i]), len(exp[i])), cfg, 'mask_wrong')
            for kk, (got, want) in enumerate(zip(masks[i], exp[i])):
                num = (run.norm.frac(got) - run.norm.frac(want)).num
                S.sync_terms(run.T)
                if run.T.cval(num) == 0:
                    ctx.D.record('syntactically-identical', 'mask', 'unsat', 0.0, 'unsat')
                    continue
                ctx.solve(S, 'valid-eq', '%s: recovered[%d][%d] == blinding r_%d (%s)' % (case['name'], i, kk, kk, v['action']),
                          run.side_conditions() + ['(not (= t%d 0.0))' % num], cfg=cfg, key='C09:mask-exact', pred='mask_wrong')
    if len(ctx.case_samples) < 1:
        ctx.case_samples.append({'scenario': cfg})


def documented_prover_cases(ctx):
    """concrete (real crates, stated as such): a proof made by the independent paper-form prover with the DOCUMENTED seed nonces (refimpl.rs) under a seeded
    statement is accepted and its recovered mask is the blinding vector — recovery is not merely self-consistent with the library's own prover"""
    from lib import run_replay
    for (n, cap, x) in [(8, 1, 1), (64, 2, 3), (4, 1, 6), (2, 4, 2)]:
        cfg = {'scenario': 'batch', 'n': n, 'x': x, 'members': [{'m': 1, 'cap': cap, 'seeded': True, 'promises': ['1']}], 'reference_prover': True}
        o = run_replay(cfg, ctx.seed)
        rp = (o.get('reference_prover') or [{}])[0] if 'crash' not in o else {}
        ok = rp.get('reference_prove') == 'ok' and rp.get('library_verify') == 'ok' and rp.get('masks') == [rp.get('expected_mask')]
        ctx.expect(ok, 'C09:documented-prover', 'n%d cap%d x%d: the mask of a proof made by the independent prover with the documented seed nonces is not recovered: %s' % (n, cap, x, str(rp)[:200]),
                   cfg, 'reference_prover_rejected')


def run(ctx):
    documented_prover_cases(ctx)
    parallel_cases(ctx, cases(ctx.tier), analyse)
    bounds = {'configurations': 'n in lattice, x in 1..6, capacity in {1,2,8}, m = 1 for recovery; batches mixing seeded / unseeded / aggregated members in every order (k <= 3 quick, 4 thorough)',
              'within': 'seed, blindings (distinct variables per component), values, promises, nonces and challenges symbolic'}
    return finish(ctx, [A_ALL[k] for k in ('A1', 'A2', 'A4', 'A5', 'HOOK')], FUNCS, bounds, ['m > 1 (no recovery by construction)', 'hash collisions between nonce labels (A1)'],
                  'one obligation per (member, component): recovered mask component == the blinding variable of that component (valid-eq); presence/absence of masks per position structural')
