"""C19 wire compatibility — layout against the frozen 0.4.0 specification (Engine S), recorded vectors and the independent
reference verifier / generator derivation on the real crates (DESIGN.md §5 C19)"""
from props.common import *
from props.c02 import ilog2
import replaypreds

FUNCS = ['RangeProofTranscript::{new,challenges_y_z,challenge_round_e,challenge_final_e,to_verifier_rng}', 'TranscriptProtocol for Transcript', 'RangeProof::{from_bytes,to_bytes,verify}',
         'utils::generic::nonce', 'BulletproofGens::new', 'GeneratorsChain::new']
NEEDS_SYMX = True


def cases(tier):
    out = []
    for (n, m, cap, x) in lattice(tier):
        if n * m < 2 or (tier == 'quick' and cap != m and x == 6):
            continue
        promises = [('sym' if (j + x) % 2 == 0 else None) for j in range(m)]
        cfg = {'scenario': 'adversarial', 'n': n, 'x': x, 'members': [{'m': m, 'cap': cap, 'rounds': ilog2(n * m), 'promises': promises, 'seeded': m == 1}],
               'actions': ['RecoverAndVerify']}
        out.append({'cfg': cfg, 'name': 'n%d m%d c%d x%d' % (n, m, cap, x)})
    return out


def expected_log(run, info, n, m, x, rounds):
    """the frozen transcript layout of release 0.4.0 as (kind, label, length, piece) tuples"""
    blobs = run.core['blobs']
    bi = basis_index(run)
    el = lambda e: ('elem', blobs[info['elems'][e]]['k'])
    def point_piece(pid):
        return ('point', pid)
    # generator points: h and g_k of the statement are the documented ones (C11); find their point ids through the basis names
    pts = run.core['points']
    def pid_of_basis(name):
        b = bi[name]
        for pid, f in enumerate(pts):
            if len(f) == 1 and f[0][0] == b and f[0][1] == 1:
                return pid
        return None
    exp = [('init', 'symx context')]
    exp.append(('append', 'dom-sep', 25, (('lit', b'Bulletproofs+ Range Proof'.hex()),)))
    exp.append(('append', 'H', 32, (('lit', 'e2f2ae0a6abc4e71a884a961c500515f58e30b6aa582dd8db6a65945e08d2d76'),)))
    for k in range(x):
        exp.append(('append', 'G', 32, (point_piece(pid_of_basis('g<RISTRETTO_MASKING_BASEPOINT_%d>' % (k + 1))),)))
    for label, v in (('N', n), ('T', x), ('M', m)):
        exp.append(('append', label, 8, (('lit', int(v).to_bytes(8, 'little').hex()),)))
    for j in range(m):
        exp.append(('append', 'Ci', 32, (point_piece(info['commitments'][j]),)))
    for j, p in enumerate(info['promises']):
        piece = ('u64var', 'p_0_%d' % j) if p.get('p_sym') else ('lit', int(p['p'] or 0).to_bytes(8, 'little').hex())
        exp.append(('append', 'vi - minimum_value', 8, (piece,)))
    exp.append(('append', 'A', 32, (el(x),)))
    exp += [('challenge', 'y', 64), ('challenge', 'z', 64)]
    for j in range(rounds):
        exp.append(('append', 'L', 32, (el(x + 5 + 2 * j),)))
        exp.append(('append', 'R', 32, (el(x + 6 + 2 * j),)))
        exp.append(('challenge', 'e', 64))
    exp.append(('append', 'A1', 32, (el(x + 1),)))
    exp.append(('append', 'B', 32, (el(x + 2),)))
    exp.append(('challenge', 'e', 64))
    exp.append(('append', 'r1', 32, (el(x + 3),)))
    exp.append(('append', 's1', 32, (el(x + 4),)))
    for k in range(x):
        exp.append(('append', 'd1', 32, (el(k),)))
    return exp


def analyse(ctx, case, run, S):
    cfg = case['cfg']
    info = run.out['members'][0]
    mc = cfg['members'][0]
    n, x, m, rounds = cfg['n'], cfg['x'], mc['m'], mc['rounds']
    v = run.out['verify'][0]
    lv = LogView(run.core)
    got = lv.describe(v['logs_after'][0])
    exp = expected_log(run, info, n, m, x, rounds)
    first = next((i for i, (a, b) in enumerate(zip(got, exp)) if a != b), None)
    if first is None and len(got) != len(exp):
        first = min(len(got), len(exp))
    ctx.expect(first is None, 'C19:transcript-layout', '%s: the verifier\'s transcript differs from the 0.4.0 layout at entry %s: got %s, frozen layout has %s' % (
        case['name'], first, str(got[first])[:160] if first is not None and first < len(got) else None, str(exp[first])[:160] if first is not None and first < len(exp) else None),
        cfg, 'wire_vector_mismatch')
    # batch weights: their own transcript
    ws = weight_state(run)
    okw = False
    for sid, napp in ws:
        st = run.core['rng_states'][sid]
        d = lv.describe(st['log'])
        okw = okw or (napp == 1 and d[0] == ('init', 'Bulletproofs+ verifier weights') and d[1][0:3] == ('append', 'proof', 8))
    ctx.expect(okw, 'C19:weight-transcript', '%s: weight transcript is not init("Bulletproofs+ verifier weights") | "proof" u64' % case['name'], cfg, None)
    # seed nonces queried by the recovering verifier: the documented key layout
    if mc.get('seeded'):
        seed_node = info['seed_node']
        want = set()
        for k in range(x):
            for label, js in (('eta', [None]), ('d', [None]), ('alpha', [None]), ('dL', range(rounds)), ('dR', range(rounds))):
                for j in js:
                    tail = (b'j' + j.to_bytes(4, 'little') if j is not None else b'') + b'k' + k.to_bytes(4, 'little')
                    want.add((label, tail.hex()))
        gotk = set()
        okk = True
        for rec in run.core['blake']:
            d = [lv.piece_desc(p) for p in rec['key']]
            if len(d) == 3 and d[0] == ('lit', '00') and d[1] == ('scalar', seed_node) and d[2][0] == 'lit' and rec['salt'] == '' and rec['key_len'] == 33 + len(d[2][1]) // 2:
                gotk.add((rec['persona'], d[2][1]))
            else:
                okk = False
        ctx.expect(okk and gotk == want, 'C19:nonce-layout', '%s: the seed nonces are not Blake2b(key = 00|seed|[j|LE32]|k|LE32, persona = label) for exactly the documented (label, j, k) set' % case['name'],
                   cfg, 'seed_nonce_vector')
    if len(ctx.case_samples) < 1:
        ctx.case_samples.append({'scenario': cfg, 'transcript': [str(t)[:100] for t in got][:30]})


def run(ctx):
    parallel_cases(ctx, cases(ctx.tier), analyse)
    import mirx_props
    mirx_props.transcript_integers(ctx)
    # ---- concrete part on the REAL crates (stated as such): recorded 0.4.0 vectors, independent reference verifier, independent generator derivation
    t0 = time.time()
    f = Finding('C19', 'C19:recorded-vector', 'a proof / mask recorded from the pinned 0.4.0 tree is not reproduced byte for byte', None, 'wire_vector_mismatch', {})
    bad, det = replaypreds.wire_vector_mismatch(f)
    ctx.struct_checks += 1
    if bad:
        f.detail['first'] = det
        f.what += ': %s' % (str(det)[:300])
        ctx.findings.append(f)
    else:
        ctx.struct_ok += 1
    n_ref = 0
    for (n, m, cap, x) in ([(8, 1, 1, 1), (4, 2, 4, 2), (64, 1, 1, 1), (2, 8, 8, 3)] if ctx.quick() else [(8, 1, 1, 1), (4, 2, 4, 2), (64, 1, 1, 1), (2, 8, 8, 3), (16, 4, 4, 6), (32, 2, 2, 1), (1, 2, 2, 2), (64, 4, 4, 2)]):
        for tam in (None, {'op': 'scalar_add_delta', 'elem': 0}):
            cfg = {'scenario': 'batch', 'n': n, 'x': x, 'members': [dict({'m': m, 'cap': cap, 'promises': ['1'] + [None] * (m - 1)}, **({'tamper': tam} if tam else {}))], 'actions': ['VerifyOnly']}
            o = run_replay(cfg, ctx.seed)
            n_ref += 1
            ok = 'crash' not in o and o.get('verify') and o['verify'][0].get('reference') == [tam is None] and (o['verify'][0]['result'] == 'ok') == (tam is None)
            ctx.expect(ok, 'C19:reference-verifier', 'n%d m%d x%d %s: library verdict %s, independent paper-form verifier says %s' % (
                n, m, x, 'honest' if tam is None else 'altered', (o.get('verify') or [{}])[0].get('result'), (o.get('verify') or [{}])[0].get('reference')), cfg, 'relation_disagrees')
    # proofs made by the independent straight-from-the-paper prover (refimpl.rs::reference_prove) must be accepted by the library and their masks recovered
    n_refp = 0
    for (n, m, cap, x, seeded) in ([(8, 1, 1, 1, True), (4, 4, 8, 2, False), (64, 1, 2, 3, True), (2, 2, 2, 6, False)] if ctx.quick() else
                                   [(8, 1, 1, 1, True), (4, 4, 8, 2, False), (64, 1, 2, 3, True), (2, 2, 2, 6, False), (1, 2, 2, 1, False), (16, 8, 8, 1, False), (32, 1, 1, 5, True), (64, 4, 4, 2, False)]):
        cfg = {'scenario': 'batch', 'n': n, 'x': x, 'members': [{'m': m, 'cap': cap, 'seeded': seeded, 'promises': ['1'] + [None] * (m - 1)}], 'reference_prover': True}
        o = run_replay(cfg, ctx.seed)
        n_refp += 1
        rp = (o.get('reference_prover') or [{}])[0] if 'crash' not in o else {}
        ok = rp.get('reference_prove') == 'ok' and rp.get('library_verify') == 'ok' and rp.get('masks') == [rp.get('expected_mask')] and rp.get('len') == 1 + 32 * (5 + x + 2 * ((n * m).bit_length() - 1))
        ctx.expect(ok, 'C19:reference-prover', 'n%d m%d x%d: a proof made by the independent paper-form prover is not accepted / its mask not recovered by the library: %s' % (n, m, x, str(rp)[:200]),
                   cfg, 'reference_prover_rejected')
    # the library's own proofs are, byte for byte, those of the documented nonce derivation when the external RNG is stuck (refimpl::reference_prove_documented:
    # witness-keyed transcript RNG rebuilt after every prover message, Blake2b seed nonces), also for the identity commitment (value 0, zero mask)
    n_doc = 0
    for (n, m, cap, x, seeded, extra) in ([(8, 1, 1, 1, False, {}), (8, 1, 2, 3, True, {}), (4, 4, 4, 2, False, {}), (2, 2, 4, 6, False, {}), (64, 1, 1, 1, True, {}),
                                           (8, 1, 1, 2, True, {'values': ['0'], 'zero_blindings': True}), (4, 2, 2, 1, False, {'values': ['0', '3'], 'zero_blindings_at': [0]})]):
        for rng in ('zero', 'const'):
            mem = dict({'m': m, 'cap': cap, 'seeded': seeded, 'rng': rng}, **extra)
            if not extra:
                mem['promises'] = ['1'] + [None] * (m - 1)
            cfg = {'scenario': 'batch', 'n': n, 'x': x, 'members': [mem], 'documented_prover': True}
            o = run_replay(cfg, ctx.seed)
            n_doc += 1
            d = (o.get('documented') or [{}])[0] if 'crash' not in o else {}
            if 'crash' not in o and any(p_.get('result') != 'ok' for p_ in (o.get('prove') or [])):
                hc = {'scenario': 'batch', 'n': n, 'x': x, 'members': [mem], 'actions': ['VerifyOnly', 'RecoverAndVerify']}
                ctx.expect(False, 'C19:prover-refuses', 'n%d m%d c%d x%d%s: the prover refuses a statement that is valid in the released protocol: %s' % (
                    n, m, cap, x, ' seeded' if seeded else '', str(o['prove'][0].get('result'))[:160]), hc, 'honest_rejected', {'replay_cfg': hc})
                continue
            ctx.expect(d.get('documented_equal') is True, 'C19:prover-bytes', 'n%d m%d c%d x%d%s rng=%s: the library\'s proof is not byte for byte the proof of the documented derivation (%s; prover: %s)' % (
                n, m, cap, x, ' seeded' if seeded else '', rng, {k: v for k, v in d.items()}, str((o.get('prove') or o.get('crash') or [''])[0])[:120]), cfg, 'prover_deviates', {'replay_cfg': cfg})
    for (n, cap, x) in [(8, 4, 6), (64, 2, 1)]:
        fg = Finding('C19', 'C19:generators', 'generators differ from the documented derivation', {'scenario': 'gens', 'n': n, 'cap': cap, 'x': x}, 'generators_mismatch', {})
        bad, det = replaypreds.generators_mismatch(fg)
        ctx.struct_checks += 1
        if bad:
            fg.what += ': %s' % det
            ctx.findings.append(fg)
        else:
            ctx.struct_ok += 1
    ctx.extra['concrete_part'] = {'recorded_vectors': 16, 'reference_verifier_runs': n_ref, 'reference_prover_runs': n_refp, 'documented_prover_byte_comparisons': n_doc, 'reference_generator_sets': 2, 'seconds': round(time.time() - t0, 1),
                                  'note': 'these are concrete executions on the real crates (not solver-decided): recorded proofs/masks of the pinned tree, verdict agreement with the independent unoptimised verifier '
                                          '(symx/src/refimpl.rs), generator bytes against an independent SHAKE256/SHA3-512 derivation'}
    bounds = {'layout (Engine S)': 'lattice without n*m=1; all absorbed contents symbolic', 'concrete': 'as listed under concrete_part'}
    return finish(ctx, [A_ALL['A3'], A_ALL['A5'], 'the frozen layout in this file (expected_log, nonce key layout) was written from the 0.4.0 source and is validated by the recorded vectors on the unchanged tree'],
                  FUNCS, bounds, ['byte-for-byte agreement of the hash primitives and curve arithmetic with an independent implementation is concrete cryptography: covered only through the recorded vectors and the reference verifier runs',
                                   'the reference implementation (verifier, prover, generator derivation) shares the hash and curve crates with the library: it is independent in the protocol logic, not in the primitives'],
                  'layout: structural equality of the recorded absorb log / Blake2b key records with the frozen layout, one comparison per configuration, contents symbolic; concrete part: enumeration of recorded vectors')
