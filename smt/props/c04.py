"""C04 Fiat-Shamir binding — Engine S log-injectivity (DESIGN.md §5 C04)"""
from props.common import *
from props.c02 import ilog2
from inject import Injectivity

FUNCS = ['RangeProofTranscript::{new,challenges_y_z,challenge_round_e,challenge_final_e}', 'TranscriptProtocol::{append_domain_separator,append_point,validate_and_append_point,append_scalar,challenge_scalar}',
         'RangeProof::verify', 'RangeProof::prove_with_rng']


def cases(tier):
    out = []
    cfgs = [(8, 1, 1, 1), (2, 2, 4, 2), (4, 4, 4, 6), (64, 1, 1, 3), (4, 4, 4, 1), (2, 8, 8, 1)] if tier == 'quick' else \
        [(8, 1, 1, 1), (2, 2, 4, 2), (4, 4, 4, 6), (64, 1, 1, 3), (1, 2, 2, 4), (16, 8, 8, 5), (32, 2, 4, 1), (64, 4, 4, 6), (2, 16, 16, 2)]
    for (n, m, cap, x) in cfgs:
        cfg = {'scenario': 'adversarial', 'n': n, 'x': x,
               'members': [{'m': m, 'cap': cap, 'rounds': ilog2(n * m), 'promises': ['sym'] * m, 'free_gens': True, 'ctx_elem': True}], 'actions': ['VerifyOnly']}
        out.append({'cfg': cfg, 'kind': 'verifier', 'name': 'verifier n%d m%d c%d x%d' % (n, m, cap, x)})
        if m >= 2:
            for pat in (0, 1):
                cfg2 = {'scenario': 'adversarial', 'n': n, 'x': x, 'actions': ['VerifyOnly'],
                        'members': [{'m': m, 'cap': cap, 'rounds': ilog2(n * m), 'promises': [('sym' if j % 2 == pat else None) for j in range(m)], 'free_gens': True, 'ctx_elem': True}]}
                out.append({'cfg': cfg2, 'kind': 'verifier', 'name': 'verifier n%d m%d c%d x%d promises at %s positions' % (n, m, cap, x, 'even' if pat == 0 else 'odd')})
    # the commitment generators are a clone of an object that was already used once, with every field overwritten afterwards
    for (n, m, cap, x) in [(8, 1, 1, 2), (4, 2, 2, 1)]:
        cfg = {'scenario': 'adversarial', 'n': n, 'x': x,
               'members': [{'m': m, 'cap': cap, 'rounds': ilog2(n * m), 'promises': ['sym'] * m, 'free_gens': True, 'gens_used_first': True, 'ctx_elem': True}], 'actions': ['VerifyOnly']}
        out.append({'cfg': cfg, 'kind': 'verifier', 'name': 'verifier n%d m%d c%d x%d, generators cloned from a used object and overwritten' % (n, m, cap, x)})
    # equal commitments at two positions of one aggregate: each position still has its own promise, bound at its own position
    for (n, m, cap, x, dup) in [(8, 2, 2, 1, [[0, 1]]), (4, 4, 4, 2, [[0, 3]]), (4, 4, 4, 1, [[1, 2], [0, 3]])]:
        cfg = {'scenario': 'adversarial', 'n': n, 'x': x,
               'members': [{'m': m, 'cap': cap, 'rounds': ilog2(n * m), 'promises': ['sym'] * m, 'ctx_elem': True, 'dup_commitments': dup}], 'actions': ['VerifyOnly']}
        out.append({'cfg': cfg, 'kind': 'verifier', 'name': 'verifier n%d m%d c%d x%d, equal commitments at %s' % (n, m, cap, x, dup)})
    # every member of a batch is bound to ITS OWN caller context, commitments, promises and prover messages (not to those of the first member)
    for ms in ([1, 2, 1], [2, 1]) if tier == 'quick' else ([1, 2, 1], [2, 1], [1, 1, 4, 2]):
        members = [{'m': mm, 'cap': max(ms), 'rounds': ilog2(4 * mm), 'promises': ['sym'] + [None] * (mm - 1), 'ctx_elem': True} for mm in ms]
        out.append({'cfg': {'scenario': 'adversarial', 'n': 4, 'x': 2, 'members': members, 'actions': ['VerifyOnly']}, 'kind': 'verifier', 'name': 'verifier batch m=%s (n4 x2)' % ms})
    # inside a batch every member's own generators must be the ones that are hashed: a member (largest, not first) with other H / G_k is refused
    for order in ([0, 1], [1, 0], [0, 1, 0]):
        mem = [{'m': 1, 'cap': 1, 'rounds': 2, 'free_gens': False}, {'m': 2, 'cap': 2, 'rounds': 3, 'free_gens': True}]
        out.append({'cfg': {'scenario': 'adversarial', 'n': 4, 'x': 1, 'members': [mem[o] for o in order], 'actions': ['VerifyOnly', 'RecoverAndVerify', 'RecoverOnly']},
                    'kind': 'batch-generators', 'name': 'batch %s: the larger member uses other commitment generators' % order, 'order': order})
    for (n, m, cap, x) in cfgs[:3] if tier == 'quick' else cfgs[:6]:
        cfg = {'scenario': 'batch', 'n': n, 'x': x, 'members': [{'m': m, 'cap': cap, 'promises': ['sym' if j % 2 == 0 else None for j in range(m)], 'seeded': m == 1}], 'actions': ['VerifyOnly']}
        out.append({'cfg': cfg, 'kind': 'prover', 'name': 'prover/verifier agreement n%d m%d c%d x%d' % (n, m, cap, x)})
    return out


def free_atom_of_point(run, pid):
    f = run.core['points'][pid]
    assert len(f) == 1
    b = run.core['basis'][f[0][0]]
    assert b['t'] == 'free'
    return 'freept_%d' % b['k']


def analyse(ctx, case, run, S):
    cfg = case['cfg']
    lv = LogView(run.core)
    if case['kind'] == 'prover':
        if not ctx.expect(all(p['result'] == 'ok' for p in run.out['prove']) and run.out['verify'], 'C04:prove', 'honest prover failed', cfg, 'honest_rejected'):
            return
        v = run.out['verify'][0]
        ctx.expect(v['result'] == 'ok', 'C04:verify', 'honest proof refused', cfg, 'honest_rejected')
        ch = lv.challenges(v['logs_after'][0])
        final_e = ch[-1][1]
        plog = run.out['prove'][0]['log_after']
        ctx.expect(plog == final_e, 'C04:prover-verifier-transcripts',
                   '%s: the prover\'s transcript at its last challenge is not the verifier\'s (they hash different sequences)' % case['name'], cfg, 'honest_rejected')
        return
    if case['kind'] == 'batch-generators':
        rc = {'scenario': 'batch', 'n': 4, 'x': 1, 'actions': ['VerifyOnly', 'RecoverOnly'],
              'members': [[{'m': 1, 'cap': 1}, {'m': 2, 'cap': 2, 'tamper_statement': {'op': 'h_base'}}][o] for o in case['order']]}
        for v in run.out['verify'] or []:
            ctx.expect(isinstance(v['result'], dict) and not run.residual_points(v['events']), 'C04:H-not-bound:batch',
                       '%s: not refused before the comparison (%s): the member\'s own generators are neither hashed nor checked' % (case['name'], v['action']), cfg, 'verify_not_refused',
                       {'replay_cfg': rc})
        return
    nmem = len(cfg['members'])
    for mi in range(nmem):
        tag = '' if nmem == 1 else ' [batch member %d]' % mi
        # replay descriptor for a member inside a batch: the same datum altered for THAT member of an honest batch of the same shape
        brd = {} if nmem == 1 else {'batch_ms': [mm['m'] for mm in cfg['members']], 'member': mi}
        info = run.out['members'][mi]
        mc = cfg['members'][mi]
        n, x, m, rounds = cfg['n'], cfg['x'], mc['m'], mc['rounds']
        v = run.out['verify'][0]
        try:
            ids = member_challenges(run, v['logs_after'][mi])['ids']
        except AssertionError as e:
            # the member's transcript after verification does not contain the chain y, z, e_0, .., e: some challenge was drawn from a side copy
            # of the transcript, so later challenges cannot depend on what that copy absorbed
            ctx.expect(False, 'C04:L-not-bound', '%s%s: the transcript after verification holds the challenges %s instead of y, z, one e per round, e: a challenge was drawn from a copy '
                       'of the transcript that was never written back' % (case['name'], tag, str(e)[:60]), cfg, 'challenges_unchanged',
                       {'n': n, 'x': x, 'm': 1, 'cap': 1, 'datum': 'L_0', 'rounds': rounds, 'challenge': 'e'})
            continue
        blobs = run.core['blobs']
        el = lambda e: 'elem_%d' % blobs[info['elems'][e]]['k']
        data = {}
        data['transcript context'] = 'elem_%d' % blobs[info['ctx_elem']]['k']
        if mc.get('free_gens'):
            data['H'] = free_atom_of_point(run, info['gens']['h'])
            for k, pid in enumerate(info['gens']['g']):
                data['G_%d' % k] = free_atom_of_point(run, pid)
        for j, pid in enumerate(info['commitments']):
            data['commitment %d' % j] = free_atom_of_point(run, pid)
        for j, p in enumerate(info['promises']):
            if p.get('p_sym'):
                data['promise %d' % j] = 'p_%d_%d' % (mi, j)
        before_y = dict(data)
        before_y['A'] = el(x)
        stage = [('y', ids['y'], dict(before_y)), ('z', ids['z'], dict(before_y))]
        cur = dict(before_y)
        for j in range(rounds):
            cur['L_%d' % j] = el(x + 5 + 2 * j)
            cur['R_%d' % j] = el(x + 6 + 2 * j)
            stage.append(('e_%d' % j, ids['rounds'][j], dict(cur)))
        cur['A1'] = el(x + 1)
        cur['B'] = el(x + 2)
        stage.append(('e', ids['e'], dict(cur)))
        ctx.expect(len(ids['rounds']) == rounds, 'C04:round-challenges', 'number of round challenges != number of L/R pairs', cfg, None)
        inj = Injectivity(run)
        universe = set(cur.values())
        for cname, lid, deps in stage:
            for dname, atom in sorted(deps.items()):
                asserts, atoms = inj.query(('log', lid), {atom}, universe)
                rd = dict({'n': n, 'x': x, 'm': m, 'cap': mc['cap'], 'datum': dname, 'rounds': rounds, 'challenge': cname, 'from_used': bool(mc.get('gens_used_first')), 'dup': mc.get('dup_commitments')}, **brd)
                ctx.solve(S, 'log-injective', '%s%s: challenge %s depends on %s' % (case['name'], tag, cname, dname), asserts, cfg=cfg,
                          key='C04:%s-not-bound' % dname.split(' ')[0].split('_')[0], pred='challenges_unchanged', detail=rd)
        # integer fields: bit length, extension degree, aggregation factor are absorbed as their own 8-byte little-endian encodings, in that order after the generators
        ap = lv.appends(ids['y'])
        def lit_of(label):
            for _, e in ap:
                if e['label'] == label:
                    return e
            return None
        for label, val, what in (('N', n, 'bit length'), ('T', x, 'extension degree'), ('M', m, 'aggregation factor')):
            e = lit_of(label)
            ok = e is not None and e['len'] == 8 and e['pieces'] == [{'lit': int(val).to_bytes(8, 'little').hex()}]
            ctx.expect(ok, 'C04:%s-not-bound' % what.split(' ')[0], '%s: the %s is not absorbed as LE64(%d) under label %s' % (case['name'], what, val, label), cfg, 'challenges_unchanged',
                       {'n': n, 'x': x, 'm': m, 'cap': mc['cap'], 'datum': what, 'rounds': rounds})
        # one promise entry per commitment, in order; a None promise is absorbed as the value 0 (None == Some(0) and nothing else)
        pe = [e for _, e in ap if e['label'] == 'vi - minimum_value']
        okp = len(pe) == m
        for j, p in enumerate(info['promises']):
            if not okp:
                break
            want = ('u64var', 'p_%d_%d' % (mi, j)) if p.get('p_sym') else ('lit', int(p['p'] or 0).to_bytes(8, 'little').hex())
            okp = okp and len(pe[j]['pieces']) == 1 and lv.piece_desc(pe[j]['pieces'][0]) == want
        ctx.expect(okp, 'C04:promise-position-not-bound', '%s: the transcript does not hold one promise entry per commitment in order (absent = 0): positions are not bound' % case['name'],
                   cfg, 'challenges_unchanged', {'n': n, 'x': x, 'm': m, 'cap': mc['cap'], 'datum': 'promise-position', 'rounds': rounds, 'dup': mc.get('dup_commitments')})
    if len(ctx.case_samples) < 2:
        ctx.case_samples.append({'scenario': cfg, 'log_of_final_challenge': [str(t)[:120] for t in lv.describe(ids['e'])][:40]})


def run(ctx):
    parallel_cases(ctx, cases(ctx.tier), analyse)
    import mirx_props
    mirx_props.transcript_integers(ctx)
    bounds = {'configurations': 'sub-lattice incl. x = 6 and up to 8 rounds (thorough)', 'within': 'every absorbed datum is a free symbol: caller context, H, each G_k (free generators), each commitment, each promise, A, each L_j, R_j, A1, B',
              'queries': 'for every challenge c and every datum d that precedes it in the protocol: two copies of all data, all hash inputs of c equal, all data but d equal, d differs -> unsat'}
    return finish(ctx, [A_ALL[k] for k in ('A1', 'A3', 'A5')], FUNCS, bounds,
                  ['STROBE framing inside merlin (A5: messages are framed by label and length)', 'hash collisions (A1)', 'that LE64 of the three integers is injective in usize is a byte fact checked by Engine M (C19 layout)'],
                  'one obligation per (challenge, preceding datum): log-injective; prover and verifier must reach the same interned log at the last challenge; integer fields structural')
