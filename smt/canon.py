"""Canonical (history-independent) names for the oracle variables of a symx dump.

Inside one symx process a variable is named by a running id (chal_<log id>, rnd_<state id>_<ctr>, nonce_<record id>): two processes
that make the same call after different call histories number them differently. For C18 the outputs of a call made after a history
are compared with the outputs of the same call made first in a fresh process, so every oracle output is renamed to a digest of its
*derivation* (what was absorbed, recursively: Merkle-style over logs, RNG states, Blake2b key records, scalar terms, linear forms).
Variables that the scenario itself introduces (blindings, seeds, free elements) keep their scenario-given names."""
import hashlib, json, sys

sys.setrecursionlimit(200000)


def _h(*parts):
    return hashlib.sha256(repr(parts).encode()).hexdigest()[:20]


class Canon:
    def __init__(self, core):
        self.c = core
        self.nodes = core['nodes']
        self.vars = core['vars']
        self.blobs = core['blobs']
        self.logs = core['logs']
        self._node, self._blob, self._log, self._state, self._point, self._var = {}, {}, {}, {}, {}, {}

    # ---- variables
    def var(self, vid):
        r = self._var.get(vid)
        if r is None:
            info = self.vars[vid]
            meta = info.get('meta') or {}
            if isinstance(meta, dict) and 'blob' in meta and info['kind'] in ('chal', 'rnd', 'nonce'):
                r = '%s_%s' % (info['kind'], self.blob(meta['blob']))
            else:
                r = info['name']
            self._var[vid] = r
        return r

    def rename_map(self):
        return {v['name']: self.var(i) for i, v in enumerate(self.vars)}

    # ---- scalar terms (iterative post-order: sums over hundreds of bits are deep)
    def node(self, n):
        memo = self._node
        if n in memo:
            return memo[n]
        stack = [n]
        while stack:
            t = stack[-1]
            if t in memo:
                stack.pop()
                continue
            k = self.nodes[t]
            if k[0] == 'c':
                memo[t] = 'c' + str(k[1])
                stack.pop()
            elif k[0] == 'v':
                memo[t] = 'v' + self.var(k[1])
                stack.pop()
            else:
                kids = [x for x in k[1:] if isinstance(x, int)]
                todo = [x for x in kids if x not in memo]
                if todo:
                    stack.extend(todo)
                else:
                    hs = [memo[x] for x in kids]
                    if k[0] in ('+', '*'):
                        hs.sort()      # hash-consing orders the operands of commutative operations by node id, which depends on the history
                    memo[t] = _h(k[0], hs, [x for x in k[1:] if not isinstance(x, int)])
                    stack.pop()
        return memo[n]

    def basis(self, bi):
        return json.dumps(self.c['basis'][bi], sort_keys=True)

    def point(self, pid):
        r = self._point.get(pid)
        if r is None:
            r = _h('pt', sorted((self.basis(b), self.node(n)) for b, n in self.c['points'][pid]))
            self._point[pid] = r
        return r

    def piece(self, p):
        if 'lit' in p:
            return ('lit', p['lit'])
        if 'u64' in p:
            reg = self.c['u64'][p['u64']]
            if 'var' in reg:
                return ('u64var', self.var(reg['var']))
            return ('u64rnd', self.blob(reg['rnd_blob']))
        return ('blob', self.blob(p['blob']))

    def blob(self, b):
        r = self._blob.get(b)
        if r is not None:
            return r
        e = self.blobs[b]
        t = e['t']
        if t == 'scalar':
            r = _h('scalar', self.node(e['node']))
        elif t == 'point':
            r = _h('point', self.point(e['point']))
        elif t == 'sha3':
            r = _h('sha3', self.c['hash_inputs'][e['input']])
        elif t == 'xof':
            r = _h('xof', self.c['hash_inputs'][e['input']], e['block'])
        elif t == 'nonce':
            rec = self.c['blake'][e['rec']]
            r = _h('nonce', [self.piece(p) for p in rec['key']], rec.get('key_len'), rec.get('salt'), rec.get('persona'))
        elif t == 'chal':
            r = _h('chal', self.log(e['log']))
        elif t == 'rnd':
            r = _h('rnd', self.state(e['state']), e.get('ctr'), e.get('len'))
        else:
            r = _h(t, sorted((k, v) for k, v in e.items() if k != 't'))
        self._blob[b] = r
        return r

    def log(self, lid):
        if lid in self._log:
            return self._log[lid]
        chain, cur = [], lid
        while cur is not None and cur not in self._log:
            chain.append(cur)
            cur = self.logs[cur].get('parent')
        for i in reversed(chain):
            e = self.logs[i]
            par = self._log[e['parent']] if e.get('parent') is not None else None
            self._log[i] = _h(e['t'], e.get('label'), e.get('len'), [self.piece(p) for p in e.get('pieces', [])], par)
        return self._log[lid]

    def state(self, sid):
        r = self._state.get(sid)
        if r is None:
            s = self.c['rng_states'][sid]
            r = _h('state', self.log(s['log']), [(k['label'], k['len'], [self.piece(p) for p in k['pieces']]) for k in s['rekeys']], [self.piece(p) for p in s['ext']])
            self._state[sid] = r
        return r
