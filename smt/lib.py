"""Shared machinery of the checks: building/running the symx harness, extracting observations from a
dump, posing obligations to the solver, writing evidence."""
import json, os, re, subprocess, sys, time, hashlib, tempfile, concurrent.futures

from dag import Norm, Terms, load
from solver import Session

VERIF = os.path.dirname(os.path.dirname(os.path.abspath(__file__)))
BUILD = os.path.join(VERIF, '.build')
SYMX_BIN = os.path.join(BUILD, 'symx', 'debug', 'symx')
ENV = dict(os.environ, CARGO_NET_OFFLINE='true', RUSTFLAGS='--cfg bpp_verif')


class Inconclusive(Exception):
    pass


def build_symx():
    """(re)build the harness against /repo's current working tree"""
    env = dict(ENV, CARGO_TARGET_DIR=os.path.join(BUILD, 'symx'))
    t0 = time.time()
    r = subprocess.run(['cargo', 'build', '--quiet'], cwd=os.path.join(VERIF, 'symx'), env=env,
                       stdout=subprocess.PIPE, stderr=subprocess.STDOUT, text=True)
    if r.returncode != 0:
        sys.stdout.write(r.stdout[-6000:])
        raise Inconclusive('symx harness does not build against the current /repo tree')
    return time.time() - t0


def run_symx(cfg, seed=1, enc=0, timeout=600):
    env = dict(os.environ, VERIF_SEED=str(seed), SYMX_ENC=str(enc))
    with tempfile.NamedTemporaryFile('w', suffix='.json', delete=False, dir=BUILD) as f:
        json.dump(cfg, f)
        path = f.name
    try:
        r = subprocess.run([SYMX_BIN, '@' + path], env=env, stdout=subprocess.PIPE, stderr=subprocess.PIPE,
                           text=True, timeout=timeout)
    finally:
        os.unlink(path)
    if r.returncode != 0:
        raise Inconclusive('symx crashed on %s: %s' % (json.dumps(cfg)[:300], r.stderr[-2000:]))
    return json.loads(r.stdout)


def run_many(cfgs, seed=1, enc=0, workers=12):
    with concurrent.futures.ThreadPoolExecutor(max_workers=workers) as ex:
        return list(ex.map(lambda c: run_symx(c, seed, enc), cfgs))


# ------------------------------------------------------------------------------------------------
class Run:
    """one symx dump with helpers"""

    def __init__(self, d):
        self.d = d
        self.cfg = d['config']
        self.out = d['out']
        self.core = d['core']
        self.events = self.core['events']
        self.norm = Norm(self.core)
        self.T = self.norm.T

    # -- events
    def events_in(self, rng):
        return self.events[rng[0]:rng[1]]

    def residual_point(self, ev_range):
        """the point compared with the identity at the end of verification (last point_eq with b == 0)"""
        last = None
        for e in self.events_in(ev_range):
            if e['ev'] == 'branch' and e['kind'] == 'point_eq' and e['detail']['b'] == 0:
                last = e
        return last

    def residual_points(self, ev_range):
        """all comparisons with the identity during a verification (one per internal chunk of the batch)"""
        return [e for e in self.events_in(ev_range) if e['ev'] == 'branch' and e['kind'] == 'point_eq' and e['detail']['b'] == 0]

    def form(self, pid):
        return {b: n for b, n in self.core['points'][pid]}

    def basis_name(self, b):
        x = self.core['basis'][b]
        if x['t'] == 'gen':
            inp = bytes.fromhex(x['input'])
            if x['hash'] == 'shake256' and inp.startswith(b'GeneratorsChain'):
                kind = chr(inp[15]) if len(inp) > 15 else '?'
                party = int.from_bytes(inp[16:20], 'little') if len(inp) >= 20 else -1
                return '%s[%d][%d]' % (kind, party, x['block'])
            if x['hash'] == 'sha3_512':
                return 'g<%s>' % inp.decode('latin1')
            return 'gen<%s,%d>' % (x['input'], x['block'])
        if x['t'] == 'basepoint':
            return 'h'
        if x['t'] == 'free':
            return 'free%d' % x['k']
        return 'opaque'

    def path_condition(self, upto=None):
        """SMT assertions for the recorded scalar branches (non-zero challenges etc.)"""
        pcs = []
        evs = self.events if upto is None else self.events[:upto]
        for e in evs:
            if e['ev'] == 'branch' and e['kind'] == 'scalar_eq':
                a, b = e['detail']['a'], e['detail']['b']
                fa, fb = self.norm.frac(a), self.norm.frac(b)
                num = (fa - fb).num
                if e['outcome']:
                    pcs.append('(= t%d 0.0)' % num)
                else:
                    pcs.append('(not (= t%d 0.0))' % num)
        return pcs

    def side_conditions(self):
        """bit constraints and value definitions from the hook"""
        out = []
        hook = self.out.get('hook') or {}
        for s in hook.get('side', []):
            if s['kind'] == 'bool':
                t = self.norm.nm(s['node'])[0]
                out.append('(= (* t%d t%d) t%d)' % (t, t, t))
            elif s['kind'] == 'value_def':
                f = self.norm.frac(s['p'])
                for i, b in enumerate(s['bits']):
                    f = f + self.norm.frac(b) * (1 << i)
                v = self.norm.frac(s['v'])
                out.append('(= t%d 0.0)' % (v - f).num)
        return out

    def atom_conditions(self):
        return ['(not (= t%d 0.0))' % a for a in sorted(self.norm.atoms)]


class Discharger:
    """poses obligations, keeps statistics for the evidence file"""

    def __init__(self, tier, timeout_s=None, solvers=('z3',)):
        self.tier = tier
        self.timeout_s = timeout_s or (60 if tier == 'quick' else 300)
        self.solvers = solvers
        self.stats = {'posed': 0, 'discharged': 0, 'solver_time_s': 0.0, 'by_kind': {}, 'max_query_s': 0.0}
        self.samples = []
        self.failures = []
        self.inconclusive = []

    def session(self, kind='z3'):
        return Session(kind, self.timeout_s)

    def record(self, kind, label, ans, dt, expect, smt=None):
        self.stats['posed'] += 1
        self.stats['solver_time_s'] += dt
        self.stats['max_query_s'] = max(self.stats['max_query_s'], dt)
        k = self.stats['by_kind'].setdefault(kind, {'posed': 0, 'discharged': 0})
        k['posed'] += 1
        ok = ans == expect
        if ok:
            self.stats['discharged'] += 1
            k['discharged'] += 1
        elif ans in ('sat', 'unsat'):
            self.failures.append({'kind': kind, 'label': label, 'answer': ans, 'expected': expect})
        else:
            self.inconclusive.append({'kind': kind, 'label': label, 'answer': ans})
        if smt and len(self.samples) < 6:
            self.samples.append({'kind': kind, 'label': label, 'answer': ans, 'seconds': round(dt, 3), 'smt': smt[:1500]})
        return ok


def z3_version():
    try:
        return subprocess.run(['/usr/bin/z3', '--version'], stdout=subprocess.PIPE, text=True).stdout.strip()
    except Exception:
        return 'z3 ?'


def write_evidence(pid, tier, seed, wall, coverage, assumptions, violations=0):
    ev = {'property_id': pid, 'tier': tier, 'seed': int(seed), 'level': 'other', 'coverage': coverage,
          'assumptions': assumptions, 'wall_s': round(wall, 2), 'violations': violations}
    os.makedirs(os.path.join(VERIF, 'evidence'), exist_ok=True)
    with open(os.path.join(VERIF, 'evidence', pid + '.json'), 'w') as f:
        json.dump(ev, f, indent=1)
    return ev


# ------------------------------------------------------------------------------------------------
# generic driver for Engine S properties

REPLAY_BIN = os.path.join(BUILD, 'replay', 'debug', 'replay')
_built = {}


def build_replay():
    if _built.get('replay'):
        return
    env = dict(os.environ, CARGO_NET_OFFLINE='true', CARGO_TARGET_DIR=os.path.join(BUILD, 'replay'), RUSTFLAGS='')
    r = subprocess.run(['cargo', 'build', '--quiet'], cwd=os.path.join(VERIF, 'replay'), env=env,
                       stdout=subprocess.PIPE, stderr=subprocess.STDOUT, text=True)
    if r.returncode != 0:
        sys.stdout.write(r.stdout[-4000:])
        raise Inconclusive('replay crate does not build against the current /repo tree')
    _built['replay'] = True


def run_replay(cfg, seed=1, timeout=900):
    """(raises subprocess.TimeoutExpired when the scenario does not terminate)"""
    build_replay()
    env = dict(os.environ, VERIF_SEED=str(seed))
    with tempfile.NamedTemporaryFile('w', suffix='.json', delete=False, dir=BUILD) as f:
        json.dump(cfg, f)
        path = f.name
    try:
        r = subprocess.run([REPLAY_BIN, '@' + path], env=env, stdout=subprocess.PIPE, stderr=subprocess.PIPE,
                           text=True, timeout=timeout)
    finally:
        os.unlink(path)
    if r.returncode != 0:
        return {'crash': r.stderr[-1500:], 'returncode': r.returncode}
    return json.loads(r.stdout)['out']


class Finding:
    """a candidate violation: produced by a failed obligation or structural assertion"""

    def __init__(self, prop, key, what, cfg, concrete_pred=None, detail=None):
        self.prop = prop
        self.key = key              # stable role-based key (matched against known_findings.json)
        self.what = what
        self.cfg = cfg
        self.concrete_pred = concrete_pred  # name of predicate in replaypreds.PREDS deciding "reproduced" on a real run
        self.detail = detail or {}


def load_known():
    p = os.path.join(VERIF, 'known_findings.json')
    if not os.path.exists(p):
        return []
    return json.load(open(p))


class Ctx:
    """per-check context: tier, seed, statistics, findings, evidence"""

    def __init__(self, pid, tier, seed):
        self.pid = pid
        self.tier = tier
        self.seed = seed
        self.t0 = time.time()
        self.D = Discharger(tier)
        self.findings = []
        self.inconclusive = []
        self.cases = 0
        self.case_samples = []
        self.notes = []
        self.functions = set()
        self.extra = {}
        self.struct_checks = 0
        self.struct_ok = 0
        import threading
        self.lock = threading.Lock()
        self.cross = {'posed': 0, 'agree': 0, 'disagree': 0, 'cvc5_unknown': 0, 'seconds': 0.0}
        self.enc_compared = 0
        self.m_decided = []       # Engine M obligation groups decided on this tree
        self.m_not_decided = []   # ... and those whose code shape the translator did not recognise (NOTE lines; not an alarm)

    def m_note(self, group, reason):
        with self.lock:
            self.m_not_decided.append({'group': group, 'reason': str(reason)[:400]})

    def quick(self):
        return self.tier == 'quick'

    # structural assertion (observed on the executed path; not a solver query)
    def expect(self, cond, prop_key, what, cfg, pred=None, detail=None):
        self.struct_checks += 1
        if cond:
            self.struct_ok += 1
            return True
        self.findings.append(Finding(self.pid, prop_key, what, cfg, pred, detail))
        return False

    def solve_nonzero(self, S, run, label, num, extra=(), cfg=None, key=None, pred=None, detail=None):
        """not-identically-zero(t): existential query, expected sat. A witness is first looked for on a line through the
        assignment space (concrete bits/values from the run, small distinct integers for everything else): that makes the
        query a ground evaluation; only if that particular point is a root is the unconstrained query posed."""
        T = run.T
        seen, stack, vs = set(), [num], []
        while stack:
            t = stack.pop()
            if t in seen:
                continue
            seen.add(t)
            k = T.kind[t]
            if k[0] == 'v':
                vs.append(k[1])
            elif k[0] != 'c':
                stack.extend(k[1:])
        kinds = {('x_' + v['name']): v for v in run.core['vars']}
        assign = []
        for i, v in enumerate(sorted(vs)):
            info = kinds.get(v)
            if info is not None and info['kind'] in ('bit', 'value', 'promise'):
                assign.append('(= %s %s.0)' % (v, info['shadow']))
            else:
                assign.append('(= %s %d.0)' % (v, 2 + 3 * i))
        side = list(extra)
        ans, dt, _ = S.check(assign + side + ['(not (= t%d 0.0))' % num])
        if ans == 'sat':
            self.D.record('not-identically-zero', label, 'sat', dt, 'sat', '\n'.join('(assert %s)' % a for a in assign[:6] + ['...', '(not (= t%d 0.0))' % num]))
            return True
        return self.solve(S, 'not-identically-zero', label, side + ['(not (= t%d 0.0))' % num], expect='sat', cfg=cfg, key=key, pred=pred, detail=detail)

    def solve(self, S, kind, label, assertions, expect='unsat', cfg=None, key=None, pred=None, detail=None):
        """pose one obligation; on the wrong definite answer register a finding; on unknown/error register inconclusive"""
        ans, dt, _ = S.check(assertions)
        # thorough tier: every 40th obligation of a session is re-decided by cvc5 (second opinion on the encoding)
        x = getattr(S, 'cross', None)
        if x is not None and ans in ('sat', 'unsat'):
            S.n_cross = getattr(S, 'n_cross', 0) + 1
            if S.n_cross % 40 == 1:
                x.T = S.T
                a2, d2, _ = x.check(assertions)
                with self.lock:
                    self.cross['posed'] += 1
                    self.cross['seconds'] += d2
                    if a2 == ans:
                        self.cross['agree'] += 1
                    elif a2 in ('sat', 'unsat'):
                        self.cross['disagree'] += 1
                        self.inconclusive.append('solver disagreement on %s: z3 %s, cvc5 %s' % (label, ans, a2))
                    else:
                        self.cross['cvc5_unknown'] += 1
        smt = '\n'.join('(assert %s)' % a for a in assertions)
        ok = self.D.record(kind, label, ans, dt, expect, smt)
        if not ok:
            if ans in ('sat', 'unsat'):
                self.findings.append(Finding(self.pid, key or label, '%s obligation %s answered %s (expected %s)' % (kind, label, ans, expect),
                                             cfg, pred, detail))
            else:
                self.inconclusive.append('%s %s: solver answered %s' % (kind, label, ans))
        return ok


def finish(ctx, assumptions, functions, bounds, outside, rule):
    """replay findings, print verdict lines, write evidence, return exit code"""
    import replaypreds
    known = load_known()
    violations = []
    known_hits = []
    not_reproduced = []
    bykey = {}
    for f in ctx.findings:
        bykey.setdefault(f.key, []).append(f)
    for key, fs in bykey.items():
        kf = [k for k in known if k.get('property') == fs[0].prop and k.get('status') == 'known' and k.get('key') == key]
        outcome = None
        # several findings may share a role key: replay up to four of them (different scenarios) until one reproduces
        # scenarios made of concrete content (literal encodings, fixed special values) first: they replay bit-for-bit
        # ... then a deterministic, DIVERSE sample: distinct scenarios only (the parallel analysis produces findings in scheduling order, and
        # hundreds of assertions of one role may fail at once), at most eight of them, evenly spaced over the sorted list
        seen_cfg, uniq = set(), []
        for f in sorted(fs, key=lambda f: (-f.detail.get('replay_priority', 0), json.dumps(f.detail.get('replay_cfg') or f.cfg, sort_keys=True, default=str), f.what)):
            k = (f.concrete_pred, json.dumps(f.detail.get('replay_cfg') or f.cfg, sort_keys=True, default=str))
            if k not in seen_cfg:
                seen_cfg.add(k)
                uniq.append(f)
        top = [f for f in uniq if f.detail.get('replay_priority', 0) > 0][:4]
        rest = [f for f in uniq if f not in top]
        if len(rest) > 8 - len(top):
            n_ = 8 - len(top)
            rest = [rest[(i * (len(rest) - 1)) // max(n_ - 1, 1)] for i in range(n_)]
        fs = top + rest
        for f in fs:
            reproduced, rep_detail = None, None
            if f.concrete_pred:
                try:
                    reproduced, rep_detail = replaypreds.PREDS[f.concrete_pred](f)
                except Exception as e:  # replay machinery failure => inconclusive
                    reproduced, rep_detail = None, 'replay failed: %r' % (e,)
            if reproduced is True:
                outcome = (f, rep_detail)
                break
            if outcome is None:
                outcome = (f, rep_detail, False)
        if len(outcome) == 2:
            if kf:
                known_hits.append((outcome[0], kf[0]))
            else:
                violations.append(outcome)
        elif all(getattr(f, 'engine', 'S') == 'M' for f in fs):
            # a counterexample / structural mismatch that exists only in the MIR encoding and does not reproduce on the real crates:
            # the encoding does not describe this tree's code shape (e.g. a refactored region) -> that obligation group is not decided here
            if any(f.concrete_pred for f in fs):
                ctx.m_note(key, 'the MIR encoding disagrees with the specification but the real crates do not (%s; replay: %s)' % (outcome[0].what[:200], str(outcome[1])[:120]))
            else:
                ctx.m_note(key, 'the MIR encoding disagrees with the specification and no concrete replay exists for this obligation (%s)' % outcome[0].what[:200])
        else:
            not_reproduced.append((outcome[0], outcome[1]))
    code = 0
    os.makedirs(os.path.join(VERIF, 'replays'), exist_ok=True)
    for nd in ctx.m_not_decided:
        print('NOTE property=%s part of this check not decided on this tree (code shape not recognised by the translator / model; the other parts of the check still ran): %s — %s'
              % (ctx.pid, nd['group'], nd['reason'][:300]))
    for f, kf in known_hits:
        print('KNOWN-FINDING: property=%s %s' % (f.prop, kf.get('what', f.key)))
    for f, rd in violations:
        h = hashlib.sha1((f.key + json.dumps(f.cfg, sort_keys=True)).encode()).hexdigest()[:10]
        path = os.path.join(VERIF, 'replays', '%s-%s.json' % (f.prop, h))
        json.dump({'property': f.prop, 'key': f.key, 'what': f.what, 'scenario': f.cfg, 'pred': f.concrete_pred,
                   'replayed': rd, 'detail': f.detail}, open(path, 'w'), indent=1)
        print('VIOLATION property=%s replay=%s' % (f.prop, path))
        print('  what: %s' % f.what)
        code = 1
    if os.environ.get('VERIF_STRICT_M') == '1' and ctx.m_not_decided:
        # strict mode (used on the pinned tree): every Engine M group must be decided
        ctx.inconclusive.append('VERIF_STRICT_M=1: %d Engine M group(s) not decided' % len(ctx.m_not_decided))
    if code == 0 and (not_reproduced or ctx.inconclusive or ctx.D.inconclusive):
        for f, rd in not_reproduced[:10]:
            print('INCONCLUSIVE property=%s: %s — not reproduced on the real crates (%s)' % (f.prop, f.what, str(rd)[:300]))
        for s in (ctx.inconclusive + [str(x) for x in ctx.D.inconclusive])[:10]:
            print('INCONCLUSIVE property=%s: %s' % (ctx.pid, s))
        code = 2
    st = ctx.D.stats
    coverage = {
        'explanation': 'bounded symbolic verification: the real source is executed on symbolic scalars / group elements / hash '
                       'oracles (model dependency crates), every obligation below is a solver verdict over ALL values of the '
                       'symbolic variables inside one enumerated configuration',
        'obligations': st['posed'], 'discharged': st['discharged'],
        'by_kind': st['by_kind'], 'solver_time_s': round(st['solver_time_s'], 2), 'max_query_s': round(st['max_query_s'], 2),
        'structural_assertions': ctx.struct_checks, 'structural_ok': ctx.struct_ok,
        'configurations': ctx.cases,
        'evaluations': max(ctx.cases, 1), 'distinct_nontrivial': max(st['posed'], 2) if st['posed'] else 2,
        'rule': rule,
        'checker_cmd': '/usr/bin/z3 -in -smt2 (check-sat-using qfnra) ; ' + z3_version(),
        'trusted_base': assumptions,
        'functions_encoded': sorted(functions),
        'bounds': bounds, 'outside_claim': outside,
        'samples': (ctx.D.samples + ctx.case_samples)[:8] or [{'note': 'no obligations posed'}],
        'known_findings_hit': [kf.get('key') for _, kf in known_hits],
        'inconclusive': (ctx.inconclusive + [str(x) for x in ctx.D.inconclusive])[:20],
        'notes': ctx.notes[:20],
        'engine_m_groups_decided': sorted(set(ctx.m_decided)), 'engine_m_groups_not_decided': ctx.m_not_decided,
        'cvc5_cross_check': ctx.cross, 'two_encoding_runs_compared': ctx.enc_compared,
    }
    coverage.update(ctx.extra)
    write_evidence(ctx.pid, ctx.tier, ctx.seed, time.time() - ctx.t0, coverage, assumptions, violations=len(violations))
    print('%s %s: %d configurations, %d/%d obligations discharged, %d/%d structural assertions, solver %.1fs, wall %.1fs -> exit %d' % (
        ctx.pid, ctx.tier, ctx.cases, st['discharged'], st['posed'], ctx.struct_ok, ctx.struct_checks, st['solver_time_s'],
        time.time() - ctx.t0, code))
    return code


_H0 = re.compile(r'([0-9a-f]{8})01' + '00' * 19 + '53594d58217ec3a5')
_H1 = re.compile('00' * 12 + r'([0-9a-f]{8})01' + '00' * 7 + '911c770bee425af3')


def _canon_handles(text):
    """the two handle encodings of one blob id (symcore::enc32) are the same object: rewrite both to <blob:id>"""
    return _H1.sub(r'<blob:\1>', _H0.sub(r'<blob:\1>', text))


def parallel_cases(ctx, cases, analyse, workers=14, enc=0):
    """run symx on every case config and analyse each dump (own solver session per worker thread)"""
    def work(case):
        try:
            d = run_symx(case['cfg'], ctx.seed, enc, timeout=300)
        except subprocess.TimeoutExpired:
            # the library call itself does not return (e.g. a rejection-sampling loop fed by a stuck RNG): an outcome, replayed on the real crates
            with ctx.lock:
                ctx.findings.append(Finding(ctx.pid, ctx.pid + ':does-not-terminate', 'the scenario did not terminate within 300 s on the model crates: %s' % json.dumps(case['cfg'])[:300],
                                            case['cfg'], 'does_not_terminate'))
            return True
        run = Run(d)
        S = Session('z3', ctx.D.timeout_s)
        S.T = run.T
        if not ctx.quick() and os.environ.get('VERIF_NO_CVC5') != '1':
            S.cross = Session('cvc5', 60)
        try:
            analyse(ctx, case, run, S)
        finally:
            S.close()
            if getattr(S, 'cross', None) is not None:
                S.cross.close()
        if not ctx.quick():
            # assumption A3 (opaque 32-byte elements), checked: the same scenario under the second handle encoding must take the
            # same control flow and give the same results
            d2 = run_symx(case['cfg'], ctx.seed, 1 - enc)
            if _canon_handles(json.dumps(d2['out'], sort_keys=True)) != _canon_handles(json.dumps(d['out'], sort_keys=True)):
                ctx.inconclusive.append('A3 violated: results depend on the byte encoding of symbolic elements for %s' % json.dumps(case['cfg'])[:200])
            with ctx.lock:
                ctx.enc_compared += 1
        return True
    def cost(c):
        cfg = c['cfg']
        try:
            return -(int(cfg.get('n', 1)) * sum(int(mm.get('m', 1)) for mm in cfg.get('members', [{}])))
        except Exception:
            return 0
    cases = sorted(cases, key=cost)    # the expensive configurations first, so that the tail of the run is not a few long sessions
    with concurrent.futures.ThreadPoolExecutor(max_workers=workers) as ex:
        futs = [ex.submit(work, c) for c in cases]
        for f, c in zip(futs, cases):
            try:
                f.result()
                ctx.cases += 1
            except Inconclusive as e:
                ctx.inconclusive.append(str(e)[:500])
            except Exception as e:
                import traceback
                ctx.inconclusive.append('analysis crashed on %s: %s' % (json.dumps(c['cfg'])[:200], traceback.format_exc()[-800:]))


A_ALL = {
    'A1': 'A1 random-oracle abstraction: Merlin challenges, TranscriptRng output, Blake2b nonces, SHAKE/SHA3 hash-to-group outputs are '
          'function symbols of their recorded inputs with independent outputs; collisions and probability<=deg/l events are outside the claim',
    'A2': 'A2 algebraic group model: group elements are linear forms over named generators with unknown mutual discrete logarithms',
    'A3': 'A3 opaque 32-byte elements: the library looks inside scalars / compressed points only through the dalek API',
    'A4': 'A4 polynomial identities are decided over the reals (integer coefficients => valid in every commutative ring, in particular F_l); sat answers are replayed on the real crates',
    'A5': 'A5 the model crates (/verif/shim) implement the documented contracts of curve25519-dalek 4.1.3, merlin 3.0.0, blake2 0.10.6, sha3 0.10.9',
    'A6': 'A6 Kani models the dev profile and CBMC memory model; allocation failure out of scope',
    'HOOK': 'bit hook: after the decomposition loop the concrete bit vector is replaced by symbolic bits b (b*b=b) with v = p + sum b_i 2^i; '
            'that the loop computes exactly that expansion for every u64 is the Engine M lemma of C06',
}
