"""Shared machinery of the checks: building/running the symx harness, extracting observations from a
dump, posing obligations to the solver, writing evidence."""
import json, os, subprocess, sys, time, hashlib, tempfile, concurrent.futures

from dag import Norm, Terms, load
from solver import Session

VERIF = os.path.dirname(os.path.dirname(os.path.abspath(__file__)))
BUILD = os.path.join(VERIF, '.build')
SYMX_BIN = os.path.join(BUILD, 'symx', 'debug', 'symx')
ENV = dict(os.environ, CARGO_NET_OFFLINE='true', RUSTFLAGS='--cfg bpp_verif')


class Inconclusive(Exception):
    pass


def build_symx():
    """(re)build the harness against /repo's current working tree"""
    env = dict(ENV, CARGO_TARGET_DIR=os.path.join(BUILD, 'symx'))
    t0 = time.time()
    r = subprocess.run(['cargo', 'build', '--quiet'], cwd=os.path.join(VERIF, 'symx'), env=env,
                       stdout=subprocess.PIPE, stderr=subprocess.STDOUT, text=True)
    if r.returncode != 0:
        sys.stdout.write(r.stdout[-6000:])
        raise Inconclusive('symx harness does not build against the current /repo tree')
    return time.time() - t0


def run_symx(cfg, seed=1, enc=0, timeout=600):
    env = dict(os.environ, VERIF_SEED=str(seed), SYMX_ENC=str(enc))
    with tempfile.NamedTemporaryFile('w', suffix='.json', delete=False, dir=BUILD) as f:
        json.dump(cfg, f)
        path = f.name
    try:
        r = subprocess.run([SYMX_BIN, '@' + path], env=env, stdout=subprocess.PIPE, stderr=subprocess.PIPE,
                           text=True, timeout=timeout)
    finally:
        os.unlink(path)
    if r.returncode != 0:
        raise Inconclusive('symx crashed on %s: %s' % (json.dumps(cfg)[:300], r.stderr[-2000:]))
    return json.loads(r.stdout)


def run_many(cfgs, seed=1, enc=0, workers=12):
    with concurrent.futures.ThreadPoolExecutor(max_workers=workers) as ex:
        return list(ex.map(lambda c: run_symx(c, seed, enc), cfgs))


# ------------------------------------------------------------------------------------------------
class Run:
    """one symx dump with helpers"""

    def __init__(self, d):
        self.d = d
        self.cfg = d['config']
        self.out = d['out']
        self.core = d['core']
        self.events = self.core['events']
        self.norm = Norm(self.core)
        self.T = self.norm.T

    # -- events
    def events_in(self, rng):
        return self.events[rng[0]:rng[1]]

    def residual_point(self, ev_range):
        """the point compared with the identity at the end of verification (last point_eq with b == 0)"""
        last = None
        for e in self.events_in(ev_range):
            if e['ev'] == 'branch' and e['kind'] == 'point_eq' and e['detail']['b'] == 0:
                last = e
        return last

    def form(self, pid):
        return {b: n for b, n in self.core['points'][pid]}

    def basis_name(self, b):
        x = self.core['basis'][b]
        if x['t'] == 'gen':
            inp = bytes.fromhex(x['input'])
            if x['hash'] == 'shake256' and inp.startswith(b'GeneratorsChain'):
                kind = chr(inp[15]) if len(inp) > 15 else '?'
                party = int.from_bytes(inp[16:20], 'little') if len(inp) >= 20 else -1
                return '%s[%d][%d]' % (kind, party, x['block'])
            if x['hash'] == 'sha3_512':
                return 'g<%s>' % inp.decode('latin1')
            return 'gen<%s,%d>' % (x['input'], x['block'])
        if x['t'] == 'basepoint':
            return 'h'
        if x['t'] == 'free':
            return 'free%d' % x['k']
        return 'opaque'

    def path_condition(self, upto=None):
        """SMT assertions for the recorded scalar branches (non-zero challenges etc.)"""
        pcs = []
        evs = self.events if upto is None else self.events[:upto]
        for e in evs:
            if e['ev'] == 'branch' and e['kind'] == 'scalar_eq':
                a, b = e['detail']['a'], e['detail']['b']
                fa, fb = self.norm.frac(a), self.norm.frac(b)
                num = (fa - fb).num
                if e['outcome']:
                    pcs.append('(= t%d 0.0)' % num)
                else:
                    pcs.append('(not (= t%d 0.0))' % num)
        return pcs

    def side_conditions(self):
        """bit constraints and value definitions from the hook"""
        out = []
        hook = self.out.get('hook') or {}
        for s in hook.get('side', []):
            if s['kind'] == 'bool':
                t = self.norm.nm(s['node'])[0]
                out.append('(= (* t%d t%d) t%d)' % (t, t, t))
            elif s['kind'] == 'value_def':
                f = self.norm.frac(s['p'])
                for i, b in enumerate(s['bits']):
                    f = f + self.norm.frac(b) * (1 << i)
                v = self.norm.frac(s['v'])
                out.append('(= t%d 0.0)' % (v - f).num)
        return out

    def atom_conditions(self):
        return ['(not (= t%d 0.0))' % a for a in sorted(self.norm.atoms)]


class Discharger:
    """poses obligations, keeps statistics for the evidence file"""

    def __init__(self, tier, timeout_s=None, solvers=('z3',)):
        self.tier = tier
        self.timeout_s = timeout_s or (60 if tier == 'quick' else 300)
        self.solvers = solvers
        self.stats = {'posed': 0, 'discharged': 0, 'solver_time_s': 0.0, 'by_kind': {}, 'max_query_s': 0.0}
        self.samples = []
        self.failures = []
        self.inconclusive = []

    def session(self, kind='z3'):
        return Session(kind, self.timeout_s)

    def record(self, kind, label, ans, dt, expect, smt=None):
        self.stats['posed'] += 1
        self.stats['solver_time_s'] += dt
        self.stats['max_query_s'] = max(self.stats['max_query_s'], dt)
        k = self.stats['by_kind'].setdefault(kind, {'posed': 0, 'discharged': 0})
        k['posed'] += 1
        ok = ans == expect
        if ok:
            self.stats['discharged'] += 1
            k['discharged'] += 1
        elif ans in ('sat', 'unsat'):
            self.failures.append({'kind': kind, 'label': label, 'answer': ans, 'expected': expect})
        else:
            self.inconclusive.append({'kind': kind, 'label': label, 'answer': ans})
        if smt and len(self.samples) < 6:
            self.samples.append({'kind': kind, 'label': label, 'answer': ans, 'seconds': round(dt, 3), 'smt': smt[:1500]})
        return ok


def z3_version():
    try:
        return subprocess.run(['/usr/bin/z3', '--version'], stdout=subprocess.PIPE, text=True).stdout.strip()
    except Exception:
        return 'z3 ?'


def write_evidence(pid, tier, seed, wall, coverage, assumptions, violations=0):
    ev = {'property_id': pid, 'tier': tier, 'seed': int(seed), 'level': 'other', 'coverage': coverage,
          'assumptions': assumptions, 'wall_s': round(wall, 2), 'violations': violations}
    os.makedirs(os.path.join(VERIF, 'evidence'), exist_ok=True)
    with open(os.path.join(VERIF, 'evidence', pid + '.json'), 'w') as f:
        json.dump(ev, f, indent=1)
    return ev
