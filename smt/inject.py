"""log-injectivity obligations (DESIGN.md §2.1 'log-injective'): does what a hash/oracle output is derived from
determine a given group of data?  Two copies of all atomic data (plain and primed); assert that everything absorbed
(transitively, oracle outputs being injective-input function symbols, A1) is equal in both copies, that every datum
outside the group D is equal, and that some datum of D differs.  unsat <=> the oracle input determines D."""
from dag import Norm
from logs import LogView

ORACLE_KINDS = ('chal', 'rnd', 'nonce', 'hash')


class Injectivity:
    def __init__(self, run):
        self.run = run
        self.core = run.core
        self.lv = LogView(self.core)
        self.n1 = run.norm
        self.n2 = Norm(self.core, terms=run.T, rename=lambda s: s + '__2')
        self.varkind = {v['name']: v['kind'] for v in self.core['vars']}
        self.varmeta = {v['name']: v for v in self.core['vars']}

    # ---- atoms
    def atoms_of_node(self, nid, acc, oracle_acc):
        """variables occurring in a scalar node; oracle-derived ones are collected separately"""
        nodes = self.core['nodes']
        stack = [nid]
        seen = set()
        while stack:
            c = stack.pop()
            if c in seen:
                continue
            seen.add(c)
            op = nodes[c]
            if op[0] == 'v':
                v = self.core['vars'][op[1]]
                if v['kind'] in ORACLE_KINDS:
                    oracle_acc.add(v['name'])
                else:
                    acc.add(v['name'])
            elif op[0] != 'c':
                stack.extend(op[1:])

    def eq_scalar(self, nid):
        """SMT: the scalar has the same value in both copies (cross-multiplied N/M)"""
        (n1, d1, _), (n2, d2, _) = self.n1.nm(nid), self.n2.nm(nid)
        T = self.run.T
        a = T.mul(n1, T.mono_term(d2)) if d2 else n1
        b = T.mul(n2, T.mono_term(d1)) if d1 else n2
        return '(= t%d t%d)' % (a, b)

    def free_atom(self, b):
        x = self.core['basis'][b]
        if x['t'] == 'free':
            return 'freept_%d' % x['k']
        return None

    def collect(self, ref, eqs, atoms, visited):
        """ref: ('log', id) | ('rng', state id) | ('blake', rec id) | ('blob', blob id)"""
        if ref in visited:
            return
        visited.add(ref)
        kind, i = ref
        if kind == 'log':
            for lid, e in self.lv.chain(i):
                if e['t'] == 'append':
                    for p in e['pieces']:
                        self.collect_piece(p, eqs, atoms, visited)
        elif kind == 'rng':
            s = self.core['rng_states'][i]
            self.collect(('log', s['log']), eqs, atoms, visited)
            for rk in s['rekeys']:
                for p in rk['pieces']:
                    self.collect_piece(p, eqs, atoms, visited)
            for p in s['ext']:
                self.collect_piece(p, eqs, atoms, visited)
        elif kind == 'blake':
            r = self.core['blake'][i]
            for p in r['key']:
                self.collect_piece(p, eqs, atoms, visited)
        elif kind == 'blob':
            self.collect_piece({'blob': i}, eqs, atoms, visited)

    def collect_oracle_var(self, name, eqs, atoms, visited):
        meta = self.varmeta[name]['meta'] or {}
        if 'blob' in meta:
            self.collect_piece({'blob': meta['blob']}, eqs, atoms, visited)

    def collect_piece(self, p, eqs, atoms, visited):
        T = self.run.T
        if 'lit' in p:
            return
        if 'u64' in p:
            reg = self.core['u64'][p['u64']]
            if 'var' in reg:
                name = self.core['vars'][reg['var']]['name']
                atoms.add(name)
                eqs.append('(= t%d t%d)' % (self.n1.fvar(name).num, self.n2.fvar(name).num))
            else:
                self.collect_piece({'blob': reg['rnd_blob']}, eqs, atoms, visited)
            return
        bid = p['blob']
        b = self.core['blobs'][bid]
        t = b['t']
        if t == 'scalar':
            acc, oacc = set(), set()
            self.atoms_of_node(b['node'], acc, oacc)
            atoms |= acc
            eqs.append(self.eq_scalar(b['node']))
            for o in oacc:
                # an oracle output inside an absorbed term: treated as an atom AND tied to its own inputs
                atoms.add(o)
                self.collect_oracle_var(o, eqs, atoms, visited)
        elif t == 'point':
            for bb, nid in self.core['points'][b['point']]:
                acc, oacc = set(), set()
                self.atoms_of_node(nid, acc, oacc)
                atoms |= acc | oacc
                eqs.append(self.eq_scalar(nid))
                fa = self.free_atom(bb)
                if fa:
                    atoms.add(fa)
                    eqs.append('(= t%d t%d)' % (T.var(fa), T.var(fa + '__2')))
        elif t == 'elem':
            name = 'elem_%d' % b['k']
            atoms.add(name)
            eqs.append('(= t%d t%d)' % (T.var(name), T.var(name + '__2')))
        elif t == 'ext':
            name = 'ext_%d_%d' % (b['stream'], b['ctr'])
            atoms.add(name)
            eqs.append('(= t%d t%d)' % (T.var(name), T.var(name + '__2')))
        elif t == 'chal':
            self.collect(('log', b['log']), eqs, atoms, visited)
        elif t == 'rnd':
            self.collect(('rng', b['state']), eqs, atoms, visited)
        elif t == 'nonce':
            self.collect(('blake', b['rec']), eqs, atoms, visited)
        # xof / sha3 blocks depend on literal inputs only

    def query(self, ref, group, universe=None):
        """assertions of the injectivity query for oracle object `ref` and datum group `group` (atom names).
        returns (assertions, atoms_seen). `universe`: atoms that exist in the scenario (defaults to those seen)."""
        eqs, atoms, visited = [], set(), set()
        self.collect(ref, eqs, atoms, visited)
        T = self.run.T
        allatoms = set(universe or atoms) | set(group)
        asserts = list(dict.fromkeys(eqs))
        for a in sorted(allatoms):
            if a in group:
                continue
            asserts.append('(= t%d t%d)' % (T.var(a), T.var(a + '__2')))
        diffs = ['(not (= t%d t%d))' % (T.var(a), T.var(a + '__2')) for a in sorted(group)]
        asserts.append('(or %s)' % ' '.join(diffs) if len(diffs) > 1 else diffs[0])
        return asserts, atoms
