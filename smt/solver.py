"""Long-lived SMT solver sessions (z3 -in / cvc5 --incremental) with push/pop per obligation."""
import subprocess, time, os, select


class Session:
    def __init__(self, kind='z3', timeout_s=60, logic=None, log=None, tactic='qfnra'):
        self.tactic = tactic
        self.kind = kind
        self.timeout_s = timeout_s
        if kind == 'z3':
            cmd = ['/usr/bin/z3', '-in', '-smt2']
        elif kind == 'z3new':
            cmd = ['z3-new', '-in', '-smt2']
        elif kind == 'cvc5':
            cmd = ['cvc5', '--lang', 'smt2', '--incremental', '--tlimit-per=%d' % (timeout_s * 1000)]
        else:
            raise ValueError(kind)
        self.p = subprocess.Popen(cmd, stdin=subprocess.PIPE, stdout=subprocess.PIPE, stderr=subprocess.STDOUT,
                                  text=True, bufsize=1)
        self.defined_terms = 0
        self.declared = set()
        self.log = open(log, 'w') if log else None
        self.queries = 0
        self.solver_time = 0.0
        self.errors = []
        if logic is None and kind == 'cvc5':
            logic = 'QF_NRA'
        if logic:
            self.send('(set-logic %s)' % logic)
        if kind.startswith('z3'):
            self.send('(set-option :timeout %d)' % (timeout_s * 1000))

    def send(self, s):
        if self.log:
            self.log.write(s + '\n')
        self.p.stdin.write(s + '\n')

    def sync_terms(self, T):
        """declare variables and define terms created since the last call"""
        for v in T.var_order:
            if v not in self.declared:
                self.declared.add(v)
                self.send('(declare-const %s Real)' % v)
        while self.defined_terms < len(T.defs):
            i = self.defined_terms
            self.send('(define-fun t%d () Real %s)' % (i, T.defs[i]))
            self.defined_terms += 1

    def check(self, assertions, want_model=False, model_vars=()):
        """push; assert all; check-sat; pop.  returns (answer, seconds, model dict|None).
        any '(error' line makes the answer 'error' (inconclusive)."""
        if getattr(self, 'T', None) is not None:
            self.sync_terms(self.T)
        self.send('(push 1)')
        for a in assertions:
            self.send('(assert %s)' % a)
        marker = 'MARK_%d' % self.queries
        if self.kind.startswith('z3') and self.tactic:
            # the incremental core of z3 is hopeless on these polynomial queries; the QF_NRA tactic decides them
            self.send('(check-sat-using %s)' % self.tactic)
        else:
            self.send('(check-sat)')
        self.send('(echo "%s")' % marker)
        self.p.stdin.flush()
        t0 = time.time()
        lines = []
        deadline = t0 + self.timeout_s * 3 + 30
        while True:
            if time.time() > deadline:
                lines.append('timeout-wallclock')
                break
            line = self.p.stdout.readline()
            if not line:
                lines.append('(error "solver died")')
                break
            line = line.strip()
            if line == marker or line == '"%s"' % marker:
                break
            if line:
                lines.append(line)
        dt = time.time() - t0
        self.queries += 1
        self.solver_time += dt
        ans = 'error'
        for l in lines:
            if l in ('sat', 'unsat', 'unknown'):
                ans = l
        if any('(error' in l for l in lines):
            self.errors.append(lines)
            ans = 'error'
        if any(l.startswith('timeout') for l in lines) and ans not in ('sat', 'unsat'):
            ans = 'unknown'
        model = None
        if ans == 'sat' and want_model and model_vars:
            self.send('(get-value (%s))' % ' '.join(model_vars))
            self.send('(echo "%s_m")' % marker)
            self.p.stdin.flush()
            buf = []
            while True:
                line = self.p.stdout.readline()
                if not line:
                    break
                line = line.strip()
                if line == marker + '_m' or line == '"%s_m"' % marker:
                    break
                buf.append(line)
            model = ' '.join(buf)
        self.send('(pop 1)')
        return ans, dt, model

    def close(self):
        try:
            self.send('(exit)')
            self.p.stdin.close()
            self.p.wait(timeout=5)
        except Exception:
            self.p.kill()
        if self.log:
            self.log.close()
