"""Long-lived SMT solver sessions (z3 -in / cvc5 --incremental) with push/pop per obligation."""
import subprocess, time, os, select


class Session:
    retry_budget = 8
    total_unknowns = 0       # per process: see check()

    def __init__(self, kind='z3', timeout_s=60, logic=None, log=None, tactic='qfnra'):
        self.tactic = tactic
        self.kind = kind
        self.timeout_s = timeout_s
        if kind == 'z3':
            cmd = ['/usr/bin/z3', '-in', '-smt2']
        elif kind == 'z3new':
            cmd = ['z3-new', '-in', '-smt2']
        elif kind == 'cvc5':
            cmd = ['cvc5', '--lang', 'smt2', '--incremental', '--tlimit-per=%d' % (timeout_s * 1000)]
        else:
            raise ValueError(kind)
        self.cmd = cmd
        if logic is None and kind == 'cvc5':
            logic = 'QF_NRA'
        self.logic = logic
        self.log = open(log, 'w') if log else None
        self.queries = 0
        self.solver_time = 0.0
        self.errors = []
        self.restarts = 0
        self._start()

    def _start(self):
        self.p = subprocess.Popen(self.cmd, stdin=subprocess.PIPE, stdout=subprocess.PIPE, stderr=subprocess.STDOUT, bufsize=0)
        self.rbuf = b''
        self.wbuf = []
        self.defined_terms = 0
        self.declared = set()
        self.dead = False
        if self.logic:
            self.send('(set-logic %s)' % self.logic)
        if self.kind.startswith('z3'):
            self.send('(set-option :timeout %d)' % (self.timeout_s * 1000))

    def send(self, s):
        if self.log:
            self.log.write(s + '\n')
        self.wbuf.append(s)
        if len(self.wbuf) > 2000:
            self.flush()

    def flush(self):
        if not self.wbuf:
            return
        data = ('\n'.join(self.wbuf) + '\n').encode()
        self.wbuf = []
        try:
            self.p.stdin.write(data)
        except (BrokenPipeError, ValueError, OSError):
            self.dead = True

    def readline(self, deadline):
        """one line of solver output; None on timeout, '' on EOF"""
        fd = self.p.stdout.fileno()
        while b'\n' not in self.rbuf:
            remaining = deadline - time.time()
            if remaining <= 0:
                return None
            r, _, _ = select.select([fd], [], [], min(remaining, 5.0))
            if not r:
                continue
            chunk = os.read(fd, 65536)
            if not chunk:
                return ''
            self.rbuf += chunk
        line, self.rbuf = self.rbuf.split(b'\n', 1)
        return line.decode(errors='replace').strip() + '\n'

    def sync_terms(self, T):
        """declare variables and define terms created since the last call"""
        for v in T.var_order:
            if v not in self.declared:
                self.declared.add(v)
                self.send('(declare-const %s Real)' % v)
        while self.defined_terms < len(T.defs):
            i = self.defined_terms
            self.send('(define-fun t%d () Real %s)' % (i, T.defs[i]))
            self.defined_terms += 1

    def check(self, assertions, want_model=False, model_vars=()):
        """one query; an `unknown` / time-out (never an error) is retried ONCE in a fresh solver process with five times the time limit:
        the limits are wall-clock, and a loaded machine can push a sub-second query over a one-minute limit"""
        if Session.total_unknowns >= 6 and not getattr(self, '_retrying', False):
            self.timeout_s = min(self.timeout_s, 5)
        ans, dt, model = self._check_once(assertions, want_model, model_vars)
        if ans == 'unknown':
            Session.total_unknowns += 1
            # a session that keeps timing out (a tree on which the obligations no longer hold tends to produce many hard non-identities) is not
            # allowed to spend a minute on each: after three, its limit drops to five seconds (the answers stay `unknown` = inconclusive)
            self.unknowns = getattr(self, 'unknowns', 0) + 1
            if self.unknowns >= 3 and not getattr(self, '_retrying', False):
                self.timeout_s = min(self.timeout_s, 5)
        if ans == 'unknown' and not getattr(self, '_retrying', False) and Session.retry_budget > 0 and getattr(self, 'unknowns', 0) <= 2:
            Session.retry_budget -= 1      # (per process: a tree on which MANY queries time out is not made 6 times slower)
            self._retrying = True
            old = self.timeout_s
            try:
                if not self.dead:
                    self.p.kill()
                    self.dead = True
                self.timeout_s = old * 5
                ans2, dt2, model2 = self._check_once(assertions, want_model, model_vars)
                self.retried = getattr(self, 'retried', 0) + 1
                ans, dt, model = ans2, dt + dt2, model2
            finally:
                self.timeout_s = old
                self._retrying = False
        return ans, dt, model

    def _check_once(self, assertions, want_model=False, model_vars=()):
        """push; assert all; check-sat; pop.  returns (answer, seconds, model dict|None).
        any '(error' line makes the answer 'error' (inconclusive)."""
        if self.dead:
            self.restarts += 1
            self._start()
        if getattr(self, 'T', None) is not None:
            self.sync_terms(self.T)
        self.send('(push 1)')
        for a in assertions:
            self.send('(assert %s)' % a)
        marker = 'MARK_%d' % self.queries
        if self.kind.startswith('z3') and self.tactic:
            # the incremental core of z3 is hopeless on these polynomial queries; the QF_NRA tactic decides them.
            # (set-option :timeout) does not bound tactics: try-for does.
            self.send('(check-sat-using (try-for %s %d))' % (self.tactic, self.timeout_s * 1000))
        else:
            self.send('(check-sat)')
        self.send('(echo "%s")' % marker)
        self.flush()
        t0 = time.time()
        lines = []
        deadline = t0 + self.timeout_s * 1.5 + 20
        killed = False
        while True:
            line = self.readline(deadline)
            if line is None:
                # hard wall-clock guard: the solver ignored its own limit; kill it, the session is restarted lazily
                lines.append('timeout-wallclock')
                self.p.kill()
                killed = True
                break
            if line == '':
                lines.append('(error "solver died")')
                killed = True
                break
            line = line.strip()
            if line == marker or line == '"%s"' % marker:
                break
            if line:
                lines.append(line)
        dt = time.time() - t0
        self.queries += 1
        self.solver_time += dt
        if killed:
            self.dead = True
        ans = 'error'
        for l in lines:
            if l in ('sat', 'unsat', 'unknown'):
                ans = l
        if any('(error' in l for l in lines):
            self.errors.append(lines)
            ans = 'error'
        if any(l.startswith('timeout') for l in lines) and ans not in ('sat', 'unsat'):
            ans = 'unknown'
        model = None
        if ans == 'sat' and want_model and model_vars:
            self.send('(get-value (%s))' % ' '.join(model_vars))
            self.send('(echo "%s_m")' % marker)
            self.flush()
            buf = []
            while True:
                line = self.readline(time.time() + 30)
                if not line:
                    break
                line = line.strip()
                if line == marker + '_m' or line == '"%s_m"' % marker:
                    break
                buf.append(line)
            model = ' '.join(buf)
        if not self.dead:
            self.send('(pop 1)')
        return ans, dt, model

    def close(self):
        try:
            self.send('(exit)')
            self.flush()
            self.p.stdin.close()
            self.p.wait(timeout=5)
        except Exception:
            self.p.kill()
        if self.log:
            self.log.close()
