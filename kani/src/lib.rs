//! Engine K harnesses (DESIGN.md §2.2b, C20): every heap block freed while the harness runs is inspected by a stub of
//! `alloc::alloc::dealloc_nonnull`. Secrets are symbolic bytes constrained to >= 0x80 and every public byte in these harnesses is
//! < 0x80, so ANY byte >= 0x80 in a freed block is a leaked secret byte.
#![allow(static_mut_refs)]
extern crate alloc;
use std::alloc::Layout;

use curve25519_dalek::scalar::Scalar;
use tari_bulletproofs_plus::{
    commitment_opening::CommitmentOpening, extended_mask::ExtendedMask, generators::pedersen_gens::ExtensionDegree, range_witness::RangeWitness,
};

static mut FREED: usize = 0;
static mut DIRTY: usize = 0;

pub unsafe fn checking_dealloc_nn(ptr: core::ptr::NonNull<u8>, layout: Layout) {
    let n = layout.size();
    let p = ptr.as_ptr();
    let mut i = 0;
    let mut dirty = false;
    while i < n {
        if *p.add(i) >= 0x80 {
            dirty = true;
        }
        i += 1;
    }
    FREED += 1;
    if dirty {
        DIRTY += 1;
    }
    // the block is intentionally leaked in the model
}
pub fn no_barrier<T: ?Sized>(_v: &T) {}

/// a secret scalar: 32 symbolic bytes, each >= 0x80
#[cfg(kani)]
fn secret_scalar() -> Scalar {
    let b: [u8; 32] = kani::any();
    let mut i = 0;
    while i < 32 {
        kani::assume(b[i] >= 0x80);
        i += 1;
    }
    unsafe { core::mem::transmute(b) }
}
#[cfg(kani)]
fn secret_u64() -> u64 {
    let b: [u8; 8] = kani::any();
    let mut i = 0;
    while i < 8 {
        kani::assume(b[i] >= 0x80);
        i += 1;
    }
    u64::from_le_bytes(b)
}

/// a trivial group: enough structure to build RangeParameters / RangeStatement without any curve arithmetic (the statement's
/// Drop implementation is generic in the point type and never touches it)
pub mod dummy {
    use core::borrow::Borrow;

    use curve25519_dalek::{scalar::Scalar, traits::VartimePrecomputedMultiscalarMul};
    use tari_bulletproofs_plus::traits::{Compressable, Decompressable, FromUniformBytes, Precomputable};

    #[derive(Clone, Copy, PartialEq, Debug)]
    pub struct P(pub u8);
    #[derive(Clone, Copy, PartialEq, Debug)]
    pub struct C(pub u8);
    impl Compressable for P {
        type Compressed = C;

        fn compress(&self) -> C {
            C(self.0)
        }
    }
    impl Decompressable for C {
        type Decompressed = P;

        fn decompress(&self) -> Option<P> {
            Some(P(self.0))
        }
    }
    impl FromUniformBytes for P {
        fn from_uniform_bytes(bytes: &[u8; 64]) -> Self {
            P(bytes[0] & 0x7f)
        }
    }
    pub struct Pre;
    impl VartimePrecomputedMultiscalarMul for Pre {
        type Point = P;

        fn new<I>(_static_points: I) -> Self
        where
            I: IntoIterator,
            I::Item: Borrow<P>,
        {
            Pre
        }

        fn optional_mixed_multiscalar_mul<I, J, K>(&self, _s: I, _d: J, _p: K) -> Option<P>
        where
            I: IntoIterator,
            I::Item: Borrow<Scalar>,
            J: IntoIterator,
            J::Item: Borrow<Scalar>,
            K: IntoIterator<Item = Option<P>>,
        {
            Some(P(0))
        }
    }
    impl Precomputable for P {
        type Precomputation = Pre;
    }
}

/// stand-in for Blake2bMac512 + wide reduction: the hash itself is not the subject, the buffers around it are
#[cfg(kani)]
fn stub_from_hasher(_h: blake2::Blake2bMac512) -> Scalar {
    Scalar::ZERO
}

#[cfg(kani)]
mod harnesses {
    use super::*;

    /// nonce derivation as a unit: every heap block it frees must be free of seed bytes (index presence enumerated, seed symbolic)
    macro_rules! nonce_harness {
        ($name:ident, $label:expr, $j:expr, $k:expr) => {
            #[cfg(bpp_verif)]
            #[kani::proof]
            #[kani::unwind(70)]
            #[kani::stub(alloc::alloc::dealloc_nonnull, checking_dealloc_nn)]
            #[kani::stub(zeroize::barrier::optimization_barrier, no_barrier)]
            #[kani::stub(<curve25519_dalek::scalar::Scalar as tari_bulletproofs_plus::protocols::scalar_protocol::ScalarProtocol>::from_hasher_blake2b, stub_from_hasher)]
            fn $name() {
                let seed = secret_scalar();
                let r = tari_bulletproofs_plus::verif_hooks::nonce(&seed, $label, $j, $k);
                assert!(r.is_ok());
                unsafe {
                    // an implementation that keeps the key on the stack releases nothing: then there is nothing to inspect (the stub's
                    // engagement is witnessed by the twin harness witness_plain_vec_is_dirty), so FREED is a coverage fact, not a requirement
                    kani::cover!(FREED >= 1);
                    assert!(DIRTY == 0);
                }
            }
        };
    }
    nonce_harness!(nonce_frees_no_seed_bytes_none_none, "eta", None, None);
    nonce_harness!(nonce_frees_no_seed_bytes_none_k, "alpha", None, Some(5));
    nonce_harness!(nonce_frees_no_seed_bytes_j_k, "dL", Some(3), Some(1));

    #[kani::proof]
    #[kani::unwind(70)]
    #[kani::stub(alloc::alloc::dealloc_nonnull, checking_dealloc_nn)]
    #[kani::stub(zeroize::barrier::optimization_barrier, no_barrier)]
    fn opening_drop_wipes_1() {
        let o = CommitmentOpening::new(secret_u64(), vec![secret_scalar()]);
        drop(o);
        unsafe {
            assert!(FREED == 1);
            assert!(DIRTY == 0);
        }
    }

    #[kani::proof]
    #[kani::unwind(70)]
    #[kani::stub(alloc::alloc::dealloc_nonnull, checking_dealloc_nn)]
    #[kani::stub(zeroize::barrier::optimization_barrier, no_barrier)]
    fn opening_drop_wipes_2() {
        let o = CommitmentOpening::new(secret_u64(), vec![secret_scalar(), secret_scalar()]);
        drop(o);
        unsafe {
            assert!(FREED == 1);
            assert!(DIRTY == 0);
        }
    }

    /// a seed held inline in a statement is cleared when the statement is dropped: after drop_in_place the bytes of the
    /// `Option<Scalar>` field contain no secret byte, for all seeds
    #[kani::proof]
    #[kani::unwind(140)]
    #[kani::stub(alloc::alloc::dealloc_nonnull, checking_dealloc_nn)]
    #[kani::stub(zeroize::barrier::optimization_barrier, no_barrier)]
    fn statement_drop_clears_seed() {
        use tari_bulletproofs_plus::{generators::pedersen_gens::PedersenGens, range_parameters::RangeParameters, range_statement::RangeStatement};
        let pc = PedersenGens::<dummy::P> {
            h_base: dummy::P(1),
            h_base_compressed: dummy::C(1),
            g_base_vec: vec![dummy::P(2)],
            g_base_compressed_vec: vec![dummy::C(2)],
            extension_degree: ExtensionDegree::DefaultPedersen,
        };
        let params = RangeParameters::init(1, 1, pc).unwrap();
        let st = RangeStatement::init(params, vec![dummy::P(3)], vec![None], Some(secret_scalar())).unwrap();
        let mut md = core::mem::ManuallyDrop::new(st);
        unsafe {
            core::mem::ManuallyDrop::drop(&mut md);
            // semantic check: the field no longer holds a seed. (A byte scan of the field is not meaningful under CBMC: storing `None`
            // leaves the payload bytes of the Option non-deterministic in the memory model; blocks holding pointers are not
            // "public bytes < 0x80" either, so the freed-block checker is not asserted in this harness.)
            assert!(md.seed_nonce.is_none());
        }
    }

    /// vacuity twin: a plain Vec<Scalar> IS reported dirty by the same machinery
    #[kani::proof]
    #[kani::unwind(70)]
    #[kani::stub(alloc::alloc::dealloc_nonnull, checking_dealloc_nn)]
    #[kani::stub(zeroize::barrier::optimization_barrier, no_barrier)]
    fn witness_plain_vec_is_dirty() {
        let r = vec![secret_scalar(), secret_scalar()];
        drop(r);
        unsafe {
            assert!(FREED == 1);
            kani::cover!(DIRTY == 1);
        }
    }

    #[kani::proof]
    #[kani::unwind(70)]
    #[kani::stub(alloc::alloc::dealloc_nonnull, checking_dealloc_nn)]
    #[kani::stub(zeroize::barrier::optimization_barrier, no_barrier)]
    fn mask_drop_wipes() {
        let m = ExtendedMask::assign(ExtensionDegree::AddOneBasePoint, vec![secret_scalar(), secret_scalar()]).unwrap();
        drop(m);
        unsafe {
            assert!(FREED == 1);
            assert!(DIRTY == 0);
        }
    }

    #[kani::proof]
    #[kani::unwind(70)]
    #[kani::stub(alloc::alloc::dealloc_nonnull, checking_dealloc_nn)]
    #[kani::stub(zeroize::barrier::optimization_barrier, no_barrier)]
    fn witness_drop_wipes() {
        let o1 = CommitmentOpening::new(secret_u64(), vec![secret_scalar()]);
        let o2 = CommitmentOpening::new(secret_u64(), vec![secret_scalar()]);
        let w = RangeWitness::init(vec![o1, o2]).unwrap();
        drop(w);
        unsafe {
            // two blinding vectors and the vector of openings (plus eagerly built, public, ASCII error strings)
            assert!(FREED >= 3);
            assert!(DIRTY == 0);
        }
    }
}
