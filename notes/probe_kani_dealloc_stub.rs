extern crate alloc;
use tari_bulletproofs_plus::commitment_opening::CommitmentOpening;
use tari_bulletproofs_plus::extended_mask::ExtendedMask;
use tari_bulletproofs_plus::generators::pedersen_gens::ExtensionDegree;
use curve25519_dalek::scalar::Scalar;
use std::alloc::Layout;

static mut FREED: usize = 0;
static mut DIRTY: usize = 0;

pub unsafe fn checking_dealloc_nn(ptr: core::ptr::NonNull<u8>, layout: Layout) { checking_dealloc(ptr.as_ptr(), layout) }
pub fn no_barrier<T: ?Sized>(_v: &T) {}
pub unsafe fn checking_dealloc(ptr: *mut u8, layout: Layout) {
    let n = layout.size();
    let mut i = 0;
    let mut dirty = false;
    while i < n {
        if *ptr.add(i) != 0 { dirty = true; }
        i += 1;
    }
    FREED += 1;
    if dirty { DIRTY += 1; }
    // memory intentionally leaked in the model
}

fn any_scalar() -> Scalar { let b: [u8; 32] = kani::any(); unsafe { core::mem::transmute(b) } }

#[cfg(kani)]
#[kani::proof]
#[kani::unwind(70)]
#[kani::stub(alloc::alloc::dealloc_nonnull, checking_dealloc_nn)]
#[kani::stub(zeroize::barrier::optimization_barrier, no_barrier)]
fn opening_drop_wipes() {
    let v: u64 = kani::any();
    let r = vec![any_scalar(), any_scalar()];
    let o = CommitmentOpening::new(v, r);
    drop(o);
    unsafe {
        assert!(FREED == 1);
        assert!(DIRTY == 0);
    }
}

#[cfg(kani)]
#[kani::proof]
#[kani::unwind(70)]
#[kani::stub(alloc::alloc::dealloc_nonnull, checking_dealloc_nn)]
#[kani::stub(zeroize::barrier::optimization_barrier, no_barrier)]
fn plain_vec_drop_is_dirty_witness() {
    let r = vec![any_scalar(), any_scalar()];
    drop(r);
    unsafe {
        assert!(FREED == 1);
        kani::cover!(DIRTY == 1);
    }
}
