#!/usr/bin/env python3
"""Prototype: symbolic evaluation of a rustc MIR dump (-Zunpretty=mir) for loop-free integer regions -> z3.
Probe only. Values: ('int', z3 Int) | ('bool', z3 Bool) | ('opt', is_some, payload) | ('res', is_ok, okv, errv)
| ('cf', is_continue, contv, breakv) | ('unit',) | ('opaque', name)"""
import re, sys, itertools
from z3 import *

def parse_fn(text, name_re):
    m = re.search(r'^fn [^\n]*' + name_re + r'[^\n]*\{\n', text, re.M)
    start = m.end(); depth = 1; i = start
    while depth:
        c = text[i]
        if c == '{': depth += 1
        elif c == '}': depth -= 1
        i += 1
    body = text[start:i-1]
    blocks = {}
    for bm in re.finditer(r'^    (bb\d+)(?: \(cleanup\))?: \{\n(.*?)^    \}', body, re.M | re.S):
        lines = [l.strip() for l in bm.group(2).strip().split('\n') if l.strip()]
        blocks[bm.group(1)] = lines
    return m.group(0), blocks

fresh = itertools.count()
def opaque(tag): return ('opaque', '%s!%d' % (tag, next(fresh)))
U64MAX = 2**64 - 1

class Path:
    def __init__(s, env, pc): s.env = dict(env); s.pc = list(pc)

def operand(p, tok):
    tok = tok.strip()
    m = re.match(r'const (-?\d+)_(usize|u64|u32|u8|i32|isize)$', tok)
    if m: return ('int', IntVal(int(m.group(1))))
    m = re.match(r'const (true|false)$', tok)
    if m: return ('bool', BoolVal(m.group(1) == 'true'))
    m = re.match(r'(?:copy|move) (.*)$', tok)
    if m: return place(p, m.group(1))
    if tok.startswith('const '): return opaque('const')
    return place(p, tok)

def place(p, s):
    s = s.strip()
    m = re.match(r'\(\((_\d+) as (\w+)\)\.(\d+): [^)]*\)$', s)
    if m:
        v = p.env[m.group(1)]; var = m.group(2)
        if v[0] == 'cf': return v[2] if var == 'Continue' else v[3]
        if v[0] == 'opt' and var == 'Some': return v[2]
        if v[0] == 'res': return v[2] if var == 'Ok' else v[3]
        return opaque('proj')
    m = re.match(r'(_\d+)$', s)
    if m: return p.env.get(s, opaque(s))
    return opaque('place')

def checked(op, a, b):
    x = {'mul': a[1] * b[1], 'add': a[1] + b[1], 'sub': a[1] - b[1]}[op]
    ok = And(x >= 0, x <= U64MAX)
    return ('opt', ok, ('int', x))

def run(blocks, params):
    done = []; work = [(Path(params, []), 'bb0')]
    while work:
        p, bb = work.pop()
        while True:
            lines = blocks[bb]; term = lines[-1]
            for st in lines[:-1]:
                m = re.match(r'(_\d+) = (.*);$', st)
                if not m: continue
                dst, rv = m.groups()
                bm = re.match(r'(Lt|Gt|Le|Ge|Eq|Ne|Add|Sub|Mul)\((.*), (.*)\)$', rv)
                if bm:
                    a = operand(p, bm.group(2)); b = operand(p, bm.group(3)); o = bm.group(1)
                    f = {'Lt': lambda x, y: x < y, 'Gt': lambda x, y: x > y, 'Le': lambda x, y: x <= y, 'Ge': lambda x, y: x >= y,
                         'Eq': lambda x, y: x == y, 'Ne': lambda x, y: x != y}
                    p.env[dst] = ('bool', f[o](a[1], b[1])) if o in f else opaque(o)
                elif rv.startswith('discriminant('):
                    v = place(p, rv[len('discriminant('):-1])
                    if v[0] == 'cf': p.env[dst] = ('int', If(v[1], IntVal(0), IntVal(1)))
                    elif v[0] == 'opt': p.env[dst] = ('int', If(v[1], IntVal(1), IntVal(0)))
                    elif v[0] == 'res': p.env[dst] = ('int', If(v[1], IntVal(0), IntVal(1)))
                    else: p.env[dst] = opaque('disc')
                elif re.match(r'ProofError::\w+', rv): p.env[dst] = ('err', rv.split('(')[0])
                else: p.env[dst] = operand(p, rv)
            # terminator
            if term.startswith('return'): done.append(p); break
            m = re.match(r'goto -> (bb\d+);', term)
            if m: bb = m.group(1); continue
            m = re.match(r'switchInt\((.*)\) -> \[(.*)\];', term)
            if m:
                v = operand(p, m.group(1)); tgts = [t.strip().split(': ') for t in m.group(2).split(',')]
                val = v[1] if v[0] == 'int' else If(v[1], IntVal(1), IntVal(0))
                taken = []
                for k, t in tgts:
                    if k == 'otherwise': cond = And([val != int(x) for x in taken]) if taken else BoolVal(True)
                    else: cond = val == int(k); taken.append(k)
                    s = Solver(); s.add(*p.pc, cond)
                    if s.check() == sat:
                        q = Path(p.env, p.pc + [cond]); work.append((q, t))
                break
            m = re.match(r'(_\d+) = (.*?)\((.*)\) -> \[return: (bb\d+)', term)
            if m:
                dst, fn, args, nxt = m.groups(); A = [operand(p, a) for a in split_args(args)]
                if re.search(r'checked_(mul|add|sub)$', fn): p.env[dst] = checked(fn.rsplit('_', 1)[1], A[0], A[1])
                elif 'ok_or' in fn: p.env[dst] = ('res', A[0][1], A[0][2], A[1])
                elif 'Try>::branch' in fn: p.env[dst] = ('cf', A[0][1], A[0][2], ('res', BoolVal(False), None, A[0][3]))
                elif 'from_residual' in fn: p.env[dst] = ('res', BoolVal(False), None, A[0][3])
                else: p.env[dst] = opaque(fn)
                bb = nxt; continue
            raise SystemExit('unhandled terminator: ' + term)
    return done

def split_args(s):
    out = []; depth = 0; cur = ''
    for c in s:
        if c in '(<[': depth += 1
        if c in ')>]': depth -= 1
        if c == ',' and depth == 0: out.append(cur); cur = ''
        else: cur += c
    if cur.strip(): out.append(cur)
    return out

if __name__ == '__main__':
    text = open(sys.argv[1]).read()
    hdr, blocks = parse_fn(text, r'compute_generator_padding\(')
    n, m, c = Ints('bit_length agg max_agg')
    dom = [n >= 0, n <= U64MAX, m >= 0, m <= U64MAX, c >= 0, c <= U64MAX]
    paths = run(blocks, {'_1': ('int', n), '_2': ('int', m), '_3': ('int', c)})
    print('paths', len(paths))
    # spec: Ok(2*n*c - 2*n*m) iff 2n, 2n*c, 2n*m fit in usize and 2nc >= 2nm
    spec_ok = And(2*n <= U64MAX, 2*n*c <= U64MAX, 2*n*m <= U64MAX, 2*n*c - 2*n*m >= 0)
    s = Solver(); s.add(*dom)
    bad = []
    for p in paths:
        r = p.env['_0']; assert r[0] == 'res'
        pc = And(*p.pc) if p.pc else BoolVal(True)
        # obligation: on this path, is_ok <=> spec_ok, and value = spec value
        ob = And(pc, Or(r[1] != spec_ok, And(r[1], r[2][1] != 2*n*c - 2*n*m) if r[2] is not None else BoolVal(False)))
        bad.append(ob)
    s.add(Or(bad)); import time; t = time.time(); print('verdict', s.check(), round(time.time()-t, 2), 's')
    # coverage: union of path conditions is total
    s2 = Solver(); s2.add(*dom); s2.add(Not(Or([And(*p.pc) if p.pc else BoolVal(True) for p in paths]))); print('paths total:', s2.check())
