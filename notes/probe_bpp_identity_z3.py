# probe 3: scalars as N/M with monomial denominators; solver sees pure polynomial identities
import sys, time, os, random
from z3 import *
n=int(sys.argv[1]); m=int(sys.argv[2]); ext=int(sys.argv[3]); tmo=int(sys.argv[4]); BM=os.environ.get('BITS','bool')
nm=n*m
ATOMS={}
def mono_mul(a,b):
    r=dict(a)
    for k,v in b.items():
        r[k]=r.get(k,0)+v
        if r[k]==0: del r[k]
    return r
def mono_term(mn):
    t=RealVal(1)
    for k,v in sorted(mn.items()):
        assert v>0
        for _ in range(v): t=t*ATOMS[k]
    return t
class F:
    # value = num / prod atoms^den ; mono: exponent dict if num is exactly that monomial (coefficient 1) else None
    def __init__(s,num,den=None,mono=None): s.num=num; s.den=den or {}; s.mono=mono
    @staticmethod
    def atom(name):
        ATOMS[name]=Real(name); return F(ATOMS[name],{}, {name:1})
    @staticmethod
    def const(c): return F(RealVal(c),{}, {} if c==1 else None)
    def _lift(s,o): return o if isinstance(o,F) else F.const(o)
    def __mul__(s,o):
        o=s._lift(o)
        mono=mono_mul(s.mono,o.mono) if (s.mono is not None and o.mono is not None) else None
        # cancel common factors between monos and dens when possible (only when monomial known)
        return F(s.num*o.num, mono_mul(s.den,o.den), mono)
    __rmul__=__mul__
    def _addsub(s,o,sign):
        o=s._lift(o)
        L={k:max(s.den.get(k,0),o.den.get(k,0)) for k in set(s.den)|set(o.den)}
        a={k:L[k]-s.den.get(k,0) for k in L if L[k]-s.den.get(k,0)>0}
        b={k:L[k]-o.den.get(k,0) for k in L if L[k]-o.den.get(k,0)>0}
        na=s.num*mono_term(a) if a else s.num
        nb=o.num*mono_term(b) if b else o.num
        return F(na+nb if sign>0 else na-nb, L, None)
    def __add__(s,o): return s._addsub(o,1)
    def __radd__(s,o): return s._lift(o)._addsub(s,1)
    def __sub__(s,o): return s._addsub(o,-1)
    def __rsub__(s,o): return s._lift(o)._addsub(s,-1)
    def __neg__(s): return F(-s.num,s.den,None)
    def inv(s):
        assert s.mono is not None, 'inverse of non-monomial'
        # value = mono/den -> inverse = den/mono
        return F(mono_term(s.den) if s.den else RealVal(1), dict(s.mono), dict(s.den))
def P(b,k):
    r=F.const(1)
    for _ in range(k): r=r*b
    return r
def lin_add(a,b):
    r=dict(a)
    for k,v in b.items(): r[k]=(r[k]+v) if k in r else v
    return r
def lin_scale(a,s): return {k:v*s for k,v in a.items()}
def msm(scalars,points):
    r={}
    for s,p in zip(scalars,points): r=lin_add(r,lin_scale(p,s))
    return r
one=F.const(1)
G=[{('G',i):one} for i in range(nm)]; H=[{('H',i):one} for i in range(nm)]
g=[{('g',k):one} for k in range(ext)]; h={('h',):one}
y,z=F.atom('y'),F.atom('z')
bcons=[]
if BM=='bool':
    bits=[Bool('b%d'%i) for i in range(nm)]; bL=[F(If(b,RealVal(1),RealVal(0))) for b in bits]
elif BM=='real':
    bL=[F(Real('b%d'%i)) for i in range(nm)]; bcons=[b.num*b.num==b.num for b in bL]
else:
    random.seed(1); bL=[F.const(random.randint(0,1)) for i in range(nm)]
v=[sum((bL[j*n+i]*(2**i) for i in range(n)),F.const(0)) for j in range(m)]
p=[F(Real('p%d'%j)) for j in range(m)]
r=[[F(Real('r%d_%d'%(j,k))) for k in range(ext)] for j in range(m)]
V=[lin_add(msm([v[j]+p[j]],[h]),msm(r[j],g)) for j in range(m)]
alpha=[F(Real('al%d'%k)) for k in range(ext)]
aL=list(bL); aR=[b-1 for b in bL]
A=lin_add(lin_add(msm(aL,G),msm(aR,H)),msm(alpha,g))
ypow=[P(y,i) for i in range(nm+2)]
z2=z*z
d=[]
for j in range(m):
    for i in range(n): d.append(P(z2,j+1)*(2**i))
aL=[a-z for a in aL]
aR=[aR[i]+d[i]*ypow[nm-i]+z for i in range(nm)]
for j in range(m):
    for k in range(ext): alpha[k]=alpha[k]+P(z2,j+1)*r[j][k]*ypow[nm+1]
Gs=list(G);Hs=list(H);Ls=[];Rs=[];es=[]
N=nm;rd=0
while N>1:
    N//=2
    alo,ahi=aL[:N],aL[N:]; blo,bhi=aR[:N],aR[N:]
    Glo,Ghi=Gs[:N],Gs[N:]; Hlo,Hhi=Hs[:N],Hs[N:]
    yN=ypow[N]; yNi=yN.inv()
    dl=[F(Real('dl%d_%d'%(rd,k))) for k in range(ext)]; dr=[F(Real('dr%d_%d'%(rd,k))) for k in range(ext)]
    cl=sum((alo[i]*ypow[i+1]*bhi[i] for i in range(N)),F.const(0)); cr=sum((ahi[i]*ypow[N+1+i]*blo[i] for i in range(N)),F.const(0))
    Lp=msm([cl]+dl+[a*yNi for a in alo]+bhi,[h]+g+Ghi+Hlo)
    Rp=msm([cr]+dr+[a*yN for a in ahi]+blo,[h]+g+Glo+Hhi)
    e=F.atom('e%d'%rd); ei=e.inv()
    Ls.append(Lp);Rs.append(Rp);es.append(e)
    Gs=[lin_add(lin_scale(Glo[i],ei),lin_scale(Ghi[i],e*yNi)) for i in range(N)]
    Hs=[lin_add(lin_scale(Hlo[i],e),lin_scale(Hhi[i],ei)) for i in range(N)]
    aL=[alo[i]*e+ahi[i]*yN*ei for i in range(N)]
    aR=[blo[i]*ei+bhi[i]*e for i in range(N)]
    for k in range(ext): alpha[k]=alpha[k]+dl[k]*e*e+dr[k]*ei*ei
    rd+=1
rr,ss=F(Real('r')),F(Real('s')); dd=[F(Real('d%d'%k)) for k in range(ext)]; eta=[F(Real('eta%d'%k)) for k in range(ext)]
A1=lin_add(msm([rr,ss,rr*y*aR[0]+ss*y*aL[0]],[Gs[0],Hs[0],h]),msm(dd,g))
B=lin_add(msm([rr*y*ss],[h]),msm(eta,g))
e=F.atom('e'); r1=rr+aL[0]*e; s1=ss+aR[0]*e; d1=[eta[k]+dd[k]*e+alpha[k]*e*e for k in range(ext)]
e2=e*e; res={}
ynm=P(y,nm); ynm1=ynm*y; rounds=len(es)
yinv=y.inv()
for i in range(nm):
    s_i=F.const(1); s_rev=F.const(1)
    for j in range(rounds):
        s_i=s_i*(es[j] if (i>>(rounds-1-j))&1 else es[j].inv())
        s_rev=s_rev*(es[j] if ((nm-1-i)>>(rounds-1-j))&1 else es[j].inv())
    res=lin_add(res,lin_scale(G[i],r1*e*P(yinv,i)*s_i+e2*z))
    res=lin_add(res,lin_scale(H[i],s1*e*s_rev-e2*(d[i]*P(y,nm-i)+z)))
dsum=sum(d,F.const(0)); ysum=sum((P(y,i) for i in range(1,nm+1)),F.const(0))
hs=r1*y*s1+e2*(ynm1*z*dsum+(z2-z)*ysum)
for j in range(m):
    wj=-(e2*P(z2,j+1)*ynm1)
    res=lin_add(res,lin_scale(V[j],wj)); hs=hs-wj*p[j]
res=lin_add(res,lin_scale(h,hs)); res=lin_add(res,msm(d1,g))
res=lin_add(res,lin_scale(A1,-e)); res=lin_add(res,lin_scale(B,F.const(-1))); res=lin_add(res,lin_scale(A,-e2))
for j in range(rounds):
    res=lin_add(res,lin_scale(Ls[j],-(e2*es[j]*es[j]))); res=lin_add(res,lin_scale(Rs[j],-(e2*es[j].inv()*es[j].inv())))
t=time.time(); bad=0
for k,c in res.items():
    s2=Solver(); s2.set('timeout',tmo*1000); s2.add(*bcons); s2.add(c.num!=0)
    t0=time.time(); r_=s2.check(); dt=time.time()-t0
    if dt>2 or str(r_)!='unsat': print('  ',k,r_,round(dt,2)); bad+= str(r_)!='unsat'
print(n,m,ext,BM,'coeffs',len(res),'not-unsat',bad,'total',round(time.time()-t,2))
