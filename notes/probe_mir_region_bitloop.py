#!/usr/bin/env python3
"""Prototype of Engine M mode (b): one iteration of the bit-decomposition loop of prove_with_rng, from an
arbitrary state, MIR -> QF_BV. Observations = arguments of <Scalar as From<u64>>::from and Vec::push."""
import re, sys, itertools
from z3 import *
sys.path.insert(0, '.')
from mirx import parse_fn, split_args

text = open(sys.argv[1]).read()
hdr, blocks = parse_fn(text, r'prove_with_rng\(_1')
# anchor: the block that calls <u64 as Shr<u32>>::shr the first time; region entry = the block that extracts the u32 index
shr_blocks = [b for b, ls in blocks.items() if any('<u64 as Shr<u32>>::shr' in l for l in ls)]
shr_blocks.sort(key=lambda b: int(b[2:]))
assert len(shr_blocks) == 2, shr_blocks
# walk back to the block defining the shift amount operand
amt = re.search(r'shr\(move _\d+, copy (_\d+)\)', ' '.join(blocks[shr_blocks[0]])).group(1)
entry = [b for b, ls in blocks.items() if any(l.startswith(amt + ' = copy ((') for l in ls)][0]
print('anchors: shr blocks', shr_blocks, 'index local', amt, 'entry', entry)

env = {}; obs = []
def val(tok):
    tok = tok.strip()
    m = re.match(r'const (\d+)_u64$', tok)
    if m: return BitVecVal(int(m.group(1)), 64)
    m = re.match(r'(?:copy|move) \(\*(_\d+)\)$', tok)
    if m:
        r = env[m.group(1)]; assert r[0] == 'ref'; return env.setdefault(r[1], BitVec('state' + r[1], 64))
    m = re.match(r'(?:copy|move) (_\d+)$', tok)
    if m: return env[m.group(1)]
    if tok.startswith('const curve25519_dalek::Scalar::ONE'): return ('scalar_const', 'ONE')
    raise SystemExit('operand? ' + tok)

idx = BitVec('i_u32', 32)
bb = entry
steps = 0
while True:
    lines = blocks[bb]; steps += 1
    for st in lines[:-1]:
        m = re.match(r'(_\d+) = (.*);$', st)
        if not m: continue
        dst, rv = m.groups()
        if dst == amt: env[dst] = idx; continue
        m2 = re.match(r'&(?:mut )?(_\d+)$', rv)
        if m2: env[dst] = ('ref', m2.group(1)); continue
        m2 = re.match(r'BitAnd\((.*), (.*)\)$', rv)
        if m2: env[dst] = val(m2.group(1)) & val(m2.group(2)); continue
        env[dst] = val(rv)
    term = lines[-1]
    m = re.match(r'(_\d+) = (.*?)\((.*)\) -> \[return: (bb\d+)', term)
    if not m: raise SystemExit('terminator? ' + term)
    dst, fn, args, nxt = m.groups(); A = split_args(args)
    if 'as DerefMut>::deref_mut' in fn or 'as Deref>::deref' in fn: env[dst] = val(A[0])      # returns the same reference
    elif '<u64 as Shr<u32>>::shr' in fn:
        a = val(A[0]); s = val(A[1])
        obs.append(('shift-in-range', ULT(s, 64)))                                            # rustc/core panics otherwise
        env[dst] = LShR(a, ZeroExt(32, s))
    elif '<Scalar as From<u64>>::from' in fn: env[dst] = ('scalar_from_u64', val(A[0])); obs.append(('from_u64', val(A[0])))
    elif '<Scalar as Sub>::sub' in fn: env[dst] = ('scalar_sub', val(A[0]), val(A[1]))
    elif 'Vec::<Scalar>::push' in fn:
        tgt = val(A[0]); obs.append(('push', tgt, val(A[1])))
        if len([o for o in obs if o[0] == 'push']) == 2: break
    else: raise SystemExit('unmodelled call ' + fn)
    bb = nxt
print('blocks walked', steps)
for o in obs: print('  obs', o[0], o[1:] if o[0] != 'from_u64' else simplify(o[1]))
# obligations
o64 = [v for k, v in env.items() if isinstance(v, BitVecRef) and str(v).startswith('state')][0]
spec_bit = LShR(o64, ZeroExt(32, idx)) & 1
s = Solver(); s.add(ULT(idx, 64))
fr = [o[1] for o in obs if o[0] == 'from_u64']; pushes = [o for o in obs if o[0] == 'push']
s.push(); s.add(Or(fr[0] != spec_bit, fr[1] != spec_bit)); print('both From<u64> args == (o>>i)&1 :', s.check()); s.pop()
assert pushes[0][2][0] == 'scalar_from_u64' and pushes[1][2][0] == 'scalar_sub' and pushes[1][2][2] == ('scalar_const', 'ONE')
assert pushes[0][1] != pushes[1][1]; print('push targets', pushes[0][1], pushes[1][1], '(a_li then a_ri: distinct locals)')
s.push(); s.add(Not(And([o[1] for o in obs if o[0] == 'shift-in-range']))); print('shift overflow reachable for i<64:', s.check()); s.pop()
# arithmetic closure: sum of bits * 2^i == o for o < 2^n
import time
for n in (1, 2, 4, 8, 16, 32, 64):
    x = BitVec('x', 64); t = time.time()
    tot = BitVecVal(0, 64)
    for i in range(n): tot = tot + ((LShR(x, i) & 1) << i)
    s2 = Solver()
    if n < 64: s2.add(LShR(x, n) == 0)
    s2.add(tot != x); r = s2.check(); print('  recomposition n=%d: %s %.2fs' % (n, r, time.time() - t))
