use tari_bulletproofs_plus::{commitment_opening::CommitmentOpening, range_witness::RangeWitness, range_statement::RangeStatement,
  range_parameters::RangeParameters, range_proof::RangeProof, generators::pedersen_gens::ExtensionDegree, PedersenGens, Transcript};
use curve25519_dalek::{scalar::Scalar, ristretto::{RistrettoPoint, CompressedRistretto, HOOK_V, HOOK_N, HOOK_ARMED}, constants::*};
use rand_core::{RngCore, CryptoRng};
pub fn no_barrier<T: ?Sized>(_v: &T) {}
struct ZeroRng;
impl RngCore for ZeroRng { fn next_u32(&mut self)->u32{0} fn next_u64(&mut self)->u64{0} fn fill_bytes(&mut self,d:&mut [u8]){ for b in d.iter_mut(){*b=0;} } fn try_fill_bytes(&mut self,d:&mut [u8])->Result<(),rand_core::Error>{self.fill_bytes(d);Ok(())} }
impl CryptoRng for ZeroRng {}
#[cfg(kani)]
#[kani::proof]
#[kani::unwind(70)]
#[kani::stub(zeroize::barrier::optimization_barrier, no_barrier)]
fn prove_prefix_bits() {
    const N: usize = 4;
    let g = RISTRETTO_BASEPOINT_POINT;
    let pc = PedersenGens { h_base: g, h_base_compressed: g.compress(), g_base_vec: vec![g], g_base_compressed_vec: vec![g.compress()], extension_degree: ExtensionDegree::DefaultPedersen };
    let params = RangeParameters::init(N, 1, pc).unwrap();
    let v: u64 = kani::any();
    let p: u64 = kani::any();
    let has_p: bool = kani::any();
    let witness = RangeWitness::init(vec![CommitmentOpening::new(v, vec![Scalar::ONE])]).unwrap();
    let c: RistrettoPoint = g;
    let stmt = RangeStatement::init(params, vec![c], vec![if has_p {Some(p)} else {None}], None).unwrap();
    let mut t = Transcript::new(b"x");
    let valid = v < 16 && (!has_p || p <= v);
    unsafe { HOOK_V = if has_p { v.wrapping_sub(p) } else { v }; HOOK_N = N; HOOK_ARMED = true; }
    let r = RangeProof::prove_with_rng(&mut t, &stmt, &witness, &mut ZeroRng);
    // only reachable if the hook was not reached
    assert!(r.is_err());
    assert!(!valid || true);
    core::mem::forget(r); core::mem::forget(stmt); core::mem::forget(witness);
}
