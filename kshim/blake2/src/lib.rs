//! Kani flavour MODEL of blake2::Blake2bMac512: the length contract of `new_with_salt_and_personal`
//! (key <= 64, salt <= 16, persona <= 16 bytes) and an all-zero output. No copy of the key is kept.
use digest::{
    generic_array::{typenum::U64, GenericArray},
    FixedOutput, InvalidLength, OutputSizeUser, Update,
};
pub use digest;

#[derive(Clone)]
pub struct Blake2bMac512 {
    key_len: usize,
}

impl Blake2bMac512 {
    pub fn new_with_salt_and_personal(key: &[u8], salt: &[u8], persona: &[u8]) -> Result<Self, InvalidLength> {
        if key.len() > 64 || salt.len() > 16 || persona.len() > 16 {
            return Err(InvalidLength);
        }
        Ok(Blake2bMac512 { key_len: key.len() })
    }
    pub fn key_len(&self) -> usize {
        self.key_len
    }
}
impl Update for Blake2bMac512 {
    fn update(&mut self, _data: &[u8]) {}
}
impl digest::MacMarker for Blake2bMac512 {}
impl OutputSizeUser for Blake2bMac512 {
    type OutputSize = U64;
}
impl FixedOutput for Blake2bMac512 {
    fn finalize_into(self, out: &mut GenericArray<u8, U64>) {
        for b in out.iter_mut() {
            *b = 0;
        }
    }
}
