//! Kani flavour MODEL of sha3::{Shake256, Sha3_512}: absorbs nothing, outputs zeros (the hash is not the subject of the harnesses)
use digest::{
    block_buffer::Eager,
    core_api::{AlgorithmName, Block, BlockSizeUser, Buffer, BufferKindUser, CoreWrapper, ExtendableOutputCore, FixedOutputCore, UpdateCore, XofReaderCore},
    generic_array::typenum::{U136, U64, U72},
    HashMarker, Output, OutputSizeUser, Reset,
};
pub use digest::{self, Digest};

#[derive(Clone, Default)]
pub struct Shake256Core;
impl HashMarker for Shake256Core {}
impl BlockSizeUser for Shake256Core {
    type BlockSize = U136;
}
impl BufferKindUser for Shake256Core {
    type BufferKind = Eager;
}
impl UpdateCore for Shake256Core {
    fn update_blocks(&mut self, _blocks: &[Block<Self>]) {}
}
impl ExtendableOutputCore for Shake256Core {
    type ReaderCore = Shake256ReaderCore;
    fn finalize_xof_core(&mut self, _buffer: &mut Buffer<Self>) -> Self::ReaderCore {
        Shake256ReaderCore
    }
}
impl Reset for Shake256Core {
    fn reset(&mut self) {}
}
impl AlgorithmName for Shake256Core {
    fn write_alg_name(f: &mut core::fmt::Formatter<'_>) -> core::fmt::Result {
        f.write_str("Shake256(kani model)")
    }
}
#[derive(Clone)]
pub struct Shake256ReaderCore;
impl BlockSizeUser for Shake256ReaderCore {
    type BlockSize = U64;
}
impl XofReaderCore for Shake256ReaderCore {
    fn read_block(&mut self) -> Block<Self> {
        Block::<Self>::default()
    }
}
pub type Shake256 = CoreWrapper<Shake256Core>;

#[derive(Clone, Default)]
pub struct Sha3_512Core;
impl HashMarker for Sha3_512Core {}
impl BlockSizeUser for Sha3_512Core {
    type BlockSize = U72;
}
impl BufferKindUser for Sha3_512Core {
    type BufferKind = Eager;
}
impl OutputSizeUser for Sha3_512Core {
    type OutputSize = U64;
}
impl UpdateCore for Sha3_512Core {
    fn update_blocks(&mut self, _blocks: &[Block<Self>]) {}
}
impl FixedOutputCore for Sha3_512Core {
    fn finalize_fixed_core(&mut self, _buffer: &mut Buffer<Self>, out: &mut Output<Self>) {
        for b in out.iter_mut() {
            *b = 0;
        }
    }
}
impl Reset for Sha3_512Core {
    fn reset(&mut self) {}
}
impl AlgorithmName for Sha3_512Core {
    fn write_alg_name(f: &mut core::fmt::Formatter<'_>) -> core::fmt::Result {
        f.write_str("Sha3_512(kani model)")
    }
}
pub type Sha3_512 = CoreWrapper<Sha3_512Core>;
