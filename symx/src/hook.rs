//! bit hook (model flavour only): replaces the prover's concrete bit vector by symbolic bits
//! (DESIGN.md §2.1 (ii)). What it replaces is checked against the concrete vector on every call.
use std::sync::Mutex;

use curve25519_dalek::scalar::Scalar;
use serde_json::{json, Value};
use symcore::with;

struct HookState {
    enabled: bool,
    calls: Vec<Value>,
    side: Vec<Value>,
    member: usize,
}
static HOOK: Mutex<HookState> = Mutex::new(HookState { enabled: false, calls: Vec::new(), side: Vec::new(), member: 0 });

pub fn install() {
    tari_bulletproofs_plus::verif_hooks::set_bit_hook(Some(bit_hook));
}
pub fn configure(enabled: bool, member: usize) {
    let mut h = HOOK.lock().unwrap();
    h.enabled = enabled;
    h.member = member;
}
pub fn to_json() -> Value {
    let h = HOOK.lock().unwrap();
    json!({"calls": h.calls, "side": h.side})
}

fn bit_hook(a_li: &mut Vec<Scalar>, a_ri: &mut Vec<Scalar>, values: &[u64], promises: &[Option<u64>], bits: usize) {
    let mut h = HOOK.lock().unwrap();
    let member = h.member;
    let mut call = json!({"member":member,"values":values.iter().map(|v| v.to_string()).collect::<Vec<_>>(),
        "bits":bits,"len_li":a_li.len(),"len_ri":a_ri.len(),"replaced":false});
    // always: the concrete vector must be the binary expansion of value - promise (observed, for C06)
    let mut expansion_ok = a_li.len() == values.len() * bits && a_ri.len() == a_li.len() && promises.len() == values.len();
    if expansion_ok {
        for (j, v) in values.iter().enumerate() {
            let o = v.wrapping_sub(promises[j].unwrap_or(0));
            for i in 0..bits {
                let bit = (o >> i) & 1;
                if a_li[j * bits + i] != Scalar::from(bit as u8) || a_ri[j * bits + i] != Scalar::from(bit as u8) - Scalar::ONE {
                    expansion_ok = false;
                }
            }
        }
    }
    call["expansion_ok"] = json!(expansion_ok);
    if !h.enabled || !expansion_ok {
        h.calls.push(call);
        return;
    }
    let mut symbolic_members = 0usize;
    for (j, v) in values.iter().enumerate() {
        // the bits of a commitment are made symbolic only if its value is a registered variable: the tie v = p + sum b 2^i needs v
        // as a variable (where the bit length leaves no room for a distinct stand-in the value, and therefore its bits, stay concrete)
        let vnode = Scalar::from(*v).node();
        let is_var = with(|c| matches!(c.op(vnode), symcore::Op::Var(_)));
        if !is_var {
            continue;
        }
        symbolic_members += 1;
        let o = v.wrapping_sub(promises[j].unwrap_or(0));
        let mut row = Vec::new();
        for i in 0..bits {
            let bit = (o >> i) & 1;
            let name = format!("beta_{}_{}_{}", member, j, i);
            let node = with(|c| c.var(&name, "bit", Some(symcore::fl::Fl::from_u64(bit)), json!({"member":member,"j":j,"i":i})));
            let b = Scalar::from_node(node);
            a_li[j * bits + i] = b;
            a_ri[j * bits + i] = b - Scalar::ONE;
            h.side.push(json!({"kind":"bool","node":node}));
            row.push(node);
        }
        // definition of the value: v_j = p_j + sum beta * 2^i   (p is a variable or a constant)
        let pnode = match promises[j] {
            Some(p) => Scalar::from(p).node(),
            None => 0,
        };
        h.side.push(json!({"kind":"value_def","member":member,"j":j,"v":vnode,"p":pnode,"bits":row}));
    }
    call["symbolic_members"] = json!(symbolic_members);
    call["replaced"] = json!(true);
    h.calls.push(call);
}
