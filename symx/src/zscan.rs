//! REAL flavour only: a global allocator that inspects every block at the moment it is released (C20 replay).
//! While armed, a freed block containing 8 consecutive marker bytes (0xA7) counts as dirty.
use std::alloc::{GlobalAlloc, Layout, System};
use std::sync::atomic::{AtomicBool, AtomicUsize, Ordering};

pub struct Scanner;
pub static ARMED: AtomicBool = AtomicBool::new(false);
pub static FREED: AtomicUsize = AtomicUsize::new(0);
pub static DIRTY: AtomicUsize = AtomicUsize::new(0);
pub static DIRTY_SIZE: AtomicUsize = AtomicUsize::new(0);
pub const MARK: u8 = 0xA7;

unsafe fn scan(ptr: *mut u8, size: usize) {
    if !ARMED.load(Ordering::Relaxed) {
        return;
    }
    FREED.fetch_add(1, Ordering::Relaxed);
    // the marker value 0xA7A7A7A7A7A7A7A7 written out in decimal (a formatted copy of the secret value)
    const DEC: &[u8] = b"12080808863958804391";
    if size >= DEC.len() {
        let mut k = 0usize;
        while k + DEC.len() <= size {
            let mut j = 0usize;
            while j < DEC.len() && *ptr.add(k + j) == DEC[j] {
                j += 1;
            }
            if j == DEC.len() {
                DIRTY.fetch_add(1, Ordering::Relaxed);
                DIRTY_SIZE.store(size, Ordering::Relaxed);
                return;
            }
            k += 1;
        }
    }
    let mut run = 0usize;
    let mut i = 0usize;
    while i < size {
        if *ptr.add(i) == MARK {
            run += 1;
            if run >= 8 {
                DIRTY.fetch_add(1, Ordering::Relaxed);
                DIRTY_SIZE.store(size, Ordering::Relaxed);
                return;
            }
        } else {
            run = 0;
        }
        i += 1;
    }
}

unsafe impl GlobalAlloc for Scanner {
    unsafe fn alloc(&self, layout: Layout) -> *mut u8 {
        System.alloc(layout)
    }
    unsafe fn dealloc(&self, ptr: *mut u8, layout: Layout) {
        scan(ptr, layout.size());
        System.dealloc(ptr, layout)
    }
    unsafe fn realloc(&self, ptr: *mut u8, layout: Layout, new_size: usize) -> *mut u8 {
        // a growing buffer releases its old block: inspect it like a dealloc
        let new = System.alloc(Layout::from_size_align_unchecked(new_size, layout.align()));
        if !new.is_null() {
            core::ptr::copy_nonoverlapping(ptr, new, layout.size().min(new_size));
            scan(ptr, layout.size());
            System.dealloc(ptr, layout);
        }
        new
    }
}

pub fn arm() {
    FREED.store(0, Ordering::Relaxed);
    DIRTY.store(0, Ordering::Relaxed);
    ARMED.store(true, Ordering::Relaxed);
}
pub fn disarm() -> (usize, usize, usize) {
    ARMED.store(false, Ordering::Relaxed);
    (FREED.load(Ordering::Relaxed), DIRTY.load(Ordering::Relaxed), DIRTY_SIZE.load(Ordering::Relaxed))
}
