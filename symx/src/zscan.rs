//! REAL flavour only: a global allocator that inspects every block at the moment it is released (C20 replay).
//! While armed, a freed block containing 8 consecutive marker bytes (0xA7), the decimal rendering of the marker value, or a
//! bit-vector encoding (words all 0/1 or all 0/-1) counts as dirty.
use std::alloc::{GlobalAlloc, Layout, System};
use std::sync::atomic::{AtomicBool, AtomicUsize, Ordering};

pub struct Scanner;
pub static ARMED: AtomicBool = AtomicBool::new(false);
pub static FREED: AtomicUsize = AtomicUsize::new(0);
pub static DIRTY: AtomicUsize = AtomicUsize::new(0);
pub static DIRTY_SIZE: AtomicUsize = AtomicUsize::new(0);
pub const MARK: u8 = 0xA7;

unsafe fn scan(ptr: *mut u8, size: usize) {
    if !ARMED.load(Ordering::Relaxed) {
        return;
    }
    FREED.fetch_add(1, Ordering::Relaxed);
    // the marker value 0xA7A7A7A7A7A7A7A7 written out in decimal (a formatted copy of the secret value)
    const DEC: &[u8] = b"12080808863958804391";
    if size >= DEC.len() {
        let mut k = 0usize;
        while k + DEC.len() <= size {
            let mut j = 0usize;
            while j < DEC.len() && *ptr.add(k + j) == DEC[j] {
                j += 1;
            }
            if j == DEC.len() {
                DIRTY.fetch_add(1, Ordering::Relaxed);
                DIRTY_SIZE.store(size, Ordering::Relaxed);
                return;
            }
            k += 1;
        }
    }
    // a bit decomposition of the witness: at least 8 consecutive 32-byte words that are all the scalars 0 / 1 (a_L) or all 0 / -1 (a_R),
    // both values occurring (an all-zero block is a wiped one)
    const ONE: [u8; 32] = [1, 0, 0, 0, 0, 0, 0, 0, 0, 0, 0, 0, 0, 0, 0, 0, 0, 0, 0, 0, 0, 0, 0, 0, 0, 0, 0, 0, 0, 0, 0, 0];
    const MINUS_ONE: [u8; 32] = [
        0xec, 0xd3, 0xf5, 0x5c, 0x1a, 0x63, 0x12, 0x58, 0xd6, 0x9c, 0xf7, 0xa2, 0xde, 0xf9, 0xde, 0x14, 0, 0, 0, 0, 0, 0, 0, 0, 0, 0, 0, 0, 0, 0, 0, 0x10,
    ];
    if size >= 8 * 32 && size % 32 == 0 {
        for pat in [&ONE, &MINUS_ONE] {
            let (mut zeros, mut hits, mut other) = (0usize, 0usize, false);
            let mut w = 0usize;
            while w < size / 32 {
                let mut is_zero = true;
                let mut is_pat = true;
                let mut j = 0usize;
                while j < 32 {
                    let b = *ptr.add(w * 32 + j);
                    if b != 0 {
                        is_zero = false;
                    }
                    if b != pat[j] {
                        is_pat = false;
                    }
                    j += 1;
                }
                if is_zero {
                    zeros += 1;
                } else if is_pat {
                    hits += 1;
                } else {
                    other = true;
                    break;
                }
                w += 1;
            }
            if !other && zeros >= 1 && hits >= 1 {
                DIRTY.fetch_add(1, Ordering::Relaxed);
                DIRTY_SIZE.store(size, Ordering::Relaxed);
                return;
            }
        }
    }
    let mut run = 0usize;
    let mut i = 0usize;
    while i < size {
        if *ptr.add(i) == MARK {
            run += 1;
            if run >= 8 {
                DIRTY.fetch_add(1, Ordering::Relaxed);
                DIRTY_SIZE.store(size, Ordering::Relaxed);
                return;
            }
        } else {
            run = 0;
        }
        i += 1;
    }
}

unsafe impl GlobalAlloc for Scanner {
    unsafe fn alloc(&self, layout: Layout) -> *mut u8 {
        System.alloc(layout)
    }
    unsafe fn dealloc(&self, ptr: *mut u8, layout: Layout) {
        scan(ptr, layout.size());
        System.dealloc(ptr, layout)
    }
    unsafe fn realloc(&self, ptr: *mut u8, layout: Layout, new_size: usize) -> *mut u8 {
        // a growing buffer releases its old block: inspect it like a dealloc
        let new = System.alloc(Layout::from_size_align_unchecked(new_size, layout.align()));
        if !new.is_null() {
            core::ptr::copy_nonoverlapping(ptr, new, layout.size().min(new_size));
            scan(ptr, layout.size());
            System.dealloc(ptr, layout);
        }
        new
    }
}

pub fn arm() {
    FREED.store(0, Ordering::Relaxed);
    DIRTY.store(0, Ordering::Relaxed);
    ARMED.store(true, Ordering::Relaxed);
}
pub fn disarm() -> (usize, usize, usize) {
    ARMED.store(false, Ordering::Relaxed);
    (FREED.load(Ordering::Relaxed), DIRTY.load(Ordering::Relaxed), DIRTY_SIZE.load(Ordering::Relaxed))
}
