//! environment layer, MODEL flavour: symbolic scalars / points / RNG streams backed by symcore
use curve25519_dalek::{ristretto::RistrettoPoint, scalar::Scalar};
use rand_core::{CryptoRng, RngCore};
use serde_json::{json, Value};
use symcore::{with, Blob, U64Reg};

pub const FLAVOUR: &str = "model";

pub fn seed() -> u64 {
    with(|c| c.seed)
}
pub fn sym_scalar(name: &str, kind: &str) -> Scalar {
    Scalar::sym(name, kind)
}
pub fn seed_variant_topbyte(_s: &Scalar, idx: usize) -> Scalar {
    Scalar::sym(&format!("seed_topbyte_{}", idx), "seed")
}
pub fn noncanonical_encoding_of(_cur: &[u8; 32], _name: &str) -> [u8; 32] {
    // in the model a second encoding of a scalar is an opaque element whose canonicity question is answered "no"
    with(|c| {
        let b = c.new_elem();
        let id = c.dec32(&b).unwrap();
        c.noncanonical.push(id);
        b
    })
}
pub fn free_point(_name: &str) -> RistrettoPoint {
    RistrettoPoint::free()
}
pub fn scalar_id(s: &Scalar) -> Value {
    json!(s.node())
}
pub fn point_id(p: &RistrettoPoint) -> Value {
    json!(p.id())
}
pub fn hex32(b: &[u8; 32]) -> String {
    b.iter().map(|x| format!("{:02x}", x)).collect()
}
pub fn events_len() -> usize {
    with(|c| c.events.len())
}
pub fn work() -> u64 {
    with(|c| c.work)
}
/// an opaque adversarial 32-byte element (role is ignored in the model: the element is interpreted by use)
pub fn new_elem(_is_point: bool, _name: &str) -> ([u8; 32], Value) {
    with(|c| {
        let b = c.new_elem();
        let id = c.dec32(&b).unwrap();
        (b, json!(id))
    })
}
pub fn mark_undecodable(b: &[u8; 32]) -> [u8; 32] {
    with(|c| {
        let id = c.dec32(b).unwrap();
        c.undecodable.push(id);
    });
    *b
}
pub fn mark_noncanonical(b: &[u8; 32]) -> [u8; 32] {
    with(|c| {
        let id = c.dec32(b).unwrap();
        c.noncanonical.push(id);
    });
    *b
}
/// make a concrete u64 stand for a named variable (value / promise)
pub fn register_u64(name: &str, kind: &str, concrete: u64, meta: Value) -> bool {
    with(|c| {
        if c.lookup_u64(concrete).is_some() {
            return false;
        }
        let node = c.var(name, kind, Some(symcore::fl::Fl::from_u64(concrete)), meta);
        if let symcore::Op::Var(vid) = c.op(node).clone() {
            c.register_u64(concrete, U64Reg::Var(vid));
        }
        true
    })
}
pub fn set_forced(list: &Value) {
    if let Some(f) = list.as_array() {
        with(|c| {
            for e in f {
                let kind = e[0].as_str().unwrap().to_string();
                let base = if kind == "final_eq" { 0 } else { *c.branch_counts.get(&kind).unwrap_or(&0) };
                c.forced.insert((kind, base + e[1].as_u64().unwrap() as u32), e[2].as_bool().unwrap());
            }
        });
    }
}
pub fn layout(bytes: &[u8]) -> Value {
    with(|c| {
        let pieces = c.scan(bytes);
        json!({"len": bytes.len(), "pieces": pieces.iter().map(|p| match p {
            symcore::Piece::Lit(b) => json!({"lit": symcore::hex(b)}),
            symcore::Piece::Blob(id) => json!({"blob": id}),
            symcore::Piece::U64(i) => json!({"u64": i}),
        }).collect::<Vec<_>>()})
    })
}
pub fn dump() -> Value {
    with(|c| c.dump())
}
pub fn install_panic_hook() {
    std::panic::set_hook(Box::new(|info| {
        with(|c| c.events.push(json!({"ev":"panic","msg": format!("{}", info)})));
    }));
}

/// external RNG handed to the prover
pub struct SymRng {
    stream: u32,
    ctr: u32,
    model: String,
}
impl SymRng {
    pub fn new(model: &str, _name: &str) -> SymRng {
        // a short-period RNG is the same faulty device in every run: one shared stream
        let stream = if model == "period2" {
            0xffff
        } else {
            with(|c| {
                let s = c.ext_streams;
                c.ext_streams += 1;
                s
            })
        };
        SymRng { stream, ctr: 0, model: model.to_string() }
    }
    /// the same stream again from its start (a replayed stream)
    pub fn replay(&self) -> SymRng {
        SymRng { stream: self.stream, ctr: 0, model: self.model.clone() }
    }
}
impl RngCore for SymRng {
    fn next_u32(&mut self) -> u32 {
        self.next_u64() as u32
    }
    fn next_u64(&mut self) -> u64 {
        let mut b = [0u8; 8];
        self.fill_bytes(&mut b);
        u64::from_le_bytes(b)
    }
    fn fill_bytes(&mut self, dest: &mut [u8]) {
        match self.model.as_str() {
            "zero" => dest.iter_mut().for_each(|x| *x = 0),
            "const" => dest.iter_mut().for_each(|x| *x = 0x42),
            m => {
                // "sym": every draw a fresh symbol; "period2": draws repeat with period 2
                let ctr = if m == "period2" { self.ctr % 2 } else { self.ctr };
                self.ctr += 1;
                with(|c| {
                    let id = c.blob(Blob::Ext { stream: self.stream, ctr, len: dest.len() as u32 });
                    c.enc_n(id, dest);
                });
            },
        }
    }
    fn try_fill_bytes(&mut self, dest: &mut [u8]) -> Result<(), rand_core::Error> {
        self.fill_bytes(dest);
        Ok(())
    }
}
impl CryptoRng for SymRng {}
