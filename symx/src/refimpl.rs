//! REAL flavour only: an independent, unoptimised evaluation of the Bulletproofs+ verification relation
//! written from the paper (Chung et al. 2020, Fig. 1-3) and the documented transcript layout, over the
//! real Ristretto group. Used to replay solver findings: "the library's verdict disagrees with the
//! independent evaluation of the relation on this input".
use curve25519_dalek::{
    ristretto::{CompressedRistretto, RistrettoPoint},
    scalar::Scalar,
    traits::Identity,
};
use merlin::Transcript;
use tari_bulletproofs_plus::range_statement::RangeStatement;

fn challenge(t: &mut Transcript, label: &'static [u8]) -> Option<Scalar> {
    let mut buf = [0u8; 64];
    t.challenge_bytes(label, &mut buf);
    let s = Scalar::from_bytes_mod_order_wide(&buf);
    if s == Scalar::ZERO {
        None
    } else {
        Some(s)
    }
}

fn pow(b: &Scalar, mut k: usize) -> Scalar {
    let mut r = Scalar::ONE;
    let mut base = *b;
    while k > 0 {
        if k & 1 == 1 {
            r *= base;
        }
        base = base * base;
        k >>= 1;
    }
    r
}

/// Some(true/false): verdict of the relation; None: malformed input (shape / encoding / identity)
pub fn reference_verify(transcript: &Transcript, st: &RangeStatement<RistrettoPoint>, proof_bytes: &[u8]) -> Option<bool> {
    let n = st.generators.bit_length();
    let m = st.commitments.len();
    let x = st.generators.extension_degree() as usize;
    let nm = n * m;
    // ---- decode
    if proof_bytes.is_empty() || proof_bytes[0] as usize != x || (proof_bytes.len() - 1) % 32 != 0 {
        return None;
    }
    let elems: Vec<[u8; 32]> = proof_bytes[1..].chunks(32).map(|c| c.try_into().unwrap()).collect();
    if elems.len() < x + 5 || (elems.len() - x - 5) % 2 != 0 {
        return None;
    }
    let rounds = (elems.len() - x - 5) / 2;
    if rounds >= usize::BITS as usize || (1usize << rounds) != nm {
        return None;
    }
    let scalar = |b: &[u8; 32]| Option::<Scalar>::from(Scalar::from_canonical_bytes(*b));
    let point = |b: &[u8; 32]| {
        let p = CompressedRistretto(*b).decompress()?;
        if p == RistrettoPoint::identity() {
            None
        } else {
            Some(p)
        }
    };
    let mut d1 = Vec::new();
    for k in 0..x {
        d1.push(scalar(&elems[k])?);
    }
    let a = point(&elems[x])?;
    let a1 = point(&elems[x + 1])?;
    let b = point(&elems[x + 2])?;
    let r1 = scalar(&elems[x + 3])?;
    let s1 = scalar(&elems[x + 4])?;
    let mut ls = Vec::new();
    let mut rs = Vec::new();
    for j in 0..rounds {
        ls.push(point(&elems[x + 5 + 2 * j])?);
        rs.push(point(&elems[x + 6 + 2 * j])?);
    }
    // ---- Fiat-Shamir (documented layout)
    let mut t = transcript.clone();
    t.append_message(b"dom-sep", b"Bulletproofs+ Range Proof");
    t.append_message(b"H", st.generators.h_base().compress().as_bytes());
    for g in st.generators.g_bases() {
        t.append_message(b"G", g.compress().as_bytes());
    }
    t.append_u64(b"N", n as u64);
    t.append_u64(b"T", x as u64);
    t.append_u64(b"M", m as u64);
    for c in &st.commitments {
        t.append_message(b"Ci", c.compress().as_bytes());
    }
    for p in &st.minimum_value_promises {
        t.append_u64(b"vi - minimum_value", p.unwrap_or(0));
    }
    t.append_message(b"A", &elems[x]);
    let y = challenge(&mut t, b"y")?;
    let z = challenge(&mut t, b"z")?;
    let mut es = Vec::new();
    for j in 0..rounds {
        t.append_message(b"L", &elems[x + 5 + 2 * j]);
        t.append_message(b"R", &elems[x + 6 + 2 * j]);
        es.push(challenge(&mut t, b"e")?);
    }
    t.append_message(b"A1", &elems[x + 1]);
    t.append_message(b"B", &elems[x + 2]);
    let e = challenge(&mut t, b"e")?;
    // promises must fit
    for p in st.minimum_value_promises.iter().flatten() {
        if n < 64 && (*p >> n) > 0 {
            return None;
        }
    }
    // ---- the relation, term by term
    let gs: Vec<RistrettoPoint> = st.generators.gi_base_iter().take(nm).cloned().collect();
    let hs: Vec<RistrettoPoint> = st.generators.hi_base_iter().take(nm).cloned().collect();
    if gs.len() != nm || hs.len() != nm {
        return None;
    }
    let h = *st.generators.h_base();
    let gb = st.generators.g_bases();
    let yinv = y.invert();
    let z2 = z * z;
    let mut d = Vec::new();
    for j in 0..m {
        for i in 0..n {
            d.push(pow(&z2, j + 1) * Scalar::from(1u128 << i));
        }
    }
    let mut sum_y = Scalar::ZERO;
    for i in 1..=nm {
        sum_y += pow(&y, i);
    }
    let sum_d: Scalar = d.iter().sum();
    let ynm1 = pow(&y, nm + 1);
    let c = z * sum_y - z * ynm1 * sum_d - z2 * sum_y;
    // A_hat
    let mut a_hat = a;
    for i in 0..nm {
        a_hat += gs[i] * (-z);
        a_hat += hs[i] * (z + d[i] * pow(&y, nm - i));
    }
    for j in 0..m {
        let wj = ynm1 * pow(&z2, j + 1);
        a_hat += st.commitments[j] * wj;
        if let Some(p) = st.minimum_value_promises[j] {
            a_hat += h * (-(wj * Scalar::from(p)));
        }
    }
    a_hat += h * c;
    let mut p = a_hat;
    for j in 0..rounds {
        p += ls[j] * (es[j] * es[j]);
        let ei = es[j].invert();
        p += rs[j] * (ei * ei);
    }
    let lhs = p * (e * e) + a1 * e + b;
    // folded generators
    let mut g_fold = RistrettoPoint::identity();
    let mut h_fold = RistrettoPoint::identity();
    for i in 0..nm {
        let mut s_i = Scalar::ONE;
        let mut s_rev = Scalar::ONE;
        let mut yp = Scalar::ONE;
        for j in 0..rounds {
            let bit = (i >> (rounds - 1 - j)) & 1;
            if bit == 1 {
                s_i *= es[j];
                s_rev *= es[j].invert();
                yp *= pow(&yinv, nm >> (j + 1));
            } else {
                s_i *= es[j].invert();
                s_rev *= es[j];
            }
        }
        g_fold += gs[i] * (s_i * yp);
        h_fold += hs[i] * s_rev;
    }
    let mut rhs = g_fold * (r1 * e) + h_fold * (s1 * e) + h * (r1 * s1 * y);
    for k in 0..x {
        rhs += gb[k] * d1[k];
    }
    Some(lhs == rhs)
}


/// the documented generator derivation, computed independently of the library:
/// G_j[i] / H_j[i] = hash-to-group(block i of SHAKE256("GeneratorsChain" || 'G'/'H' || LE32(j))), blinding generator k =
/// hash-to-group(SHA3-512("RISTRETTO_MASKING_BASEPOINT_" || decimal(k+1))), value generator = Ristretto basepoint
pub fn reference_generators(n: usize, cap: usize, x: usize) -> serde_json::Value {
    use sha3::digest::{ExtendableOutput, Update, XofReader};
    let chain = |tag: u8, party: u32, count: usize| -> Vec<String> {
        let mut sh = sha3::Shake256::default();
        sh.update(b"GeneratorsChain");
        let mut label = vec![tag];
        label.extend_from_slice(&party.to_le_bytes());
        sh.update(&label);
        let mut rd = sh.finalize_xof();
        (0..count)
            .map(|_| {
                let mut b = [0u8; 64];
                rd.read(&mut b);
                RistrettoPoint::from_uniform_bytes(&b).compress().as_bytes().iter().map(|x| format!("{:02x}", x)).collect()
            })
            .collect()
    };
    let mut gi = Vec::new();
    let mut hi = Vec::new();
    for j in 0..cap {
        gi.extend(chain(b'G', j as u32, n));
        hi.extend(chain(b'H', j as u32, n));
    }
    let g: Vec<String> = (0..x)
        .map(|k| {
            use sha3::Digest;
            let mut h = sha3::Sha3_512::default();
            Digest::update(&mut h, format!("RISTRETTO_MASKING_BASEPOINT_{}", k + 1).as_bytes());
            let out: [u8; 64] = h.finalize().into();
            RistrettoPoint::from_uniform_bytes(&out).compress().as_bytes().iter().map(|x| format!("{:02x}", x)).collect()
        })
        .collect();
    let h: String = curve25519_dalek::constants::RISTRETTO_BASEPOINT_COMPRESSED.as_bytes().iter().map(|x| format!("{:02x}", x)).collect();
    serde_json::json!({"gi": gi, "hi": hi, "g": g, "h": h})
}

// ------------------------------------------------------------------------------------------------
// an independent straight-from-the-paper PROVER (Chung et al. 2020, Fig. 3 with the zk-WIP argument of Fig. 1),
// with the documented seed-nonce derivation, so that the library's verifier / mask recovery can be checked against it

fn ref_nonce(seed: &Scalar, label: &str, j: Option<usize>, k: Option<usize>) -> Scalar {
    use blake2::digest::FixedOutput;
    let mut key = vec![0u8];
    key.extend_from_slice(seed.as_bytes());
    if let Some(j) = j {
        key.push(b'j');
        key.extend_from_slice(&(j as u32).to_le_bytes());
    }
    if let Some(k) = k {
        key.push(b'k');
        key.extend_from_slice(&(k as u32).to_le_bytes());
    }
    let mac = blake2::Blake2bMac512::new_with_salt_and_personal(&key, &[], label.as_bytes()).expect("blake2 parameters");
    let out = mac.finalize_fixed();
    let mut wide = [0u8; 64];
    wide.copy_from_slice(out.as_slice());
    Scalar::from_bytes_mod_order_wide(&wide)
}

/// where the reference prover takes its nonces from
pub trait NonceSource {
    /// the prover's transcript reached a point where the library rebuilds its RNG (after the statement, after A, after each (L, R))
    fn stage(&mut self, t: &Transcript);
    /// nonce `name` (alpha_k, dL_j_k, dR_j_k, r, s, d_k, eta_k); `seeded` = Some((label, j, k)) for the ones the documented derivation takes from the seed
    fn draw(&mut self, name: &str, seeded: Option<(&str, Option<usize>, usize)>) -> Scalar;
    /// the fully folded witness scalars (a, b) the final responses are built from (r1 = r + a e, s1 = s + b e); default: not interested
    fn folded(&mut self, _a: Scalar, _b: Scalar) {}
}

/// the caller's RNG directly (interoperability tests: any nonces give an acceptable proof)
pub struct DirectSource<'a, R: rand_core::RngCore> {
    pub rng: &'a mut R,
    pub seed: Option<Scalar>,
}
impl<'a, R: rand_core::RngCore> NonceSource for DirectSource<'a, R> {
    fn stage(&mut self, _t: &Transcript) {}
    fn draw(&mut self, _name: &str, seeded: Option<(&str, Option<usize>, usize)>) -> Scalar {
        match (self.seed, seeded) {
            (Some(s), Some((label, j, k))) => ref_nonce(&s, label, j, Some(k)),
            _ => nonzero(self.rng),
        }
    }
}

/// the DOCUMENTED derivation (C13 / C14 / C19): every RNG nonce is the next non-zero output of
/// transcript.build_rng().rekey_with_witness_bytes("witness", LE64(v_j) | r_j,0.. for every opening).finalize(external RNG), rebuilt at every stage;
/// with a seed, alpha / dL / dR / d / eta are the Blake2b nonces. `alias`: (name, other name) pairs — `name` takes the VALUE drawn for `other name`
/// instead of a draw of its own (used to replay "these two nonces are one and the same" findings).
pub struct DocumentedSource {
    pub witness_bytes: Vec<u8>,
    pub ext: u8,
    pub seed: Option<Scalar>,
    pub rng: Option<merlin::TranscriptRng>,
    pub drawn: Vec<(String, Scalar)>,
    pub alias: Vec<(String, String)>,
}
impl NonceSource for DocumentedSource {
    fn stage(&mut self, t: &Transcript) {
        self.rng = Some(t.build_rng().rekey_with_witness_bytes(b"witness", &self.witness_bytes).finalize(&mut StuckRng(self.ext)));
    }
    fn draw(&mut self, name: &str, seeded: Option<(&str, Option<usize>, usize)>) -> Scalar {
        let v = match (self.seed, seeded) {
            (Some(s), Some((label, j, k))) => ref_nonce(&s, label, j, Some(k)),
            _ => {
                if let Some((_, other)) = self.alias.iter().find(|(n, _)| n == name) {
                    if let Some((_, v)) = self.drawn.iter().find(|(n, _)| n == other) {
                        let v = *v;
                        self.drawn.push((name.to_string(), v));
                        return v;
                    }
                }
                nonzero(self.rng.as_mut().expect("stage() before draw()"))
            },
        };
        self.drawn.push((name.to_string(), v));
        v
    }
}

/// returns the proof bytes in the released wire layout (nonces from the caller's RNG / the documented seed nonces)
pub fn reference_prove<R: rand_core::RngCore + rand_core::CryptoRng>(
    transcript: &Transcript,
    st: &RangeStatement<RistrettoPoint>,
    values: &[u64],
    blindings: &[Vec<Scalar>],
    rng: &mut R,
) -> Option<Vec<u8>> {
    let mut src = DirectSource { rng, seed: st.seed_nonce };
    reference_prove_with(transcript, st, values, blindings, &mut src)
}

/// the proof the DOCUMENTED derivation produces for this witness when the external RNG is stuck at `ext` (byte-for-byte what the library must output)
pub fn reference_prove_documented(
    transcript: &Transcript,
    st: &RangeStatement<RistrettoPoint>,
    values: &[u64],
    blindings: &[Vec<Scalar>],
    ext: u8,
    alias: &[(String, String)],
) -> Option<Vec<u8>> {
    let mut wb = Vec::new();
    for (v, r) in values.iter().zip(blindings.iter()) {
        wb.extend_from_slice(&v.to_le_bytes());
        for s in r {
            wb.extend_from_slice(s.as_bytes());
        }
    }
    let mut src = DocumentedSource { witness_bytes: wb, ext, seed: st.seed_nonce, rng: None, drawn: Vec::new(), alias: alias.to_vec() };
    reference_prove_with(transcript, st, values, blindings, &mut src)
}

pub fn reference_prove_with(
    transcript: &Transcript,
    st: &RangeStatement<RistrettoPoint>,
    values: &[u64],
    blindings: &[Vec<Scalar>],
    src: &mut dyn NonceSource,
) -> Option<Vec<u8>> {
    let n = st.generators.bit_length();
    let m = st.commitments.len();
    let x = st.generators.extension_degree() as usize;
    let nm = n * m;
    let gs: Vec<RistrettoPoint> = st.generators.gi_base_iter().take(nm).cloned().collect();
    let hs: Vec<RistrettoPoint> = st.generators.hi_base_iter().take(nm).cloned().collect();
    let h = *st.generators.h_base();
    let gb: Vec<RistrettoPoint> = st.generators.g_bases().to_vec();
    // bits
    let mut a_l = Vec::new();
    let mut a_r = Vec::new();
    for j in 0..m {
        let o = values[j].checked_sub(st.minimum_value_promises[j].unwrap_or(0))?;
        if n < 64 && (values[j] >> n) > 0 {
            return None;
        }
        for i in 0..n {
            let bit = (o >> i) & 1;
            a_l.push(Scalar::from(bit));
            a_r.push(Scalar::from(bit) - Scalar::ONE);
        }
    }
    // Fiat-Shamir transcript up to the statement (the library builds its first RNG here)
    let mut t = transcript.clone();
    t.append_message(b"dom-sep", b"Bulletproofs+ Range Proof");
    t.append_message(b"H", h.compress().as_bytes());
    for g in &gb {
        t.append_message(b"G", g.compress().as_bytes());
    }
    t.append_u64(b"N", n as u64);
    t.append_u64(b"T", x as u64);
    t.append_u64(b"M", m as u64);
    for c in &st.commitments {
        t.append_message(b"Ci", c.compress().as_bytes());
    }
    for p in &st.minimum_value_promises {
        t.append_u64(b"vi - minimum_value", p.unwrap_or(0));
    }
    src.stage(&t);
    let mut alpha: Vec<Scalar> = (0..x).map(|k| src.draw(&format!("alpha_{}", k), Some(("alpha", None, k)))).collect();
    let mut a_pt = RistrettoPoint::identity();
    for i in 0..nm {
        a_pt += gs[i] * a_l[i] + hs[i] * a_r[i];
    }
    for k in 0..x {
        a_pt += gb[k] * alpha[k];
    }
    t.append_message(b"A", a_pt.compress().as_bytes());
    src.stage(&t);
    let y = challenge(&mut t, b"y")?;
    let z = challenge(&mut t, b"z")?;
    let z2 = z * z;
    // shifted vectors
    let mut a: Vec<Scalar> = a_l.iter().map(|v| v - z).collect();
    let mut b: Vec<Scalar> = Vec::new();
    for j in 0..m {
        for i in 0..n {
            let idx = j * n + i;
            let d = pow(&z2, j + 1) * Scalar::from(1u128 << i);
            b.push(a_r[idx] + d * pow(&y, nm - idx) + z);
        }
    }
    let ynm1 = pow(&y, nm + 1);
    for j in 0..m {
        for k in 0..x {
            alpha[k] += pow(&z2, j + 1) * blindings[j][k] * ynm1;
        }
    }
    // weighted inner product argument
    let mut g_cur = gs.clone();
    let mut h_cur = hs.clone();
    let mut ls = Vec::new();
    let mut rs = Vec::new();
    let mut len = nm;
    let mut round = 0usize;
    while len > 1 {
        len /= 2;
        let (a_lo, a_hi) = a.split_at(len);
        let (b_lo, b_hi) = b.split_at(len);
        let (g_lo, g_hi) = g_cur.split_at(len);
        let (h_lo, h_hi) = h_cur.split_at(len);
        let y_len = pow(&y, len);
        let y_len_inv = y_len.invert();
        let mut c_l = Scalar::ZERO;
        let mut c_r = Scalar::ZERO;
        for i in 0..len {
            c_l += a_lo[i] * pow(&y, i + 1) * b_hi[i];
            c_r += a_hi[i] * pow(&y, len + i + 1) * b_lo[i];
        }
        let d_l: Vec<Scalar> = (0..x).map(|k| src.draw(&format!("dL_{}_{}", round, k), Some(("dL", Some(round), k)))).collect();
        let d_r: Vec<Scalar> = (0..x).map(|k| src.draw(&format!("dR_{}_{}", round, k), Some(("dR", Some(round), k)))).collect();
        let mut l_pt = h * c_l;
        let mut r_pt = h * c_r;
        for i in 0..len {
            l_pt += g_hi[i] * (a_lo[i] * y_len_inv) + h_lo[i] * b_hi[i];
            r_pt += g_lo[i] * (a_hi[i] * y_len) + h_hi[i] * b_lo[i];
        }
        for k in 0..x {
            l_pt += gb[k] * d_l[k];
            r_pt += gb[k] * d_r[k];
        }
        t.append_message(b"L", l_pt.compress().as_bytes());
        t.append_message(b"R", r_pt.compress().as_bytes());
        src.stage(&t);
        let e = challenge(&mut t, b"e")?;
        let ei = e.invert();
        let g_new: Vec<RistrettoPoint> = (0..len).map(|i| g_lo[i] * ei + g_hi[i] * (e * y_len_inv)).collect();
        let h_new: Vec<RistrettoPoint> = (0..len).map(|i| h_lo[i] * e + h_hi[i] * ei).collect();
        let a_new: Vec<Scalar> = (0..len).map(|i| a_lo[i] * e + a_hi[i] * y_len * ei).collect();
        let b_new: Vec<Scalar> = (0..len).map(|i| b_lo[i] * ei + b_hi[i] * e).collect();
        for k in 0..x {
            alpha[k] += d_l[k] * e * e + d_r[k] * ei * ei;
        }
        ls.push(l_pt);
        rs.push(r_pt);
        g_cur = g_new;
        h_cur = h_new;
        a = a_new;
        b = b_new;
        round += 1;
    }
    src.folded(a[0], b[0]);
    let r = src.draw("r", None);
    let s = src.draw("s", None);
    let d: Vec<Scalar> = (0..x).map(|k| src.draw(&format!("d_{}", k), Some(("d", None, k)))).collect();
    let eta: Vec<Scalar> = (0..x).map(|k| src.draw(&format!("eta_{}", k), Some(("eta", None, k)))).collect();
    let mut a1 = g_cur[0] * r + h_cur[0] * s + h * (r * y * b[0] + s * y * a[0]);
    let mut b_pt = h * (r * y * s);
    for k in 0..x {
        a1 += gb[k] * d[k];
        b_pt += gb[k] * eta[k];
    }
    t.append_message(b"A1", a1.compress().as_bytes());
    t.append_message(b"B", b_pt.compress().as_bytes());
    let e = challenge(&mut t, b"e")?;
    let r1 = r + a[0] * e;
    let s1 = s + b[0] * e;
    let d1: Vec<Scalar> = (0..x).map(|k| eta[k] + d[k] * e + alpha[k] * e * e).collect();
    // wire layout: tag | d1 | A | A1 | B | r1 | s1 | (L, R)*
    let mut out = vec![x as u8];
    for v in &d1 {
        out.extend_from_slice(v.as_bytes());
    }
    out.extend_from_slice(a_pt.compress().as_bytes());
    out.extend_from_slice(a1.compress().as_bytes());
    out.extend_from_slice(b_pt.compress().as_bytes());
    out.extend_from_slice(r1.as_bytes());
    out.extend_from_slice(s1.as_bytes());
    for (l, r_) in ls.iter().zip(rs.iter()) {
        out.extend_from_slice(l.compress().as_bytes());
        out.extend_from_slice(r_.compress().as_bytes());
    }
    Some(out)
}

/// records the folded witness scalars of a reference run whose seed nonces are the documented ones (the RNG-drawn ones do not matter here)
struct FoldCapture {
    seed: Option<Scalar>,
    folded: Option<(Scalar, Scalar)>,
}
impl NonceSource for FoldCapture {
    fn stage(&mut self, _t: &Transcript) {}
    fn draw(&mut self, name: &str, seeded: Option<(&str, Option<usize>, usize)>) -> Scalar {
        match (self.seed, seeded) {
            (Some(sd), Some((label, j, k))) => ref_nonce(&sd, label, j, Some(k)),
            _ => {
                let mut h = [0u8; 64];
                for (i, b) in name.bytes().enumerate() {
                    h[i % 64] ^= b.wrapping_add(i as u8);
                }
                h[63] = 1;
                Scalar::from_bytes_mod_order_wide(&h)
            },
        }
    }
    fn folded(&mut self, a: Scalar, b: Scalar) {
        self.folded = Some((a, b));
    }
}

/// the two final masking scalars of a SEEDED proof of any size, opened by the witness holder: with a seed, alpha / dL / dR are the documented
/// Blake2b nonces, so A, every L and R — hence every challenge up to the last round and the folded witness (a, b) — can be recomputed by the
/// independent prover; the final challenge e is read off the library's own A1, B; then r = r1 - a e, s = s1 - b e. None when the library's
/// A / L / R are not the documented ones (nothing can be opened that way).
pub fn open_final_masks_seeded(transcript: &Transcript, st: &RangeStatement<RistrettoPoint>, values: &[u64], blindings: &[Vec<Scalar>], proof_bytes: &[u8]) -> Option<(Scalar, Scalar)> {
    st.seed_nonce?;
    let x = st.generators.extension_degree() as usize;
    let elems: Vec<[u8; 32]> = proof_bytes[1..].chunks(32).map(|c| c.try_into().unwrap()).collect();
    let mut cap = FoldCapture { seed: st.seed_nonce, folded: None };
    let reference = reference_prove_with(transcript, st, values, blindings, &mut cap)?;
    let relems: Vec<[u8; 32]> = reference[1..].chunks(32).map(|c| c.try_into().unwrap()).collect();
    if relems.len() != elems.len() || relems[x] != elems[x] || relems[x + 5..] != elems[x + 5..] {
        return None;
    }
    let (a, b) = cap.folded?;
    let sg = stages(transcript, st, proof_bytes)?;
    let mut t = sg.states.last().unwrap().clone();
    let e = challenge(&mut t, b"e")?;
    let r1 = Option::<Scalar>::from(Scalar::from_canonical_bytes(elems[x + 3]))?;
    let s1 = Option::<Scalar>::from(Scalar::from_canonical_bytes(elems[x + 4]))?;
    Some((r1 - a * e, s1 - b * e))
}

// ------------------------------------------------------------------------------------------------
// attacks that become possible when a derivation is weakened (used to replay derivation findings of C08 / C13 / C14 concretely)

/// an external RNG stuck at one byte value
pub struct StuckRng(pub u8);
impl rand_core::RngCore for StuckRng {
    fn next_u32(&mut self) -> u32 {
        u32::from_le_bytes([self.0; 4])
    }
    fn next_u64(&mut self) -> u64 {
        u64::from_le_bytes([self.0; 8])
    }
    fn fill_bytes(&mut self, dest: &mut [u8]) {
        for b in dest.iter_mut() {
            *b = self.0;
        }
    }
    fn try_fill_bytes(&mut self, dest: &mut [u8]) -> Result<(), rand_core::Error> {
        self.fill_bytes(dest);
        Ok(())
    }
}
impl rand_core::CryptoRng for StuckRng {}

fn nonzero<R: rand_core::RngCore>(rng: &mut R) -> Scalar {
    loop {
        let mut b = [0u8; 64];
        rng.fill_bytes(&mut b);
        let v = Scalar::from_bytes_mod_order_wide(&b);
        if v != Scalar::ZERO {
            break v;
        }
    }
}

/// transcript states of one (statement, proof) at the points where the library rebuilds its RNG:
/// [after the statement, after A, after each (L,R), after (A1,B)], plus the challenges
struct Stages {
    states: Vec<Transcript>,
    y: Scalar,
}
fn stages(transcript: &Transcript, st: &RangeStatement<RistrettoPoint>, proof_bytes: &[u8]) -> Option<Stages> {
    let n = st.generators.bit_length();
    let m = st.commitments.len();
    let x = st.generators.extension_degree() as usize;
    let elems: Vec<[u8; 32]> = proof_bytes[1..].chunks(32).map(|c| c.try_into().unwrap()).collect();
    let rounds = (elems.len() - x - 5) / 2;
    let mut t = transcript.clone();
    t.append_message(b"dom-sep", b"Bulletproofs+ Range Proof");
    t.append_message(b"H", st.generators.h_base().compress().as_bytes());
    for g in st.generators.g_bases() {
        t.append_message(b"G", g.compress().as_bytes());
    }
    t.append_u64(b"N", n as u64);
    t.append_u64(b"T", x as u64);
    t.append_u64(b"M", m as u64);
    for c in &st.commitments {
        t.append_message(b"Ci", c.compress().as_bytes());
    }
    for p in &st.minimum_value_promises {
        t.append_u64(b"vi - minimum_value", p.unwrap_or(0));
    }
    let mut states = vec![t.clone()];
    t.append_message(b"A", &elems[x]);
    states.push(t.clone());
    let y = challenge(&mut t, b"y")?;
    let _z = challenge(&mut t, b"z")?;
    for j in 0..rounds {
        t.append_message(b"L", &elems[x + 5 + 2 * j]);
        t.append_message(b"R", &elems[x + 6 + 2 * j]);
        states.push(t.clone());
        challenge(&mut t, b"e")?;
    }
    t.append_message(b"A1", &elems[x + 1]);
    t.append_message(b"B", &elems[x + 2]);
    states.push(t.clone());
    Some(Stages { states, y })
}

/// the u64 by which the documented derivation binds one proof into the weight transcript: first output of the RNG built from the
/// member's transcript after the final challenge and the three responses (external bytes all zero)
fn final_binding(transcript: &Transcript, st: &RangeStatement<RistrettoPoint>, proof_bytes: &[u8]) -> Option<u64> {
    use rand_core::RngCore;
    let x = st.generators.extension_degree() as usize;
    let elems: Vec<[u8; 32]> = proof_bytes[1..].chunks(32).map(|c| c.try_into().unwrap()).collect();
    let s = stages(transcript, st, proof_bytes)?;
    let mut t = s.states.last().unwrap().clone();
    challenge(&mut t, b"e")?;
    t.append_message(b"r1", &elems[x + 3]);
    t.append_message(b"s1", &elems[x + 4]);
    for k in 0..x {
        t.append_message(b"d1", &elems[k]);
    }
    let mut rng = t.build_rng().finalize(&mut StuckRng(0));
    Some(rng.next_u64())
}

/// the state in which the documented protocol leaves the CALLER'S transcript after a verification (everything up to and including the
/// final challenge and the three responses), observed as 16 challenge bytes under a probe label — what continues on that transcript
/// (a second proof, an application challenge) depends on it
pub fn final_probe(transcript: &Transcript, st: &RangeStatement<RistrettoPoint>, proof_bytes: &[u8]) -> Option<String> {
    let x = st.generators.extension_degree() as usize;
    if proof_bytes.len() < 1 + 32 * (x + 5) || (proof_bytes.len() - 1) % 32 != 0 {
        return None;
    }
    let elems: Vec<[u8; 32]> = proof_bytes[1..].chunks(32).map(|c| c.try_into().unwrap()).collect();
    let s = stages(transcript, st, proof_bytes)?;
    let mut t = s.states.last().unwrap().clone();
    challenge(&mut t, b"e")?;
    t.append_message(b"r1", &elems[x + 3]);
    t.append_message(b"s1", &elems[x + 4]);
    for k in 0..x {
        t.append_message(b"d1", &elems[k]);
    }
    let mut b = [0u8; 16];
    t.challenge_bytes(b"replay-probe", &mut b);
    Some(b.iter().map(|v| format!("{:02x}", v)).collect())
}

/// C08: weights recomputed from PUBLIC data under a menu of weakened derivations. For each derivation: member 0's first response is
/// shifted by 1, the weights are computed, member 1's first response is shifted by -w_0/w_1, the weights are computed AGAIN and must not
/// have moved (otherwise that derivation does bind the responses and the attack is not available), and the pair is submitted to the
/// library. Returns the names of the derivations for which the library accepts the two individually invalid proofs.
pub fn weight_attack(
    transcripts: &[Transcript],
    statements: &[RangeStatement<RistrettoPoint>],
    proofs: &[Vec<u8>],
    verify: &dyn Fn(&[Vec<u8>]) -> Vec<bool>,
    recipe: &serde_json::Value,
) -> Vec<String> {
    use rand_core::RngCore;
    let k = proofs.len();
    let mut hits = Vec::new();
    if k < 2 {
        return hits;
    }
    // a derivation READ OFF THE MODEL'S RECORDED LOG of the tree under test (smt/props/c08.py::fold_recipe): the members' documented bindings folded
    // (xor / wrapping sum) into one absorbed value. Its weakness: a proof occurring twice drops out (xor), so the weights do not move when both
    // copies are changed together. Members k-2 and k-1 must be the same (statement, proof, transcript) for that strategy.
    if let Some(entries) = recipe["entries"].as_array() {
        let leak = |s: &str| -> &'static [u8] { Box::leak(s.as_bytes().to_vec().into_boxed_slice()) };
        let init = leak(recipe["init"].as_str().unwrap_or(""));
        let labels: Vec<&'static [u8]> = entries.iter().map(|e| leak(e["label"].as_str().unwrap_or(""))).collect();
        let rec = |ps: &[Vec<u8>]| -> Option<Vec<Scalar>> {
            let b: Vec<u64> = (0..k).map(|i| final_binding(&transcripts[i], &statements[i], &ps[i])).collect::<Option<Vec<u64>>>()?;
            let mut wt = Transcript::new(init);
            for (e, lab) in entries.iter().zip(labels.iter()) {
                let v: u64 = match e["fold"].as_str() {
                    Some("xor") => b.iter().fold(0u64, |a, x| a ^ x),
                    Some("add") => b.iter().fold(0u64, |a, x| a.wrapping_add(*x)),
                    _ => {
                        if e["count"].as_bool().unwrap_or(false) {
                            k as u64
                        } else {
                            let h = e["lit"].as_str().unwrap_or("0000000000000000");
                            let mut le = [0u8; 8];
                            for (i, c) in (0..h.len().min(16)).step_by(2).enumerate() {
                                le[i] = u8::from_str_radix(&h[c..c + 2], 16).unwrap_or(0);
                            }
                            u64::from_le_bytes(le)
                        }
                    },
                };
                wt.append_u64(lab, v);
            }
            let mut wrng = wt.build_rng().finalize(&mut StuckRng(0));
            Some((0..k).map(|_| nonzero(&mut wrng)).collect())
        };
        let tw = |bytes: &mut Vec<u8>, delta: Scalar| {
            let mut b = [0u8; 32];
            b.copy_from_slice(&bytes[1..33]);
            let s = Option::<Scalar>::from(Scalar::from_canonical_bytes(b)).unwrap() + delta;
            bytes[1..33].copy_from_slice(s.as_bytes());
        };
        if k >= 3 && proofs[k - 1] == proofs[k - 2] {
            let mut forged: Vec<Vec<u8>> = proofs.to_vec();
            tw(&mut forged[0], Scalar::ONE);
            if let Some(w) = rec(&forged) {
                let d = -(w[0] * (w[k - 1] + w[k - 2]).invert());
                tw(&mut forged[k - 1], d);
                tw(&mut forged[k - 2], d);
                if rec(&forged).as_ref() == Some(&w) && verify(&forged).iter().any(|r| *r) {
                    hits.push(format!("weights re-derived from the model's recorded log of this tree ({}): a proof submitted twice drops out of the folded seed", recipe));
                }
            }
        }
        for (a, c) in [(0usize, k - 1), (k - 1, 0usize)] {
            let mut forged: Vec<Vec<u8>> = proofs.to_vec();
            tw(&mut forged[a], Scalar::ONE);
            if let Some(w) = rec(&forged) {
                tw(&mut forged[c], -(w[a] * w[c].invert()));
                if rec(&forged).as_ref() == Some(&w) && verify(&forged).iter().any(|r| *r) {
                    hits.push(format!("weights re-derived from the model's recorded log of this tree ({})", recipe));
                }
            }
        }
    }
    type Recipe<'a> = Box<dyn Fn(&[Vec<u8>]) -> Option<Vec<Scalar>> + 'a>;
    let mut variants: Vec<(String, Recipe)> = Vec::new();
    for (name, pick) in [("weights from the RNG state after the statement (responses and proof not absorbed)", 0usize), ("after A", 1), ("after (A1,B), before the responses", usize::MAX)] {
        variants.push((name.to_string(), Box::new(move |ps: &[Vec<u8>]| {
            let mut wt = Transcript::new(b"Bulletproofs+ verifier weights");
            for i in 0..k {
                let s = stages(&transcripts[i], &statements[i], &ps[i])?;
                let stt = if pick == usize::MAX { s.states.last().unwrap() } else { &s.states[pick.min(s.states.len() - 1)] };
                let mut rng = stt.build_rng().finalize(&mut StuckRng(0));
                wt.append_u64(b"proof", rng.next_u64());
            }
            let mut wrng = wt.build_rng().finalize(&mut StuckRng(0));
            Some((0..k).map(|_| nonzero(&mut wrng)).collect())
        })));
    }
    variants.push(("empty weight transcript (no proof bound into the weights)".to_string(), Box::new(move |_ps: &[Vec<u8>]| {
        let wt = Transcript::new(b"Bulletproofs+ verifier weights");
        let mut wrng = wt.build_rng().finalize(&mut StuckRng(0));
        Some((0..k).map(|_| nonzero(&mut wrng)).collect())
    })));
    // the documented per-proof binding, but weight i drawn BEFORE proof i (or before proofs i..) is absorbed
    for (name, lag) in [("progressive: weight i drawn from the weight transcript holding only proofs 0..i-1", 0usize), ("progressive: weight i drawn after proofs 0..i-2 only", 1)] {
        variants.push((name.to_string(), Box::new(move |ps: &[Vec<u8>]| {
            let mut ws = Vec::new();
            for i in 0..k {
                let mut wt = Transcript::new(b"Bulletproofs+ verifier weights");
                for j in 0..i.saturating_sub(lag) {
                    wt.append_u64(b"proof", final_binding(&transcripts[j], &statements[j], &ps[j])?);
                }
                let mut wrng = wt.build_rng().finalize(&mut StuckRng(0));
                ws.push(nonzero(&mut wrng));
            }
            Some(ws)
        })));
    }
    // all weights from one RNG that absorbed every proof but the last one(s)
    for (name, drop) in [("one weight RNG that never absorbed the last proof", 1usize)] {
        variants.push((name.to_string(), Box::new(move |ps: &[Vec<u8>]| {
            let mut wt = Transcript::new(b"Bulletproofs+ verifier weights");
            for j in 0..k.saturating_sub(drop) {
                wt.append_u64(b"proof", final_binding(&transcripts[j], &statements[j], &ps[j])?);
            }
            let mut wrng = wt.build_rng().finalize(&mut StuckRng(0));
            Some((0..k).map(|_| nonzero(&mut wrng)).collect())
        })));
    }
    let tweak = |bytes: &mut Vec<u8>, delta: Scalar| {
        let mut b = [0u8; 32];
        b.copy_from_slice(&bytes[1..33]);
        let s = Option::<Scalar>::from(Scalar::from_canonical_bytes(b)).unwrap() + delta;
        bytes[1..33].copy_from_slice(s.as_bytes());
    };
    let last = k - 1;
    for (name, recipe) in variants {
        let mut forged: Vec<Vec<u8>> = proofs.to_vec();
        tweak(&mut forged[0], Scalar::ONE);
        let w = match recipe(&forged) {
            Some(w) => w,
            None => continue,
        };
        // the compensating member is the LAST one (the one a lagging derivation binds latest or never)
        tweak(&mut forged[last], -(w[0] * w[last].invert()));
        match recipe(&forged) {
            Some(w2) if w2 == w => {},
            _ => continue,
        }
        let res = verify(&forged);
        if res.iter().any(|r| *r) {
            hits.push(name);
        }
    }
    // derivation-agnostic: weights that lie in a low-dimensional family cancel without being known. An arithmetic progression w_i = a + i*b
    // (one random base, "next weight = previous + base") is annihilated by defects in proportion 1 : -2 : 1 on three consecutive members.
    if k >= 3 {
        let mut forged: Vec<Vec<u8>> = proofs.to_vec();
        tweak(&mut forged[0], Scalar::ONE);
        tweak(&mut forged[1], -Scalar::from(2u8));
        tweak(&mut forged[2], Scalar::ONE);
        if verify(&forged).iter().any(|r| *r) {
            hits.push("three members with defects in proportion 1 : -2 : 1 are accepted: the weights form an arithmetic progression (no knowledge of the weights needed)".to_string());
        }
    }
    // a derivation that treats the LARGEST member as the unit of the batch: weight 1, not bound into the weight transcript
    {
        let size = |i: usize| statements[i].commitments.len() * statements[i].generators.bit_length();
        let mx = (0..k).fold(0usize, |best, i| if size(i) > size(best) { i } else { best });
        let other = if mx == 0 { 1 } else { 0 };
        let recipe = |ps: &[Vec<u8>]| -> Option<Vec<Scalar>> {
            let mut wt = Transcript::new(b"Bulletproofs+ verifier weights");
            for i in 0..k {
                if i != mx {
                    wt.append_u64(b"proof", final_binding(&transcripts[i], &statements[i], &ps[i])?);
                }
            }
            let mut wrng = wt.build_rng().finalize(&mut StuckRng(0));
            Some((0..k).map(|i| if i == mx { Scalar::ONE } else { nonzero(&mut wrng) }).collect())
        };
        let mut forged: Vec<Vec<u8>> = proofs.to_vec();
        tweak(&mut forged[other], Scalar::ONE);
        if let Some(w) = recipe(&forged) {
            tweak(&mut forged[mx], -w[other]);
            if recipe(&forged).as_ref() == Some(&w) && verify(&forged).iter().any(|r| *r) {
                hits.push("the largest member has weight 1 and is not bound into the weight transcript".to_string());
            }
        }
    }
    hits
}

/// C13/C14: with the external RNG stuck at `ext`, can an observer who knows only public data reproduce the prover's nonces?
/// (a) alpha from the RNG state after the statement, (b) r, s, d, eta from the state after the last prover message before (A1,B).
/// `a_blind` = A minus its bit part (recomputed by the caller from the witness). Unseeded statements only.
pub fn public_nonce_guess(transcript: &Transcript, st: &RangeStatement<RistrettoPoint>, proof_bytes: &[u8], a_blind: &RistrettoPoint, ext: u8) -> Vec<String> {
    let mut out = Vec::new();
    if st.seed_nonce.is_some() {
        return out;
    }
    let x = st.generators.extension_degree() as usize;
    let s = match stages(transcript, st, proof_bytes) {
        Some(s) => s,
        None => return out,
    };
    let gb = st.generators.g_bases();
    let h = *st.generators.h_base();
    // (a)
    let mut rng = s.states[0].build_rng().finalize(&mut StuckRng(ext));
    let mut guess = RistrettoPoint::identity();
    for k in 0..x {
        guess += gb[k] * nonzero(&mut rng);
    }
    if guess == *a_blind {
        out.push("alpha (the blinding of A) is computable from the public transcript alone".to_string());
    }
    // (b)
    let last = &s.states[s.states.len() - 2];
    let mut rng = last.build_rng().finalize(&mut StuckRng(ext));
    let r = nonzero(&mut rng);
    let sv = nonzero(&mut rng);
    let _d: Vec<Scalar> = (0..x).map(|_| nonzero(&mut rng)).collect();
    let eta: Vec<Scalar> = (0..x).map(|_| nonzero(&mut rng)).collect();
    let mut b_guess = h * (r * s.y * sv);
    for k in 0..x {
        b_guess += gb[k] * eta[k];
    }
    let elems: Vec<[u8; 32]> = proof_bytes[1..].chunks(32).map(|c| c.try_into().unwrap()).collect();
    if b_guess.compress().as_bytes() == &elems[x + 2] {
        out.push("r, s and eta (hence B) are computable from the public transcript alone".to_string());
    }
    out
}

/// C13/C14: for a 1-bit single-commitment proof (no folding) the final masking scalars can be opened from public data and the witness bit:
/// r = r1 - (bit - z) e,  s = s1 - (bit - 1 + z^2 y + z) e
pub fn open_final_masks_1bit(transcript: &Transcript, st: &RangeStatement<RistrettoPoint>, proof_bytes: &[u8], offset_bit: u64) -> Option<(Scalar, Scalar)> {
    let x = st.generators.extension_degree() as usize;
    if st.generators.bit_length() != 1 || st.commitments.len() != 1 {
        return None;
    }
    let elems: Vec<[u8; 32]> = proof_bytes[1..].chunks(32).map(|c| c.try_into().unwrap()).collect();
    let mut t = stages(transcript, st, proof_bytes)?.states[1].clone();
    let y = challenge(&mut t, b"y")?;
    let z = challenge(&mut t, b"z")?;
    t.append_message(b"A1", &elems[x + 1]);
    t.append_message(b"B", &elems[x + 2]);
    let e = challenge(&mut t, b"e")?;
    let r1 = Option::<Scalar>::from(Scalar::from_canonical_bytes(elems[x + 3]))?;
    let s1 = Option::<Scalar>::from(Scalar::from_canonical_bytes(elems[x + 4]))?;
    let bit = Scalar::from(offset_bit);
    Some((r1 - (bit - z) * e, s1 - (bit - Scalar::ONE + z * z * y + z) * e))
}
