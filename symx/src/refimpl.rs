//! REAL flavour only: an independent, unoptimised evaluation of the Bulletproofs+ verification relation
//! written from the paper (Chung et al. 2020, Fig. 1-3) and the documented transcript layout, over the
//! real Ristretto group. Used to replay solver findings: "the library's verdict disagrees with the
//! independent evaluation of the relation on this input".
use curve25519_dalek::{
    ristretto::{CompressedRistretto, RistrettoPoint},
    scalar::Scalar,
    traits::Identity,
};
use merlin::Transcript;
use tari_bulletproofs_plus::range_statement::RangeStatement;

fn challenge(t: &mut Transcript, label: &'static [u8]) -> Option<Scalar> {
    let mut buf = [0u8; 64];
    t.challenge_bytes(label, &mut buf);
    let s = Scalar::from_bytes_mod_order_wide(&buf);
    if s == Scalar::ZERO {
        None
    } else {
        Some(s)
    }
}

fn pow(b: &Scalar, mut k: usize) -> Scalar {
    let mut r = Scalar::ONE;
    let mut base = *b;
    while k > 0 {
        if k & 1 == 1 {
            r *= base;
        }
        base = base * base;
        k >>= 1;
    }
    r
}

/// Some(true/false): verdict of the relation; None: malformed input (shape / encoding / identity)
pub fn reference_verify(transcript: &Transcript, st: &RangeStatement<RistrettoPoint>, proof_bytes: &[u8]) -> Option<bool> {
    let n = st.generators.bit_length();
    let m = st.commitments.len();
    let x = st.generators.extension_degree() as usize;
    let nm = n * m;
    // ---- decode
    if proof_bytes.is_empty() || proof_bytes[0] as usize != x || (proof_bytes.len() - 1) % 32 != 0 {
        return None;
    }
    let elems: Vec<[u8; 32]> = proof_bytes[1..].chunks(32).map(|c| c.try_into().unwrap()).collect();
    if elems.len() < x + 5 || (elems.len() - x - 5) % 2 != 0 {
        return None;
    }
    let rounds = (elems.len() - x - 5) / 2;
    if rounds >= usize::BITS as usize || (1usize << rounds) != nm {
        return None;
    }
    let scalar = |b: &[u8; 32]| Option::<Scalar>::from(Scalar::from_canonical_bytes(*b));
    let point = |b: &[u8; 32]| {
        let p = CompressedRistretto(*b).decompress()?;
        if p == RistrettoPoint::identity() {
            None
        } else {
            Some(p)
        }
    };
    let mut d1 = Vec::new();
    for k in 0..x {
        d1.push(scalar(&elems[k])?);
    }
    let a = point(&elems[x])?;
    let a1 = point(&elems[x + 1])?;
    let b = point(&elems[x + 2])?;
    let r1 = scalar(&elems[x + 3])?;
    let s1 = scalar(&elems[x + 4])?;
    let mut ls = Vec::new();
    let mut rs = Vec::new();
    for j in 0..rounds {
        ls.push(point(&elems[x + 5 + 2 * j])?);
        rs.push(point(&elems[x + 6 + 2 * j])?);
    }
    // ---- Fiat-Shamir (documented layout)
    let mut t = transcript.clone();
    t.append_message(b"dom-sep", b"Bulletproofs+ Range Proof");
    t.append_message(b"H", st.generators.h_base().compress().as_bytes());
    for g in st.generators.g_bases() {
        t.append_message(b"G", g.compress().as_bytes());
    }
    t.append_u64(b"N", n as u64);
    t.append_u64(b"T", x as u64);
    t.append_u64(b"M", m as u64);
    for c in &st.commitments {
        t.append_message(b"Ci", c.compress().as_bytes());
    }
    for p in &st.minimum_value_promises {
        t.append_u64(b"vi - minimum_value", p.unwrap_or(0));
    }
    t.append_message(b"A", &elems[x]);
    let y = challenge(&mut t, b"y")?;
    let z = challenge(&mut t, b"z")?;
    let mut es = Vec::new();
    for j in 0..rounds {
        t.append_message(b"L", &elems[x + 5 + 2 * j]);
        t.append_message(b"R", &elems[x + 6 + 2 * j]);
        es.push(challenge(&mut t, b"e")?);
    }
    t.append_message(b"A1", &elems[x + 1]);
    t.append_message(b"B", &elems[x + 2]);
    let e = challenge(&mut t, b"e")?;
    // promises must fit
    for p in st.minimum_value_promises.iter().flatten() {
        if n < 64 && (*p >> n) > 0 {
            return None;
        }
    }
    // ---- the relation, term by term
    let gs: Vec<RistrettoPoint> = st.generators.gi_base_iter().take(nm).cloned().collect();
    let hs: Vec<RistrettoPoint> = st.generators.hi_base_iter().take(nm).cloned().collect();
    if gs.len() != nm || hs.len() != nm {
        return None;
    }
    let h = *st.generators.h_base();
    let gb = st.generators.g_bases();
    let yinv = y.invert();
    let z2 = z * z;
    let mut d = Vec::new();
    for j in 0..m {
        for i in 0..n {
            d.push(pow(&z2, j + 1) * Scalar::from(1u128 << i));
        }
    }
    let mut sum_y = Scalar::ZERO;
    for i in 1..=nm {
        sum_y += pow(&y, i);
    }
    let sum_d: Scalar = d.iter().sum();
    let ynm1 = pow(&y, nm + 1);
    let c = z * sum_y - z * ynm1 * sum_d - z2 * sum_y;
    // A_hat
    let mut a_hat = a;
    for i in 0..nm {
        a_hat += gs[i] * (-z);
        a_hat += hs[i] * (z + d[i] * pow(&y, nm - i));
    }
    for j in 0..m {
        let wj = ynm1 * pow(&z2, j + 1);
        a_hat += st.commitments[j] * wj;
        if let Some(p) = st.minimum_value_promises[j] {
            a_hat += h * (-(wj * Scalar::from(p)));
        }
    }
    a_hat += h * c;
    let mut p = a_hat;
    for j in 0..rounds {
        p += ls[j] * (es[j] * es[j]);
        let ei = es[j].invert();
        p += rs[j] * (ei * ei);
    }
    let lhs = p * (e * e) + a1 * e + b;
    // folded generators
    let mut g_fold = RistrettoPoint::identity();
    let mut h_fold = RistrettoPoint::identity();
    for i in 0..nm {
        let mut s_i = Scalar::ONE;
        let mut s_rev = Scalar::ONE;
        let mut yp = Scalar::ONE;
        for j in 0..rounds {
            let bit = (i >> (rounds - 1 - j)) & 1;
            if bit == 1 {
                s_i *= es[j];
                s_rev *= es[j].invert();
                yp *= pow(&yinv, nm >> (j + 1));
            } else {
                s_i *= es[j].invert();
                s_rev *= es[j];
            }
        }
        g_fold += gs[i] * (s_i * yp);
        h_fold += hs[i] * s_rev;
    }
    let mut rhs = g_fold * (r1 * e) + h_fold * (s1 * e) + h * (r1 * s1 * y);
    for k in 0..x {
        rhs += gb[k] * d1[k];
    }
    Some(lhs == rhs)
}


/// the documented generator derivation, computed independently of the library:
/// G_j[i] / H_j[i] = hash-to-group(block i of SHAKE256("GeneratorsChain" || 'G'/'H' || LE32(j))), blinding generator k =
/// hash-to-group(SHA3-512("RISTRETTO_MASKING_BASEPOINT_" || decimal(k+1))), value generator = Ristretto basepoint
pub fn reference_generators(n: usize, cap: usize, x: usize) -> serde_json::Value {
    use sha3::digest::{ExtendableOutput, Update, XofReader};
    let chain = |tag: u8, party: u32, count: usize| -> Vec<String> {
        let mut sh = sha3::Shake256::default();
        sh.update(b"GeneratorsChain");
        let mut label = vec![tag];
        label.extend_from_slice(&party.to_le_bytes());
        sh.update(&label);
        let mut rd = sh.finalize_xof();
        (0..count)
            .map(|_| {
                let mut b = [0u8; 64];
                rd.read(&mut b);
                RistrettoPoint::from_uniform_bytes(&b).compress().as_bytes().iter().map(|x| format!("{:02x}", x)).collect()
            })
            .collect()
    };
    let mut gi = Vec::new();
    let mut hi = Vec::new();
    for j in 0..cap {
        gi.extend(chain(b'G', j as u32, n));
        hi.extend(chain(b'H', j as u32, n));
    }
    let g: Vec<String> = (0..x)
        .map(|k| {
            use sha3::Digest;
            let mut h = sha3::Sha3_512::default();
            Digest::update(&mut h, format!("RISTRETTO_MASKING_BASEPOINT_{}", k + 1).as_bytes());
            let out: [u8; 64] = h.finalize().into();
            RistrettoPoint::from_uniform_bytes(&out).compress().as_bytes().iter().map(|x| format!("{:02x}", x)).collect()
        })
        .collect();
    let h: String = curve25519_dalek::constants::RISTRETTO_BASEPOINT_COMPRESSED.as_bytes().iter().map(|x| format!("{:02x}", x)).collect();
    serde_json::json!({"gi": gi, "hi": hi, "g": g, "h": h})
}
