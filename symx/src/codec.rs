//! proof / statement tampering, adversarial proofs and the byte codec scenarios
use std::panic::{catch_unwind, AssertUnwindSafe};

use curve25519_dalek::{
    ristretto::{CompressedRistretto, RistrettoPoint},
    scalar::Scalar,
    traits::Identity,
};
use merlin::Transcript;
use serde_json::{json, Value};
use tari_bulletproofs_plus::{
    generators::pedersen_gens::ExtensionDegree,
    range_parameters::RangeParameters,
    range_proof::VerifyAction,
    range_statement::RangeStatement,
    ristretto::{self, RistrettoRangeProof},
};

use crate::{env, err_json, ext_degree, named_basis, run_verify};

fn scalar_of(bytes: &[u8]) -> Scalar {
    let mut b = [0u8; 32];
    b.copy_from_slice(bytes);
    Option::<Scalar>::from(Scalar::from_canonical_bytes(b)).expect("scalar element")
}

/// element index -> role, for a proof with extension degree x
pub fn role(x: usize, e: usize) -> (&'static str, usize) {
    if e < x {
        ("d1", e)
    } else {
        match e - x {
            0 => ("A", 0),
            1 => ("A1", 0),
            2 => ("B", 0),
            3 => ("r1", 0),
            4 => ("s1", 0),
            k => {
                if (k - 5) % 2 == 0 {
                    ("L", (k - 5) / 2)
                } else {
                    ("R", (k - 5) / 2)
                }
            },
        }
    }
}

/// tamper spec: null | {"op": ..., "elem": e, ...}
pub fn tamper_proof(
    p: &RistrettoRangeProof,
    spec: &Value,
    params: &RangeParameters<RistrettoPoint>,
    idx: usize,
) -> (RistrettoRangeProof, Value) {
    if spec.is_null() {
        return (p.clone(), Value::Null);
    }
    if let Some(list) = spec.as_array() {
        // several tamper operations applied one after the other
        let mut cur = p.clone();
        let mut infos = Vec::new();
        for sp in list {
            let (q, i) = tamper_proof(&cur, sp, params, idx);
            cur = q;
            infos.push(i);
        }
        return (cur, Value::Array(infos));
    }
    let mut bytes = p.to_bytes();
    let x = bytes[0] as usize;
    let op = spec["op"].as_str().unwrap_or("");
    let e = spec["elem"].as_u64().unwrap_or(0) as usize;
    let off = 1 + 32 * e;
    let mut info = json!({"op":op,"elem":e,"role":role(x,e).0,"role_index":role(x,e).1});
    match op {
        "scalar_add_delta" => {
            let s = scalar_of(&bytes[off..off + 32]);
            let dname = if spec["shared"].as_bool().unwrap_or(false) {
                format!("delta_shared_{}", spec["name"].as_str().unwrap_or("0"))
            } else {
                format!("delta_{}_{}", idx, spec["name"].as_str().unwrap_or("0"))
            };
            let d = env::sym_scalar(&dname, "delta");
            let t = if spec["neg"].as_bool().unwrap_or(false) { s - d } else { s + d };
            bytes[off..off + 32].copy_from_slice(t.as_bytes());
            info["delta"] = env::scalar_id(&d);
        },
        "point_add_delta_basis" => {
            // P + delta * X where X is a basis point of the statement or a fresh free point
            let mut b = [0u8; 32];
            b.copy_from_slice(&bytes[off..off + 32]);
            let pt = CompressedRistretto(b).decompress().expect("point element");
            let shared = spec["shared"].as_bool().unwrap_or(false);
            let dname = if shared {
                format!("delta_shared_{}", spec["name"].as_str().unwrap_or("0"))
            } else {
                format!("delta_{}_{}", idx, spec["name"].as_str().unwrap_or("0"))
            };
            let d = env::sym_scalar(&dname, "delta");
            let xpt = named_basis(params, &spec["basis"], &if shared { format!("tx_shared_{}", e) } else { format!("tx_{}_{}", idx, e) });
            let q = pt + xpt * d;
            bytes[off..off + 32].copy_from_slice(q.compress().as_bytes());
            info["delta"] = env::scalar_id(&d);
            info["x_point"] = env::point_id(&xpt);
        },
        "point_identity" => {
            bytes[off..off + 32].copy_from_slice(&[0u8; 32]);
        },
        "scalar_noncanonical" => {
            // another 32-byte encoding of the SAME scalar (value + group order): must be refused by the decoder
            let mut cur = [0u8; 32];
            cur.copy_from_slice(&bytes[off..off + 32]);
            let b = env::noncanonical_encoding_of(&cur, &format!("nc_{}_{}", idx, e));
            bytes[off..off + 32].copy_from_slice(&b);
        },
        "elem_opaque" => {
            let is_point = !matches!(role(x, e).0, "d1" | "r1" | "s1");
            let (b, _) = env::new_elem(is_point, &format!("te_{}_{}", idx, e));
            bytes[off..off + 32].copy_from_slice(&b);
        },
        "swap" => {
            let f = spec["with"].as_u64().unwrap() as usize;
            let off2 = 1 + 32 * f;
            let a: Vec<u8> = bytes[off..off + 32].to_vec();
            let b: Vec<u8> = bytes[off2..off2 + 32].to_vec();
            bytes[off..off + 32].copy_from_slice(&b);
            bytes[off2..off2 + 32].copy_from_slice(&a);
        },
        "tag" => {
            // change the extension tag, adding/removing d1 elements so that the buffer still parses
            let t = spec["tag"].as_u64().unwrap() as usize;
            let mut nb = vec![t as u8];
            for k in 0..t {
                if k < x {
                    nb.extend_from_slice(&bytes[1 + 32 * k..1 + 32 * (k + 1)]);
                } else {
                    nb.extend_from_slice(env::sym_scalar(&format!("d1x_{}_{}", idx, k), "delta").as_bytes());
                }
            }
            nb.extend_from_slice(&bytes[1 + 32 * x..]);
            bytes = nb;
        },
        "tag_only" => {
            bytes[0] = spec["tag"].as_u64().unwrap() as u8;
        },
        "drop_round" => {
            let l = bytes.len();
            bytes.truncate(l - 64);
        },
        "add_round" => {
            let l = env::free_point(&format!("xl_{}", idx)).compress();
            let r = env::free_point(&format!("xr_{}", idx)).compress();
            for _ in 0..spec["count"].as_u64().unwrap_or(1) {
                bytes.extend_from_slice(l.as_bytes());
                bytes.extend_from_slice(r.as_bytes());
            }
        },
        _ => panic!("unknown tamper op {}", op),
    }
    match RistrettoRangeProof::from_bytes(&bytes) {
        Ok(q) => {
            info["decoded"] = json!(true);
            (q, info)
        },
        Err(e) => {
            info["decoded"] = json!(false);
            info["decode_err"] = json!(format!("{:?}", e));
            (p.clone(), info)
        },
    }
}

/// statement tamper spec: null | {"op":..}
pub fn tamper_statement(
    st: &RangeStatement<RistrettoPoint>,
    spec: &Value,
    n: usize,
    x: usize,
    idx: usize,
) -> RangeStatement<RistrettoPoint> {
    if spec.is_null() {
        return st.clone();
    }
    if let Some(list) = spec.as_array() {
        let mut cur = st.clone();
        for sp in list {
            cur = tamper_statement(&cur, sp, n, x, idx);
        }
        return cur;
    }
    let op = spec["op"].as_str().unwrap_or("");
    let mut commitments = st.commitments.clone();
    let mut promises = st.minimum_value_promises.clone();
    let mut seed = st.seed_nonce;
    let mut params = st.generators.clone();
    match op {
        "promise" => {
            let j = spec["j"].as_u64().unwrap() as usize;
            promises[j] = match &spec["value"] {
                Value::Null => None,
                Value::String(s) if s == "sym" => {
                    // a new symbolic promise: registered concrete stand-in
                    let conc = spec["concrete"].as_str().unwrap().parse::<u64>().unwrap();
                    env::register_u64(&format!("pp_{}_{}", idx, j), "promise", conc, json!({"member":idx,"j":j,"substituted":true}));
                    Some(conc)
                },
                Value::String(s) if s == "other" => match promises[j] {
                    // a concrete promise that differs value-wise from the original (None == Some(0))
                    None | Some(0) => Some(1),
                    Some(p) => Some(p - 1),
                },
                Value::String(s) => Some(s.parse::<u64>().unwrap()),
                _ => None,
            };
        },
        "commitment_add_delta_basis" => {
            let j = spec["j"].as_u64().unwrap() as usize;
            let d = env::sym_scalar(&format!("delta_c_{}_{}", idx, j), "delta");
            let xpt = named_basis(&st.generators, &spec["basis"], &format!("cx_{}_{}", idx, j));
            commitments[j] = commitments[j] + xpt * d;
        },
        "swap_commitments" => {
            let i = spec["i"].as_u64().unwrap() as usize;
            let j = spec["j"].as_u64().unwrap() as usize;
            commitments.swap(i, j);
        },
        "seed_other" => {
            seed = Some(env::sym_scalar(&format!("seed_other_{}", idx), "seed"));
        },
        "seed_none" => {
            seed = None;
        },
        "seed_zero" => {
            // the zero scalar is a seed like any other (a wrong one for this proof)
            seed = Some(Scalar::ZERO);
        },
        "commitment_shift_h" => {
            // commitment j moved along the value generator by a concrete amount: together with a promise changed by the same amount
            // this is ANOTHER true statement (value - by >= promise - by) the proof was not made for
            let j = spec["j"].as_u64().unwrap() as usize;
            let by = spec["by"].as_i64().unwrap();
            let sc = if by >= 0 { Scalar::from(by as u64) } else { -Scalar::from((-by) as u64) };
            commitments[j] = commitments[j] + *st.generators.h_base() * sc;
        },
        "seed_topbyte" => {
            // another seed that differs from the original only in its most significant byte
            seed = seed.map(|sd| env::seed_variant_topbyte(&sd, idx));
        },
        "bit_length" => {
            let nn = spec["n"].as_u64().unwrap() as usize;
            let pc = ristretto::create_pedersen_gens_with_extension_degree(ext_degree(x));
            params = RangeParameters::init(nn, st.generators.max_aggregation_factor(), pc).expect("params");
        },
        "capacity" => {
            let cap = spec["cap"].as_u64().unwrap() as usize;
            let pc = ristretto::create_pedersen_gens_with_extension_degree(ext_degree(x));
            params = RangeParameters::init(n, cap, pc).expect("params");
        },
        "extension" => {
            let xx = spec["x"].as_u64().unwrap() as usize;
            let pc = ristretto::create_pedersen_gens_with_extension_degree(ext_degree(xx));
            params = RangeParameters::init(n, st.generators.max_aggregation_factor(), pc).expect("params");
        },
        "degree_tag" => {
            // only the public extension-degree TAG of the Pedersen generators is altered, the generator vectors stay as they are
            let mut pc = ristretto::create_pedersen_gens_with_extension_degree(ext_degree(x));
            pc.extension_degree = ext_degree(spec["x"].as_u64().unwrap() as usize);
            params = match catch_unwind(AssertUnwindSafe(|| RangeParameters::init(n, st.generators.max_aggregation_factor(), pc))) {
                Ok(Ok(p)) => p,
                _ => st.generators.clone(),
            };
        },
        "g_base" | "h_base" => {
            // from_used: the altered generators are a CLONE OF THE OBJECT THE PROVER ALREADY USED with one field overwritten (whatever the
            // library derived from the generators when it first used them must not survive the clone-and-modify)
            let mut pc = if spec["from_used"].as_bool().unwrap_or(false) {
                st.generators.pc_gens().clone()
            } else {
                ristretto::create_pedersen_gens_with_extension_degree(ext_degree(x))
            };
            if op == "h_base" {
                pc.h_base = env::free_point(&format!("hx_{}", idx));
                pc.h_base_compressed = pc.h_base.compress();
            } else {
                let k = spec["k"].as_u64().unwrap_or(0) as usize;
                pc.g_base_vec[k] = env::free_point(&format!("gx_{}_{}", idx, k));
                pc.g_base_compressed_vec[k] = pc.g_base_vec[k].compress();
            }
            params = RangeParameters::init(n, st.generators.max_aggregation_factor(), pc).expect("params");
        },
        "gc_drop_last" | "gc_append" => {
            // only the COMPRESSED blinding-generator vector (the one that is hashed) changes length
            let mut pc = ristretto::create_pedersen_gens_with_extension_degree(ext_degree(x));
            if op == "gc_drop_last" {
                pc.g_base_compressed_vec.pop();
            } else {
                let g = env::free_point(&format!("gcapp_{}", idx));
                pc.g_base_compressed_vec.push(g.compress());
            }
            params = match catch_unwind(AssertUnwindSafe(|| RangeParameters::init(n, st.generators.max_aggregation_factor(), pc))) {
                Ok(Ok(p)) => p,
                _ => st.generators.clone(),
            };
        },
        "g_drop_last" | "g_append" => {
            // the blinding-generator VECTOR changes length while the degree tag, H and every remaining generator stay as they are
            let mut pc = ristretto::create_pedersen_gens_with_extension_degree(ext_degree(x));
            if op == "g_drop_last" {
                pc.g_base_vec.pop();
                pc.g_base_compressed_vec.pop();
            } else {
                let g = env::free_point(&format!("gapp_{}", idx));
                pc.g_base_vec.push(g);
                pc.g_base_compressed_vec.push(g.compress());
            }
            params = match catch_unwind(AssertUnwindSafe(|| RangeParameters::init(n, st.generators.max_aggregation_factor(), pc))) {
                Ok(Ok(p)) => p,
                _ => st.generators.clone(),
            };
        },
        _ => panic!("unknown statement tamper {}", op),
    }
    RangeStatement::init(params, commitments, promises, seed).expect("tampered statement init")
}

/// Fully adversarial proofs (C02, C08, C16): every proof element is an opaque symbolic element,
/// commitments are free points. cfg: n, x, members:[{m, cap, rounds, tag, d1, promises:[..], seeded,
/// identity_elems, undecodable_elems, noncanonical_elems}], action(s), forced
pub fn run_adversarial(cfg: &Value) -> Value {
    let n = cfg["n"].as_u64().unwrap() as usize;
    let x = cfg["x"].as_u64().unwrap_or(1) as usize;
    let mut statements = Vec::new();
    let mut proofs = Vec::new();
    let mut transcripts = Vec::new();
    let mut all_raw: Vec<(Vec<[u8; 32]>, Vec<Value>)> = Vec::new();
    let mut infos = Vec::new();
    for (i, mc) in cfg["members"].as_array().unwrap().iter().enumerate() {
        let m = mc["m"].as_u64().unwrap_or(1) as usize;
        let cap = mc["cap"].as_u64().unwrap_or(m as u64) as usize;
        let tag = mc["tag"].as_u64().unwrap_or(x as u64) as usize;
        let nd1 = mc["d1"].as_u64().unwrap_or(tag as u64) as usize;
        let rounds = mc["rounds"].as_u64().unwrap() as usize;
        let sx = mc["x"].as_u64().unwrap_or(x as u64) as usize;
        let sn = mc["n"].as_u64().unwrap_or(n as u64) as usize;
        let mut pc_gens = ristretto::create_pedersen_gens_with_extension_degree(ext_degree(sx));
        let mut gen_ids = Value::Null;
        if mc["gens_used_first"].as_bool().unwrap_or(false) && sn >= 2 {
            // the generator object is USED once (a verification over it, refused at the end) and the scenario's generators are a clone of
            // that used object with fields overwritten
            let p0 = RangeParameters::init(sn, 1, pc_gens).expect("params");
            let st0 = RangeStatement::init(p0, vec![env::free_point(&format!("Vuse_{}", i))], vec![None], None).expect("statement");
            let r0 = sn.trailing_zeros() as usize;
            let mut b0 = vec![sx as u8];
            for e in 0..(sx + 5 + 2 * r0) {
                let is_point = !matches!(role(sx, e).0, "d1" | "r1" | "s1");
                b0.extend_from_slice(&env::new_elem(is_point, &format!("use_{}_{}", i, e)).0);
            }
            if let Ok(p0) = RistrettoRangeProof::from_bytes(&b0) {
                let _ = catch_unwind(AssertUnwindSafe(|| RistrettoRangeProof::verify_batch(&mut [Transcript::new(b"first use")], std::slice::from_ref(&st0), &[p0], VerifyAction::VerifyOnly)));
            }
            pc_gens = st0.generators.pc_gens().clone();
        }
        if mc["free_gens"].as_bool().unwrap_or(false) {
            // caller-chosen commitment generators: free points, so that they are data of the scenario
            pc_gens.h_base = env::free_point(&format!("Hgen_{}", i));
            pc_gens.h_base_compressed = pc_gens.h_base.compress();
            for k in 0..sx {
                pc_gens.g_base_vec[k] = env::free_point(&format!("Ggen_{}_{}", i, k));
                pc_gens.g_base_compressed_vec[k] = pc_gens.g_base_vec[k].compress();
            }
            gen_ids = json!({"h": env::point_id(&pc_gens.h_base), "g": pc_gens.g_base_vec.iter().map(env::point_id).collect::<Vec<_>>()});
        }
        let params = RangeParameters::init(sn, cap, pc_gens).expect("params");
        #[allow(unused_mut)]
        let mut commitments: Vec<RistrettoPoint> = (0..m).map(|j| env::free_point(&format!("V_{}_{}", i, j))).collect();
        // equal commitments inside one aggregate (the same output listed twice): positions [a, b] => commitment b IS commitment a
        if let Some(d) = mc["dup_commitments"].as_array() {
            for pr in d {
                let (a, b) = (pr[0].as_u64().unwrap_or(0) as usize, pr[1].as_u64().unwrap_or(0) as usize);
                if a < m && b < m {
                    commitments[b] = commitments[a];
                }
            }
        }
        let mut promises = Vec::new();
        let mut pinfo = Vec::new();
        for j in 0..m {
            match mc["promises"].get(j).cloned().unwrap_or(Value::Null) {
                Value::String(s) if s == "sym" => {
                    // symbolic promise: a concrete stand-in that fits the bit length, distinct from every other stand-in
                    let maxv: u64 = if sn >= 64 { u64::MAX } else { (1u64 << sn) - 1 };
                    let reserved = [sn as u64, m as u64, sx as u64, cap as u64, 0, 1, 2, 3, 4, 5, 6, 8, 16, 32, 64];
                    let mut conc = 3u64.min(maxv);
                    let mut registered = false;
                    let mut cand = maxv;
                    for _ in 0..64 {
                        if cand < 7 {
                            break;
                        }
                        if !reserved.contains(&cand) && env::register_u64(&format!("p_{}_{}", i, j), "promise", cand, json!({"member":i,"j":j})) {
                            conc = cand;
                            registered = true;
                            break;
                        }
                        cand -= 1;
                    }
                    promises.push(Some(conc));
                    pinfo.push(json!({"p": conc.to_string(), "p_sym": registered}));
                },
                Value::String(s) => {
                    promises.push(Some(s.parse::<u64>().unwrap()));
                    pinfo.push(json!({"p": s, "p_sym": false}));
                },
                _ => {
                    promises.push(None);
                    pinfo.push(json!({"p": Value::Null, "p_sym": false}));
                },
            }
        }
        let seed = if mc["seeded"].as_bool().unwrap_or(false) { Some(env::sym_scalar(&format!("seed_{}", i), "seed")) } else { None };
        let commit_ids: Vec<Value> = commitments.iter().map(env::point_id).collect();
        let st = match RangeStatement::init(params, commitments, promises, seed) {
            Ok(s) => s,
            Err(e) => return json!({"error": format!("statement init: {:?}", e)}),
        };
        // proof bytes: tag, then nd1 + 5 + 2*rounds opaque elements
        let mut bytes = vec![tag as u8];
        let mut elems = Vec::new();
        let mut raw: Vec<[u8; 32]> = Vec::new();
        // same_proof_as: k — this member presents the very same proof BYTES as member k (under its own statement and transcript)
        let reuse = mc["same_proof_as"].as_u64().map(|k| k as usize).filter(|k| *k < all_raw.len() && all_raw[*k].0.len() == nd1 + 5 + 2 * rounds);
        if let Some(k) = reuse {
            raw = all_raw[k].0.clone();
            elems = all_raw[k].1.clone();
        } else {
            for e in 0..(nd1 + 5 + 2 * rounds) {
                let is_point = !matches!(role(nd1, e).0, "d1" | "r1" | "s1");
                let (b, id) = env::new_elem(is_point, &format!("pe_{}_{}", i, e));
                elems.push(id);
                raw.push(b);
            }
        }
        all_raw.push((raw.clone(), elems.clone()));
        if let Some(sp) = mc["undecodable_elems"].as_array() {
            for e in sp {
                let e = e.as_u64().unwrap() as usize;
                raw[e] = env::mark_undecodable(&raw[e]);
            }
        }
        if let Some(sp) = mc["noncanonical_elems"].as_array() {
            for e in sp {
                let e = e.as_u64().unwrap() as usize;
                raw[e] = env::mark_noncanonical(&raw[e]);
            }
        }
        if let Some(sp) = mc["identity_elems"].as_array() {
            for e in sp {
                raw[e.as_u64().unwrap() as usize] = [0u8; 32];
            }
        }
        for b in &raw {
            bytes.extend_from_slice(b);
        }
        let dec = catch_unwind(AssertUnwindSafe(|| RistrettoRangeProof::from_bytes(&bytes)));
        let dec = match dec {
            Ok(d) => d,
            Err(_) => return json!({"members": infos, "decode_panic": true, "verify": Value::Null}),
        };
        infos.push(json!({"idx":i,"m":m,"cap":cap,"tag":tag,"rounds":rounds,"d1":nd1,"elems":elems,"commitments":commit_ids,
            "promises":pinfo,"decode":err_json(&dec), "seed_node": seed.as_ref().map(env::scalar_id), "layout": env::layout(&bytes)}));
        match dec {
            Ok(p) => proofs.push(p),
            Err(_) => return json!({"members": infos, "verify": Value::Null}),
        }
        statements.push(st);
        let mut t = Transcript::new(b"symx context");
        if mc["ctx_elem"].as_bool().unwrap_or(false) {
            // caller-supplied transcript state: an opaque message absorbed before the transcript is handed over
            let (b, id) = env::new_elem(false, &format!("ctx_{}", i));
            t.append_message(b"caller-context", &b);
            if let Some(last) = infos.last_mut() {
                last["ctx_elem"] = id;
            }
        }
        if let Some(last) = infos.last_mut() {
            last["gens"] = gen_ids;
        }
        transcripts.push(t);
    }
    env::set_forced(&cfg["forced"]);
    let verify_out = run_verify(cfg, &transcripts, &statements, &proofs);
    json!({"members": infos, "verify": verify_out})
}

/// statements of unusual shape pushed through the validating constructor (C16/C17): cfg: n, x, cap, commitments, promises, seeded.
/// If the constructor accepts, a well-formed adversarial proof is verified against it in every mode.
pub fn run_odd_statement(cfg: &Value) -> Value {
    let n = cfg["n"].as_u64().unwrap() as usize;
    let x = cfg["x"].as_u64().unwrap_or(1) as usize;
    let cap = cfg["cap"].as_u64().unwrap_or(1) as usize;
    let nc = cfg["commitments"].as_u64().unwrap_or(1) as usize;
    let np = cfg["promises"].as_u64().unwrap_or(nc as u64) as usize;
    let pc_gens = ristretto::create_pedersen_gens_with_extension_degree(ext_degree(x));
    let params = match catch_unwind(AssertUnwindSafe(|| RangeParameters::init(n, cap, pc_gens))) {
        Ok(Ok(p)) => p,
        Ok(Err(e)) => return json!({"params": format!("{:?}", e)}),
        Err(_) => return json!({"params": "panic"}),
    };
    let commitments: Vec<RistrettoPoint> = (0..nc).map(|j| env::free_point(&format!("V_odd_{}", j))).collect();
    let promises: Vec<Option<u64>> = (0..np).map(|j| if j % 2 == 0 { Some(1) } else { None }).collect();
    let seed = if cfg["seeded"].as_bool().unwrap_or(false) { Some(env::sym_scalar("seed_odd", "seed")) } else { None };
    let st = match catch_unwind(AssertUnwindSafe(|| RangeStatement::init(params, commitments, promises, seed))) {
        Ok(Ok(s)) => s,
        Ok(Err(e)) => return json!({"params": "ok", "statement": format!("{:?}", e)}),
        Err(_) => return json!({"params": "ok", "statement": "panic"}),
    };
    let full = n * nc.max(1);
    let rounds = (usize::BITS - 1 - full.leading_zeros()) as usize;
    let rounds = rounds.max(1);
    let mut bytes = vec![x as u8];
    for e in 0..(x + 5 + 2 * rounds) {
        let is_point = !matches!(role(x, e).0, "d1" | "r1" | "s1");
        let (b, _) = env::new_elem(is_point, &format!("po_{}", e));
        bytes.extend_from_slice(&b);
    }
    let proof = match RistrettoRangeProof::from_bytes(&bytes) {
        Ok(p) => p,
        Err(e) => return json!({"params":"ok","statement":"ok","decode": format!("{:?}", e)}),
    };
    let verify_out = run_verify(cfg, &[Transcript::new(b"symx context")], &[st], &[proof]);
    json!({"params":"ok","statement":"ok","verify": verify_out})
}

/// constructors driven directly (C17): cfg: fn + integer arguments; returns "ok" | {"err":..} | "panic" and, on ok, the stored fields
pub fn run_ctor(cfg: &Value) -> Value {
    use tari_bulletproofs_plus::{commitment_opening::CommitmentOpening, extended_mask::ExtendedMask, range_witness::RangeWitness};
    let u = |k: &str| cfg[k].as_u64().unwrap_or(0) as usize;
    let f = cfg["fn"].as_str().unwrap_or("");
    let r = catch_unwind(AssertUnwindSafe(|| -> Value {
        match f {
            "ext_u8" => match ExtensionDegree::try_from(u("v") as u8) {
                Ok(d) => json!({"ok": d as u8}),
                Err(e) => json!({"err": format!("{:?}", e)}),
            },
            "ext_usize" => match ExtensionDegree::try_from(u("v")) {
                Ok(d) => json!({"ok": d as u8}),
                Err(e) => json!({"err": format!("{:?}", e)}),
            },
            "params" => {
                let pc = ristretto::create_pedersen_gens_with_extension_degree(ext_degree(cfg["x"].as_u64().unwrap_or(1) as usize));
                match RangeParameters::init(u("bit_length"), u("cap"), pc) {
                    Ok(p) => json!({"ok": {"bit_length": p.bit_length(), "cap": p.max_aggregation_factor(), "x": p.extension_degree() as u8}}),
                    Err(e) => json!({"err": format!("{:?}", e)}),
                }
            },
            "statement" => {
                let pc = ristretto::create_pedersen_gens_with_extension_degree(ext_degree(1));
                let params = RangeParameters::init(u("bit_length").max(1), u("cap"), pc).expect("params");
                let commitments: Vec<RistrettoPoint> = (0..u("commitments")).map(|j| env::free_point(&format!("Vc_{}", j))).collect();
                let promises: Vec<Option<u64>> = (0..u("promises")).map(|j| if j % 2 == 0 { Some(j as u64) } else { None }).collect();
                // the documented domain does not depend on the VALUE of the seed: special scalars (0, 1, -1) are seeds like any other
                let seed = if cfg["seeded"].as_bool().unwrap_or(false) {
                    Some(match cfg["seed_value"].as_str() {
                        Some("zero") => Scalar::ZERO,
                        Some("one") => Scalar::ONE,
                        Some("minus_one") => -Scalar::ONE,
                        _ => env::sym_scalar("seed_c", "seed"),
                    })
                } else {
                    None
                };
                match RangeStatement::init(params, commitments.clone(), promises.clone(), seed) {
                    Ok(s) => json!({"ok": {"commitments": s.commitments.len(), "promises_equal": s.minimum_value_promises == promises,
                        "commitments_equal": s.commitments == commitments, "compressed": s.commitments_compressed.len(), "seed": s.seed_nonce.is_some()}}),
                    Err(e) => json!({"err": format!("{:?}", e)}),
                }
            },
            "witness" => {
                let counts: Vec<usize> = cfg["blindings"].as_array().unwrap().iter().map(|v| v.as_u64().unwrap() as usize).collect();
                let openings: Vec<CommitmentOpening> = counts
                    .iter()
                    .enumerate()
                    .map(|(j, c)| CommitmentOpening::new(if cfg["value"].as_u64().is_some() { cfg["value"].as_u64().unwrap() } else { j as u64 + 1 },
                        (0..*c).map(|k| if is_zeroed(cfg, k) { Scalar::ZERO } else { env::sym_scalar(&format!("rw_{}_{}", j, k), "blinding") }).collect()))
                    .collect();
                let rl: Vec<Value> = openings.iter().map(|o| match o.r_len() {
                    Ok(l) => json!(l),
                    Err(_) => json!("err"),
                }).collect();
                match RangeWitness::init(openings) {
                    Ok(w) => json!({"ok": {"openings": w.openings.len(), "degree": w.extension_degree as u8}, "r_len": rl}),
                    Err(e) => json!({"err": format!("{:?}", e), "r_len": rl}),
                }
            },
            "mask" => {
                let d = match ExtensionDegree::try_from(u("degree")) {
                    Ok(d) => d,
                    Err(_) => return json!({"skip": "degree"}),
                };
                let b: Vec<Scalar> = (0..u("len")).map(|k| if is_zeroed(cfg, k) { Scalar::ZERO } else { env::sym_scalar(&format!("mk_{}", k), "blinding") }).collect();
                match ExtendedMask::assign(d, b.clone()) {
                    Ok(m) => json!({"ok": {"len": m.blindings().map(|v| v.len()).unwrap_or(0), "equal": m.blindings().map(|v| v == b).unwrap_or(false)}}),
                    Err(e) => json!({"err": format!("{:?}", e)}),
                }
            },
            "commit" => {
                let pc = ristretto::create_pedersen_gens_with_extension_degree(ext_degree(u("degree")));
                // ... nor on the VALUES of the blinding factors or of the committed value: zero entries are legal
                let b: Vec<Scalar> = (0..u("len")).map(|k| if is_zeroed(cfg, k) { Scalar::ZERO } else { env::sym_scalar(&format!("ck_{}", k), "blinding") }).collect();
                match pc.commit(&Scalar::from(cfg["value"].as_u64().unwrap_or(7)), &b) {
                    Ok(_) => json!({"ok": {}}),
                    Err(e) => json!({"err": format!("{:?}", e)}),
                }
            },
            _ => json!({"error": "unknown ctor"}),
        }
    }));
    match r {
        Ok(v) => v,
        Err(_) => json!("panic"),
    }
}

/// ctor scenario: is blinding component k forced to the zero scalar? ("zero": "all" | [indices])
fn is_zeroed(cfg: &Value, k: usize) -> bool {
    match &cfg["zero"] {
        Value::String(s) => s == "all",
        Value::Array(a) => a.iter().any(|v| v.as_u64() == Some(k as u64)),
        _ => false,
    }
}

/// generator sets (C11/C19): cfg: n, cap, x. Lists every generator a parameter set exposes, in iteration order.
pub fn run_gens(cfg: &Value) -> Value {
    let n = cfg["n"].as_u64().unwrap() as usize;
    let cap = cfg["cap"].as_u64().unwrap() as usize;
    let x = cfg["x"].as_u64().unwrap_or(1) as usize;
    // parameter sets built EARLIER in the same process (other bit lengths / capacities / degrees): what this one gets must not depend on them
    if let Some(pre) = cfg["prebuild"].as_array() {
        for p in pre {
            let pn = p[0].as_u64().unwrap_or(1) as usize;
            let pcap = p[1].as_u64().unwrap_or(1) as usize;
            let px = p[2].as_u64().unwrap_or(1) as usize;
            let other = RangeParameters::init(pn, pcap, ristretto::create_pedersen_gens_with_extension_degree(ext_degree(px))).expect("params");
            let _ = other.gi_base_iter().count();
        }
    }
    let pc = ristretto::create_pedersen_gens_with_extension_degree(ext_degree(x));
    let pc_h = env::point_id(&pc.h_base);
    let pc_hc = env::hex32(pc.h_base_compressed.as_bytes());
    let params = RangeParameters::init(n, cap, pc).expect("params");
    let gi: Vec<RistrettoPoint> = params.gi_base_iter().cloned().collect();
    let hi: Vec<RistrettoPoint> = params.hi_base_iter().cloned().collect();
    let mut out = json!({
        "gi": gi.iter().map(env::point_id).collect::<Vec<_>>(),
        "hi": hi.iter().map(env::point_id).collect::<Vec<_>>(),
        "g": params.g_bases().iter().map(env::point_id).collect::<Vec<_>>(),
        "h": env::point_id(params.h_base()),
        "pc_h": pc_h,
        "gi_compressed": gi.iter().map(|p| env::hex32(p.compress().as_bytes())).collect::<Vec<_>>(),
        "hi_compressed": hi.iter().map(|p| env::hex32(p.compress().as_bytes())).collect::<Vec<_>>(),
        "g_compressed_accessor": params.g_bases_compressed().iter().map(|c| env::hex32(c.as_bytes())).collect::<Vec<_>>(),
        "g_compressed": params.g_bases().iter().map(|p| env::hex32(p.compress().as_bytes())).collect::<Vec<_>>(),
        "h_compressed_accessor": env::hex32(params.h_base_compressed().as_bytes()),
        "pc_h_compressed_field": pc_hc,
        "h_compressed": env::hex32(params.h_base().compress().as_bytes()),
        "identity": env::hex32(&[0u8; 32]),
    });
    // the precomputed tables: their effect on unit vectors must be the interleaved generators (observed through the public API:
    // multiplying by the k-th unit vector returns the k-th static point)
    use curve25519_dalek::traits::VartimePrecomputedMultiscalarMul;
    let pre = params.precomp();
    let total = 2 * n * cap;
    let mut units = Vec::new();
    let probe: Vec<usize> = if total <= 64 { (0..total).collect() } else { vec![0, 1, 2, 3, n, 2 * n - 1, 2 * n, 2 * n + 1, total / 2, total - 2, total - 1] };
    for k in probe.into_iter().filter(|k| *k < total) {
        let scalars: Vec<Scalar> = (0..total).map(|i| if i == k { Scalar::ONE } else { Scalar::ZERO }).collect();
        let p = pre.vartime_multiscalar_mul(scalars.iter());
        units.push(json!([k, env::point_id(&p), env::hex32(p.compress().as_bytes())]));
    }
    out["precomp_units"] = json!(units);
    #[cfg(not(feature = "model"))]
    {
        out["reference"] = crate::refimpl::reference_generators(n, cap, x);
    }
    out
}

/// byte codec (C15/C16): cfg: tag (absent = empty buffer), elems (count of 32-byte symbolic elements),
/// trailing (0..31 literal bytes), noncanonical: [element indices forced non-canonical]
pub fn run_codec(cfg: &Value) -> Value {
    let mut bytes: Vec<u8> = Vec::new();
    let tag = cfg["tag"].as_u64();
    if let Some(t) = tag {
        bytes.push(t as u8);
    }
    let ne = cfg["elems"].as_u64().unwrap_or(0) as usize;
    let nd1 = tag.unwrap_or(0) as usize;
    let mut elems = Vec::new();
    let mut raw: Vec<[u8; 32]> = Vec::new();
    for e in 0..ne {
        // all_scalars: every element is (also) a canonical scalar, so that the buffer parses under ANY reading of the tag byte
        // (points are opaque to the codec); used when a tag outside 1..=6 is reported as accepted
        let is_point = !(e < nd1 || e == nd1 + 3 || e == nd1 + 4) && !cfg["all_scalars"].as_bool().unwrap_or(false);
        let (b, id) = env::new_elem(is_point, &format!("ce_{}", e));
        elems.push(id);
        raw.push(b);
    }
    if let Some(nc) = cfg["noncanonical"].as_array() {
        for e in nc {
            let e = e.as_u64().unwrap() as usize;
            raw[e] = env::mark_noncanonical(&raw[e]);
        }
    }
    // point positions holding bytes that are not the encoding of any group element: the codec treats points as opaque
    if let Some(ud) = cfg["undecodable"].as_array() {
        for e in ud {
            let e = e.as_u64().unwrap() as usize;
            raw[e] = env::mark_undecodable(&raw[e]);
        }
    }
    // literal canonical scalars at the top of the range: l-1, l-2, 2^252, and small ones
    if let Some(sp) = cfg["special_scalars"].as_array() {
        for it in sp {
            let e = it[0].as_u64().unwrap() as usize;
            let v = match it[1].as_str().unwrap_or("") {
                "minus_one" => -Scalar::ONE,
                "minus_two" => -Scalar::from(2u8),
                "two252" => {
                    let mut b = [0u8; 32];
                    b[31] = 0x10;
                    Option::<Scalar>::from(Scalar::from_canonical_bytes(b)).expect("2^252 is canonical")
                },
                "zero" => Scalar::ZERO,
                _ => Scalar::ONE,
            };
            raw[e] = v.to_bytes();
        }
    }
    for b in &raw {
        bytes.extend_from_slice(b);
    }
    for i in 0..cfg["trailing"].as_u64().unwrap_or(0) {
        bytes.push(0x30 + (i as u8));
    }
    let ev0 = env::events_len();
    let r = catch_unwind(AssertUnwindSafe(|| RistrettoRangeProof::from_bytes(&bytes)));
    let ev1 = env::events_len();
    let mut out = json!({"len": bytes.len(), "elems": elems, "events":[ev0,ev1]});
    let ed = catch_unwind(AssertUnwindSafe(|| RistrettoRangeProof::extension_degree_from_proof_bytes(&bytes)));
    out["ext_from_bytes"] = match ed {
        Ok(Ok(d)) => json!(d as u8),
        Ok(Err(_)) => json!("err"),
        Err(_) => json!("panic"),
    };
    // serde: the data shapes OTHER formats may hand to the proof's visitor (a hostile or self-describing input chooses the shape and the declared
    // length): each must end in a value or an error
    if cfg["serde_shapes"].as_bool().unwrap_or(false) {
        let mut shapes = serde_json::Map::new();
        for (name, kind) in [("seq_huge_hint", 0u8), ("seq_exact", 1), ("string", 2), ("u64", 3), ("byte_buf", 4), ("unit", 5), ("seq_hint_zero", 6)] {
            let r = catch_unwind(AssertUnwindSafe(|| <RistrettoRangeProof as serde::Deserialize>::deserialize(ShapeDeserializer { kind, bytes: &bytes })));
            shapes.insert(name.to_string(), match r {
                Ok(Ok(q)) => json!({"ok": q.to_bytes() == bytes}),
                Ok(Err(_)) => json!("err"),
                Err(_) => json!("panic"),
            });
        }
        out["serde_shapes"] = Value::Object(shapes);
    }
    // serde path: bincode frames a byte string as u64 length + bytes
    let mut framed = (bytes.len() as u64).to_le_bytes().to_vec();
    framed.extend_from_slice(&bytes);
    let sr = catch_unwind(AssertUnwindSafe(|| bincode::deserialize::<RistrettoRangeProof>(&framed)));
    // the same serde form read from a stream (an owned, not a borrowed, byte string reaches the visitor)
    let srr = catch_unwind(AssertUnwindSafe(|| bincode::deserialize_from::<_, RistrettoRangeProof>(&framed[..])));
    out["serde_reader_decode"] = match &srr {
        Ok(Ok(_)) => json!("ok"),
        Ok(Err(_)) => json!("err"),
        Err(_) => json!("panic"),
    };
    match r {
        Ok(Ok(p)) => {
            out["decode"] = json!("ok");
            let re = p.to_bytes();
            out["reencode_equal"] = json!(re == bytes);
            out["ext"] = json!(p.extension_degree() as u8);
            match sr {
                Ok(Ok(q)) => {
                    out["serde_decode"] = json!("ok");
                    out["serde_equal"] = json!(q == p);
                    let ser = bincode::serialize(&q).unwrap();
                    out["serde_bytes_equal"] = json!(ser == framed);
                },
                Ok(Err(_)) => out["serde_decode"] = json!("err"),
                Err(_) => out["serde_decode"] = json!("panic"),
            }
        },
        Ok(Err(e)) => {
            out["decode"] = json!({"err": format!("{:?}", e)});
            out["serde_decode"] = match sr {
                Ok(Ok(_)) => json!("ok"),
                Ok(Err(_)) => json!("err"),
                Err(_) => json!("panic"),
            };
        },
        Err(_) => out["decode"] = json!("panic"),
    }
    let _ = (ExtensionDegree::DefaultPedersen, VerifyAction::VerifyOnly, CompressedRistretto::identity(), Scalar::ZERO);
    out
}


/// a Deserializer that presents the proof bytes to the visitor in a shape of its own choosing (what a self-describing format does with untrusted input)
struct ShapeDeserializer<'a> {
    kind: u8,
    bytes: &'a [u8],
}
struct ShapeSeq<'a> {
    bytes: &'a [u8],
    pos: usize,
    hint: Option<usize>,
}
impl<'de, 'a> serde::de::SeqAccess<'de> for ShapeSeq<'a> {
    type Error = serde::de::value::Error;

    fn next_element_seed<T: serde::de::DeserializeSeed<'de>>(&mut self, seed: T) -> Result<Option<T::Value>, Self::Error> {
        use serde::de::IntoDeserializer;
        if self.pos >= self.bytes.len() {
            return Ok(None);
        }
        let b = self.bytes[self.pos];
        self.pos += 1;
        seed.deserialize(b.into_deserializer()).map(Some)
    }

    fn size_hint(&self) -> Option<usize> {
        self.hint
    }
}
impl<'de, 'a> serde::Deserializer<'de> for ShapeDeserializer<'a> {
    type Error = serde::de::value::Error;

    fn deserialize_any<V: serde::de::Visitor<'de>>(self, v: V) -> Result<V::Value, Self::Error> {
        match self.kind {
            0 => v.visit_seq(ShapeSeq { bytes: &self.bytes[..self.bytes.len().min(3)], pos: 0, hint: Some(usize::MAX) }),
            1 => v.visit_seq(ShapeSeq { bytes: self.bytes, pos: 0, hint: Some(self.bytes.len()) }),
            2 => v.visit_str("not a proof"),
            3 => v.visit_u64(self.bytes.len() as u64),
            4 => v.visit_byte_buf(self.bytes.to_vec()),
            5 => v.visit_unit(),
            _ => v.visit_seq(ShapeSeq { bytes: self.bytes, pos: 0, hint: Some(0) }),
        }
    }

    serde::forward_to_deserialize_any! {
        bool i8 i16 i32 i64 i128 u8 u16 u32 u64 u128 f32 f64 char str string bytes byte_buf option unit unit_struct newtype_struct seq tuple
        tuple_struct map struct enum identifier ignored_any
    }
}
