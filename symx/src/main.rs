//! symx — runs the repository's real prover / verifier / codec on symbolic values (model dependency
//! crates patched in) and dumps the recorded term DAG, logs and events as JSON for the SMT side.
//!
//! usage: symx '<json scenario>'   (see smt/scenarios.py for the generators)
use std::panic::{catch_unwind, AssertUnwindSafe};
use std::sync::Mutex;

use curve25519_dalek::{ristretto::RistrettoPoint, scalar::Scalar};
use merlin::Transcript;
use rand_core::{CryptoRng, RngCore};
use serde_json::{json, Value};
use symcore::{with, Blob, U64Reg};
use tari_bulletproofs_plus::{
    commitment_opening::CommitmentOpening,
    extended_mask::ExtendedMask,
    generators::pedersen_gens::ExtensionDegree,
    range_parameters::RangeParameters,
    range_proof::{RangeProof, VerifyAction},
    range_statement::RangeStatement,
    range_witness::RangeWitness,
    ristretto::{self, RistrettoRangeProof},
};

mod codec;

/// external RNG handed to the prover
pub struct SymRng {
    stream: u32,
    ctr: u32,
    model: String,
}
impl SymRng {
    pub fn new(model: &str) -> SymRng {
        let stream = with(|c| {
            let s = c.ext_streams;
            c.ext_streams += 1;
            s
        });
        SymRng { stream, ctr: 0, model: model.to_string() }
    }
    /// a second handle on the same stream from its start (a replayed stream)
    pub fn replay_of(other: &SymRng) -> SymRng {
        SymRng { stream: other.stream, ctr: 0, model: other.model.clone() }
    }
}
impl RngCore for SymRng {
    fn next_u32(&mut self) -> u32 {
        self.next_u64() as u32
    }
    fn next_u64(&mut self) -> u64 {
        let mut b = [0u8; 8];
        self.fill_bytes(&mut b);
        u64::from_le_bytes(b)
    }
    fn fill_bytes(&mut self, dest: &mut [u8]) {
        match self.model.as_str() {
            "zero" => {
                for x in dest.iter_mut() {
                    *x = 0;
                }
            },
            "const" => {
                for x in dest.iter_mut() {
                    *x = 0x42;
                }
            },
            m => {
                // "sym": every draw a fresh symbol; "period2": draws repeat with period 2
                let ctr = if m == "period2" { self.ctr % 2 } else { self.ctr };
                self.ctr += 1;
                with(|c| {
                    let id = c.blob(Blob::Ext { stream: self.stream, ctr, len: dest.len() as u32 });
                    c.enc_n(id, dest);
                });
            },
        }
    }
    fn try_fill_bytes(&mut self, dest: &mut [u8]) -> Result<(), rand_core::Error> {
        self.fill_bytes(dest);
        Ok(())
    }
}
impl CryptoRng for SymRng {}

// ------------------------------------------------------------------------------------------------
// bit hook: replaces the concrete bit vector by symbolic bits (DESIGN.md §2.1 (ii))

struct HookState {
    enabled: bool,
    calls: Vec<Value>,
    side: Vec<Value>,
    member: usize,
}
static HOOK: Mutex<HookState> = Mutex::new(HookState { enabled: false, calls: Vec::new(), side: Vec::new(), member: 0 });

fn bit_hook(a_li: &mut Vec<Scalar>, a_ri: &mut Vec<Scalar>, values: &[u64], promises: &[Option<u64>], bits: usize) {
    let mut h = HOOK.lock().unwrap();
    let member = h.member;
    let mut call = json!({"member":member,"values":values.iter().map(|v| v.to_string()).collect::<Vec<_>>(),
        "bits":bits,"len_li":a_li.len(),"len_ri":a_ri.len(),"replaced":false});
    if !h.enabled {
        h.calls.push(call);
        return;
    }
    let mut ok = a_li.len() == values.len() * bits && a_ri.len() == a_li.len() && promises.len() == values.len();
    let mut betas: Vec<Vec<u32>> = Vec::new();
    if ok {
        for (j, v) in values.iter().enumerate() {
            let p = promises[j].unwrap_or(0);
            let o = v.wrapping_sub(p);
            let mut row = Vec::new();
            for i in 0..bits {
                let bit = (o >> i) & 1;
                let li = a_li[j * bits + i];
                let ri = a_ri[j * bits + i];
                // the entries we replace must be exactly bit and bit-1
                if li != Scalar::from(bit as u8) || ri != Scalar::from(bit as u8) - Scalar::ONE {
                    ok = false;
                }
                let name = format!("beta_{}_{}_{}", member, j, i);
                let node = with(|c| c.var(&name, "bit", Some(symcore::fl::Fl::from_u64(bit)), json!({"member":member,"j":j,"i":i})));
                row.push(node);
            }
            betas.push(row);
        }
    }
    if ok {
        for (j, row) in betas.iter().enumerate() {
            for (i, node) in row.iter().enumerate() {
                let b = Scalar::from_node(*node);
                a_li[j * bits + i] = b;
                a_ri[j * bits + i] = b - Scalar::ONE;
                h.side.push(json!({"kind":"bool","node":node}));
            }
            // definition of the value: v_j = p_j + sum beta * 2^i   (as nodes; v and p may be variables or constants)
            let vnode = Scalar::from(values[j]).node();
            let pnode = match promises[j] {
                Some(p) => Scalar::from(p).node(),
                None => 0,
            };
            h.side.push(json!({"kind":"value_def","member":member,"j":j,"v":vnode,"p":pnode,"bits":row}));
        }
        call["replaced"] = json!(true);
    } else {
        call["mismatch"] = json!(true);
    }
    h.calls.push(call);
}

// ------------------------------------------------------------------------------------------------

fn ext_degree(x: usize) -> ExtensionDegree {
    ExtensionDegree::try_from(x).expect("extension degree")
}

pub struct Member {
    pub statement: RangeStatement<RistrettoPoint>,
    pub witness: Option<RangeWitness>,
    pub proof: Option<RistrettoRangeProof>,
    pub info: Value,
}

/// picks concrete numbers that stand for symbolic u64 variables
struct Picker {
    used: Vec<u64>,
    salt: u64,
}
impl Picker {
    fn pick(&mut self, lo: u64, hi_incl: u64) -> Option<u64> {
        if hi_incl < lo {
            return None;
        }
        let span = hi_incl - lo;
        for t in 0..64u64 {
            self.salt = self.salt.wrapping_mul(6364136223846793005).wrapping_add(1442695040888963407);
            let c = if span == u64::MAX { self.salt } else { lo + (self.salt >> 11) % (span + 1) };
            let c = if t > 40 { lo + (t - 41) % (span.saturating_add(1).max(1)) } else { c };
            if c >= lo && c <= hi_incl && !self.used.contains(&c) {
                self.used.push(c);
                return Some(c);
            }
        }
        None
    }
}

fn action_of(s: &str) -> VerifyAction {
    match s {
        "VerifyOnly" => VerifyAction::VerifyOnly,
        "RecoverAndVerify" => VerifyAction::RecoverAndVerify,
        "RecoverOnly" => VerifyAction::RecoverOnly,
        _ => panic!("bad action"),
    }
}

fn err_json<T>(r: &Result<T, tari_bulletproofs_plus::errors::ProofError>) -> Value {
    match r {
        Ok(_) => json!("ok"),
        Err(e) => json!({"err": format!("{:?}", e)}),
    }
}

fn proof_layout(bytes: &[u8]) -> Value {
    with(|c| {
        let pieces = c.scan(bytes);
        json!({"len": bytes.len(), "pieces": pieces.iter().map(|p| match p {
            symcore::Piece::Lit(b) => json!({"lit": symcore::hex(b)}),
            symcore::Piece::Blob(id) => json!({"blob": id}),
            symcore::Piece::U64(i) => json!({"u64": i}),
        }).collect::<Vec<_>>()})
    })
}

/// Builds one batch member. cfg keys: m, cap, seeded, promises (list: null | "sym" | number-string),
/// values ("sym" | list of number strings), blind ("sym"), prove (bool), rng model, label.
fn build_member(idx: usize, n: usize, x: usize, cfg: &Value, picker: &mut Picker, transcripts: &mut Vec<Transcript>) -> Member {
    let m = cfg["m"].as_u64().unwrap_or(1) as usize;
    let cap = cfg["cap"].as_u64().unwrap_or(m as u64) as usize;
    let seeded = cfg["seeded"].as_bool().unwrap_or(false);
    let sym_values = cfg["values"].as_str() == Some("sym");
    let pc_gens = ristretto::create_pedersen_gens_with_extension_degree(ext_degree(x));
    let params = RangeParameters::init(n, cap, pc_gens).expect("RangeParameters::init");
    let reserved: Vec<u64> = vec![0, 1, n as u64, m as u64, x as u64, cap as u64, 2, 3, 4, 5, 6, 8, 16, 32, 64];
    for r in reserved {
        if !picker.used.contains(&r) {
            picker.used.push(r);
        }
    }
    let maxv: u64 = if n >= 64 { u64::MAX } else { (1u64 << n) - 1 };
    let mut values = Vec::new();
    let mut promises: Vec<Option<u64>> = Vec::new();
    let mut vinfo = Vec::new();
    for j in 0..m {
        // value
        let explicit = cfg["values"].get(j).and_then(|v| v.as_str()).and_then(|s| s.parse::<u64>().ok());
        let pmode = cfg["promises"].get(j).cloned().unwrap_or(Value::Null);
        let (v, vsym) = match explicit {
            Some(v) => (v, false),
            None => {
                if sym_values {
                    match picker.pick(maxv / 2 + 1, maxv) {
                        Some(v) => (v, true),
                        None => (maxv, false),
                    }
                } else {
                    (maxv - (j as u64 % (maxv / 2 + 1)), false)
                }
            },
        };
        if vsym {
            with(|c| {
                let node = c.var(&format!("v_{}_{}", idx, j), "value", Some(symcore::fl::Fl::from_u64(v)), json!({"member":idx,"j":j}));
                if let symcore::Op::Var(vid) = c.op(node).clone() {
                    c.register_u64(v, U64Reg::Var(vid));
                }
            });
        }
        let (p, psym) = match &pmode {
            Value::Null => (None, false),
            Value::String(s) if s == "sym" => match picker.pick(7.min(v), v / 2) {
                Some(p) => (Some(p), true),
                None => (Some(v / 2), false),
            },
            Value::String(s) if s == "eq" => (Some(v), false),
            Value::String(s) => (Some(s.parse::<u64>().expect("promise")), false),
            _ => (None, false),
        };
        if psym {
            with(|c| {
                let pv = p.unwrap();
                let node = c.var(&format!("p_{}_{}", idx, j), "promise", Some(symcore::fl::Fl::from_u64(pv)), json!({"member":idx,"j":j}));
                if let symcore::Op::Var(vid) = c.op(node).clone() {
                    c.register_u64(pv, U64Reg::Var(vid));
                }
            });
        }
        values.push(v);
        promises.push(p);
        vinfo.push(json!({"v": v.to_string(), "v_sym": vsym, "p": p.map(|x| x.to_string()), "p_sym": psym}));
    }
    // blindings
    let mut openings = Vec::new();
    let mut commitments = Vec::new();
    let mut blind_nodes = Vec::new();
    for j in 0..m {
        let r: Vec<Scalar> = (0..x).map(|k| Scalar::sym(&format!("r_{}_{}_{}", idx, j, k), "blinding")).collect();
        blind_nodes.push(r.iter().map(|s| s.node()).collect::<Vec<_>>());
        commitments.push(params.pc_gens().commit(&Scalar::from(values[j]), &r).expect("commit"));
        openings.push(CommitmentOpening::new(values[j], r));
    }
    let seed = if seeded { Some(Scalar::sym(&format!("seed_{}", cfg["seed_name"].as_str().unwrap_or(&idx.to_string())), "seed")) } else { None };
    let commit_ids: Vec<u32> = commitments.iter().map(|p| p.id()).collect();
    let statement = RangeStatement::init(params, commitments, promises.clone(), seed).expect("RangeStatement::init");
    let witness = RangeWitness::init(openings).expect("RangeWitness::init");
    let label: &'static [u8] = match cfg["label"].as_str() {
        Some("alt") => b"alternative context",
        _ => b"symx context",
    };
    transcripts.push(Transcript::new(label));
    Member {
        statement,
        witness: Some(witness),
        proof: None,
        info: json!({"idx":idx,"m":m,"cap":cap,"seeded":seeded,"seed_node": seed.map(|s| s.node()),
            "values":vinfo,"blindings":blind_nodes,"commitments":commit_ids}),
    }
}

fn run_batch(cfg: &Value) -> Value {
    let n = cfg["n"].as_u64().unwrap() as usize;
    let x = cfg["x"].as_u64().unwrap_or(1) as usize;
    let members_cfg = cfg["members"].as_array().expect("members").clone();
    let mut picker = Picker { used: Vec::new(), salt: with(|c| c.seed) ^ 0x5eed };
    let mut transcripts: Vec<Transcript> = Vec::new();
    let mut members: Vec<Member> = Vec::new();
    for (i, mc) in members_cfg.iter().enumerate() {
        members.push(build_member(i, n, x, mc, &mut picker, &mut transcripts));
    }
    // prove
    tari_bulletproofs_plus::verif_hooks::set_bit_hook(Some(bit_hook));
    let mut prove_out = Vec::new();
    for (i, mem) in members.iter_mut().enumerate() {
        let mc = &members_cfg[i];
        {
            let mut h = HOOK.lock().unwrap();
            h.enabled = mc["values"].as_str() == Some("sym") || mc["sym_bits"].as_bool().unwrap_or(false);
            h.member = i;
        }
        let mut rng = SymRng::new(mc["rng"].as_str().unwrap_or("sym"));
        let mut t = transcripts[i].clone();
        let ev0 = with(|c| c.events.len());
        let w = mem.witness.take().unwrap();
        let st = &mem.statement;
        let r = catch_unwind(AssertUnwindSafe(|| RistrettoRangeProof::prove_with_rng(&mut t, st, &w, &mut rng)));
        let ev1 = with(|c| c.events.len());
        match r {
            Ok(res) => {
                let mut o = json!({"result": err_json(&res), "events":[ev0, ev1], "log_after": t.log_id()});
                if let Ok(p) = res {
                    let bytes = p.to_bytes();
                    o["proof"] = proof_layout(&bytes);
                    // serde round trip through bincode (C15)
                    mem.proof = Some(p);
                }
                prove_out.push(o);
            },
            Err(_) => prove_out.push(json!({"result":"panic","events":[ev0,ev1]})),
        }
        mem.witness = Some(w);
    }
    HOOK.lock().unwrap().enabled = false;

    // optional tampering of the proofs / statements before verification
    let mut proofs: Vec<RistrettoRangeProof> = Vec::new();
    let mut tamper_info = Vec::new();
    for (i, mem) in members.iter().enumerate() {
        let mc = &members_cfg[i];
        let p = match &mem.proof {
            Some(p) => p.clone(),
            None => {
                return json!({"members": members.iter().map(|m| m.info.clone()).collect::<Vec<_>>(), "prove": prove_out,
                              "verify": Value::Null, "hook": hook_json()});
            },
        };
        let (p2, ti) = codec::tamper_proof(&p, &mc["tamper"]);
        tamper_info.push(ti);
        proofs.push(p2);
    }
    let mut statements: Vec<RangeStatement<RistrettoPoint>> = Vec::new();
    for (i, mem) in members.iter().enumerate() {
        let mc = &members_cfg[i];
        statements.push(codec::tamper_statement(&mem.statement, &mc["tamper_statement"], n, x, i));
    }
    let mut vtranscripts: Vec<Transcript> = Vec::new();
    for (i, _) in members.iter().enumerate() {
        let mc = &members_cfg[i];
        match mc["verify_label"].as_str() {
            Some("alt") => vtranscripts.push(Transcript::new(b"alternative context")),
            Some("symx") => vtranscripts.push(Transcript::new(b"symx context")),
            _ => vtranscripts.push(transcripts[i].clone()),
        }
    }
    // permutation of the batch at verification time
    if let Some(perm) = cfg["verify_order"].as_array() {
        let idx: Vec<usize> = perm.iter().map(|v| v.as_u64().unwrap() as usize).collect();
        statements = idx.iter().map(|i| statements[*i].clone()).collect();
        proofs = idx.iter().map(|i| proofs[*i].clone()).collect();
        vtranscripts = idx.iter().map(|i| vtranscripts[*i].clone()).collect();
    }
    // forced decisions apply to verification only
    if let Some(f) = cfg["forced"].as_array() {
        with(|c| {
            for e in f {
                let kind = e[0].as_str().unwrap().to_string();
                let base = *c.branch_counts.get(&kind).unwrap_or(&0);
                c.forced.insert((kind, base + e[1].as_u64().unwrap() as u32), e[2].as_bool().unwrap());
            }
        });
    }
    let mut verify_out = Vec::new();
    let actions: Vec<String> = match cfg["actions"].as_array() {
        Some(a) => a.iter().map(|v| v.as_str().unwrap().to_string()).collect(),
        None => vec![cfg["action"].as_str().unwrap_or("VerifyOnly").to_string()],
    };
    for act in actions {
        let mut ts = vtranscripts.clone();
        let ev0 = with(|c| c.events.len());
        let w0 = with(|c| c.work);
        let r = catch_unwind(AssertUnwindSafe(|| RangeProof::verify_batch(&mut ts, &statements, &proofs, action_of(&act))));
        let ev1 = with(|c| c.events.len());
        let w1 = with(|c| c.work);
        let logs_after: Vec<u32> = ts.iter().map(|t| t.log_id()).collect();
        match r {
            Ok(res) => {
                let mut o = json!({"action":act,"result": err_json(&res), "events":[ev0,ev1], "logs_after":logs_after,"work":w1-w0});
                if let Ok(masks) = res {
                    o["masks"] = Value::Array(
                        masks
                            .iter()
                            .map(|mk: &Option<ExtendedMask>| match mk {
                                None => Value::Null,
                                Some(em) => json!(em.blindings().unwrap().iter().map(|s| s.node()).collect::<Vec<_>>()),
                            })
                            .collect(),
                    );
                }
                verify_out.push(o);
            },
            Err(_) => verify_out.push(json!({"action":act,"result":"panic","events":[ev0,ev1]})),
        }
    }
    json!({"members": members.iter().map(|m| m.info.clone()).collect::<Vec<_>>(), "prove": prove_out, "tamper": tamper_info,
           "verify": verify_out, "hook": hook_json()})
}

fn hook_json() -> Value {
    let h = HOOK.lock().unwrap();
    json!({"calls": h.calls, "side": h.side})
}

fn main() {
    let arg = std::env::args().nth(1).expect("scenario json");
    let cfg: Value = if let Some(path) = arg.strip_prefix('@') {
        serde_json::from_str(&std::fs::read_to_string(path).expect("read scenario")).expect("json")
    } else {
        serde_json::from_str(&arg).expect("json")
    };
    // silence panic messages of expected panics (they are reported in the JSON)
    std::panic::set_hook(Box::new(|info| {
        with(|c| c.events.push(json!({"ev":"panic","msg": format!("{}", info)})));
    }));
    let out = match cfg["scenario"].as_str().unwrap_or("batch") {
        "batch" => run_batch(&cfg),
        "codec" => codec::run_codec(&cfg),
        "adversarial" => codec::run_adversarial(&cfg),
        other => json!({"error": format!("unknown scenario {}", other)}),
    };
    let core = with(|c| c.dump());
    println!("{}", json!({"config": cfg, "out": out, "core": core}));
}
