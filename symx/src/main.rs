//! symx / replay — runs the repository's real prover / verifier / codec on a scenario.
//!
//! * feature `model` (crate /verif/symx): the dependency crates are the model crates of /verif/shim, all
//!   scalars / points / hashes are symbolic, and the recorded term DAG, logs and events are dumped as JSON
//!   for the SMT side (Engine S of DESIGN.md);
//! * without it (crate /verif/replay): the very same scenario on the real curve25519-dalek / merlin /
//!   blake2 / sha3 with pseudo-random concrete values — used to replay solver counterexamples.
//!
//! usage: symx '<json scenario>' | symx @file.json
use std::panic::{catch_unwind, AssertUnwindSafe};

use curve25519_dalek::{ristretto::RistrettoPoint, scalar::Scalar};
use merlin::Transcript;
use serde_json::{json, Value};
use tari_bulletproofs_plus::{
    commitment_opening::CommitmentOpening,
    extended_mask::ExtendedMask,
    generators::pedersen_gens::ExtensionDegree,
    range_parameters::RangeParameters,
    range_proof::{RangeProof, VerifyAction},
    range_statement::RangeStatement,
    range_witness::RangeWitness,
    ristretto::{self, RistrettoRangeProof},
};

mod codec;
#[cfg(feature = "model")]
#[path = "env_model.rs"]
mod env;
#[cfg(not(feature = "model"))]
#[path = "env_real.rs"]
mod env;
#[cfg(feature = "model")]
mod hook;
#[cfg(not(feature = "model"))]
mod refimpl;
#[cfg(not(feature = "model"))]
mod zscan;
#[cfg(not(feature = "model"))]
#[global_allocator]
static GLOBAL: zscan::Scanner = zscan::Scanner;
use env::SymRng;

pub fn ext_degree(x: usize) -> ExtensionDegree {
    ExtensionDegree::try_from(x).expect("extension degree")
}

pub struct Member {
    pub statement: RangeStatement<RistrettoPoint>,
    pub witness: Option<RangeWitness>,
    pub witness_err: Option<String>,
    pub proof: Option<RistrettoRangeProof>,
    pub blindings: Vec<Vec<Scalar>>,
    pub info: Value,
}

/// picks concrete numbers that stand for symbolic u64 variables
pub struct Picker {
    pub used: Vec<u64>,
    pub salt: u64,
}
impl Picker {
    pub fn pick(&mut self, lo: u64, hi_incl: u64) -> Option<u64> {
        if hi_incl < lo {
            return None;
        }
        let span = hi_incl - lo;
        for t in 0..96u64 {
            self.salt = self.salt.wrapping_mul(6364136223846793005).wrapping_add(1442695040888963407);
            let c = if t < 48 {
                if span == u64::MAX {
                    self.salt
                } else {
                    lo + (self.salt >> 11) % (span + 1)
                }
            } else {
                // systematic sweep from the top when random draws keep colliding (tiny ranges)
                hi_incl.wrapping_sub(t - 48)
            };
            if c >= lo && c <= hi_incl && !self.used.contains(&c) {
                self.used.push(c);
                return Some(c);
            }
        }
        None
    }
}

pub fn action_of(s: &str) -> VerifyAction {
    match s {
        "VerifyOnly" => VerifyAction::VerifyOnly,
        "RecoverAndVerify" => VerifyAction::RecoverAndVerify,
        "RecoverOnly" => VerifyAction::RecoverOnly,
        _ => panic!("bad action"),
    }
}

pub fn err_json<T>(r: &Result<T, tari_bulletproofs_plus::errors::ProofError>) -> Value {
    match r {
        Ok(_) => json!("ok"),
        Err(e) => json!({"err": format!("{:?}", e)}),
    }
}

pub fn masks_json(masks: &[Option<ExtendedMask>]) -> Value {
    Value::Array(
        masks
            .iter()
            .map(|mk| match mk {
                None => Value::Null,
                Some(em) => json!(em.blindings().unwrap().iter().map(env::scalar_id).collect::<Vec<_>>()),
            })
            .collect(),
    )
}

/// a generator of a parameter set, by name: {"b":"h"} | {"b":"g","k":0} | {"b":"G","i":3} | {"b":"H","i":3} | {"b":"free"}
pub fn named_basis(params: &RangeParameters<RistrettoPoint>, spec: &Value, name: &str) -> RistrettoPoint {
    match spec["b"].as_str().unwrap_or("free") {
        "h" => *params.h_base(),
        "g" => params.g_bases()[spec["k"].as_u64().unwrap_or(0) as usize],
        "G" => *params.gi_base_iter().nth(spec["i"].as_u64().unwrap_or(0) as usize).expect("G index"),
        "H" => *params.hi_base_iter().nth(spec["i"].as_u64().unwrap_or(0) as usize).expect("H index"),
        _ => env::free_point(name),
    }
}

thread_local! {
    static PARAMS_POOL: std::cell::RefCell<Vec<((usize, usize, usize), RangeParameters<RistrettoPoint>)>> = std::cell::RefCell::new(Vec::new());
}

/// Builds one batch member. cfg keys: m, cap, seeded, seed_name, name_idx, values ("sym" | list of strings),
/// promises (list: null | "sym" | "eq" | number-string), witness_tamper, label.
fn build_member(idx: usize, n: usize, x: usize, cfg: &Value, picker: &mut Picker, transcripts: &mut Vec<Transcript>) -> Member {
    let m = cfg["m"].as_u64().unwrap_or(1) as usize;
    let cap = cfg["cap"].as_u64().unwrap_or(m as u64) as usize;
    let seeded = cfg["seeded"].as_bool().unwrap_or(false);
    let sym_values = cfg["values"].as_str() == Some("sym");
    let nidx = cfg["name_idx"].as_u64().map(|v| v as usize).unwrap_or(idx);
    let mut pc_gens = ristretto::create_pedersen_gens_with_extension_degree(ext_degree(x));
    if cfg["degenerate_g"].as_bool().unwrap_or(false) && x >= 2 {
        // g_1 = 2 g_0: different blinding vectors open the same commitment (used to vary the witness under a fixed statement)
        pc_gens.g_base_vec[1] = pc_gens.g_base_vec[0] * Scalar::from(2u8);
        pc_gens.g_base_compressed_vec[1] = pc_gens.g_base_vec[1].compress();
    }
    if cfg["h_point_only"].as_bool().unwrap_or(false) {
        // the value generator (a public field) reassigned WITHOUT refreshing its cached encoding: the prover must bind the generator it actually
        // uses, not what an earlier state of the object looked like
        pc_gens.h_base = pc_gens.h_base + curve25519_dalek::constants::RISTRETTO_BASEPOINT_POINT * Scalar::from(11u8);
    }
    if let Some(i) = cfg["g1_shift"].as_u64() {
        // blinding generator 1 moved by i*D (D a fixed point): three statements i = 0, 1, 2 that differ ONLY in that generator
        if x >= 2 && i > 0 {
            let d = curve25519_dalek::constants::RISTRETTO_BASEPOINT_POINT * Scalar::from(7u8);
            pc_gens.g_base_vec[1] = pc_gens.g_base_vec[1] + d * Scalar::from(i);
            pc_gens.g_base_compressed_vec[1] = pc_gens.g_base_vec[1].compress();
        }
    }
    // share_params: ONE parameters object per (bit length, capacity, degree) for the whole process — later members of the batch and later
    // steps of a `history` scenario get CLONES of the object the first user built (state kept inside or behind a parameters object is shared
    // by its clones); without the option every member builds its own
    let plain_gens = !cfg["degenerate_g"].as_bool().unwrap_or(false) && cfg["g1_shift"].as_u64().unwrap_or(0) == 0 && !cfg["h_point_only"].as_bool().unwrap_or(false);
    let params = if cfg["share_params"].as_bool().unwrap_or(false) && plain_gens {
        let found = PARAMS_POOL.with(|pool| pool.borrow().iter().find(|(k, _)| *k == (n, cap, x)).map(|(_, p)| p.clone()));
        match found {
            Some(p) => p,
            None => {
                let p = RangeParameters::init(n, cap, pc_gens).expect("RangeParameters::init");
                PARAMS_POOL.with(|pool| pool.borrow_mut().push(((n, cap, x), p.clone())));
                p
            },
        }
    } else {
        RangeParameters::init(n, cap, pc_gens).expect("RangeParameters::init")
    };
    for r in [0u64, 1, n as u64, m as u64, x as u64, cap as u64, 2, 3, 4, 5, 6, 8, 16, 32, 64] {
        if !picker.used.contains(&r) {
            picker.used.push(r);
        }
    }
    let maxv: u64 = if n >= 64 { u64::MAX } else { (1u64 << n) - 1 };
    let mut values = Vec::new();
    let mut promises: Vec<Option<u64>> = Vec::new();
    let mut vinfo = Vec::new();
    for j in 0..m {
        let explicit = cfg["values"].get(j).and_then(|v| v.as_str()).and_then(|s| s.parse::<u64>().ok());
        let pmode = cfg["promises"].get(j).cloned().unwrap_or(Value::Null);
        let (v, mut vsym) = match explicit {
            Some(v) => (v, false),
            None => {
                if sym_values {
                    match picker.pick(maxv / 2 + 1, maxv) {
                        Some(v) => (v, true),
                        // no distinct stand-in left: a concrete value that is never registered as a variable (the small reserved numbers)
                        None => (maxv.min(5), false),
                    }
                } else {
                    (maxv - (j as u64 % (maxv / 2 + 1)), false)
                }
            },
        };
        if vsym {
            vsym = env::register_u64(&format!("v_{}_{}", nidx, j), "value", v, json!({"member":nidx,"j":j}));
        }
        let (p, mut psym) = match &pmode {
            // a symbolic promise needs a symbolic value (the tie v = p + sum b 2^i); otherwise it stays a concrete number
            Value::String(s) if s == "sym" => match if vsym || !sym_values { picker.pick(7.min(v), v / 2) } else { None } {
                Some(p) => (Some(p), true),
                // concrete fall-back: a small reserved number (never registered as a variable), not above the value
                None => (Some(v.min(3)), false),
            },
            Value::String(s) if s == "eq" => (Some(v), false),
            Value::String(s) => (Some(s.parse::<u64>().expect("promise")), false),
            _ => (None, false),
        };
        if psym {
            psym = env::register_u64(&format!("p_{}_{}", nidx, j), "promise", p.unwrap(), json!({"member":nidx,"j":j}));
        }
        values.push(v);
        promises.push(p);
        vinfo.push(json!({"v": v.to_string(), "v_sym": vsym, "p": p.map(|x| x.to_string()), "p_sym": psym}));
    }
    let mut openings = Vec::new();
    let mut commitments = Vec::new();
    let mut blindings: Vec<Vec<Scalar>> = Vec::new();
    // dup_openings [[a, b], ..]: opening b IS opening a (same value, same blinding factors), so commitments a and b are equal points;
    // their promises may differ
    let mut dup_src: Vec<usize> = (0..m).collect();
    if let Some(d) = cfg["dup_openings"].as_array() {
        for pr in d {
            let (a, b) = (pr[0].as_u64().unwrap_or(0) as usize, pr[1].as_u64().unwrap_or(0) as usize);
            if a < m && b < m {
                dup_src[b] = a;
                values[b] = values[a];
            }
        }
    }
    for j in 0..m {
        let eqb = cfg["equal_blindings"].as_bool().unwrap_or(false);
        // blindings_count < x: a witness of LOWER extension degree than the statement whose short vectors do reproduce the commitments
        // (a list gives one count per opening: a RAGGED witness whose commitments are nevertheless reproduced by its short vectors)
        let nb = match &cfg["blindings_count"] {
            Value::Array(a) => a.get(j).and_then(|v| v.as_u64()).map(|v| v as usize).unwrap_or(x),
            v => v.as_u64().map(|v| v as usize).unwrap_or(x),
        };
        let zero_here = cfg["zero_blindings"].as_bool().unwrap_or(false) ||
            cfg["zero_blindings_at"].as_array().map(|a| a.iter().any(|v| v.as_u64() == Some(j as u64))).unwrap_or(false);
        let mut r: Vec<Scalar> = if zero_here {
            // the all-zero mask: with value 0 the commitment is the identity element (a valid witness)
            vec![Scalar::ZERO; nb]
        } else {
            (0..nb).map(|k| env::sym_scalar(&format!("r_{}_{}_{}", nidx, dup_src[j], if eqb { 0 } else { k }), "blinding")).collect()
        };
        // single blinding COMPONENTS equal to zero (a valid witness; the mask to recover then has zero entries)
        if let Some(zc) = cfg["zero_blinding_components"].as_array() {
            for k in zc.iter().filter_map(|v| v.as_u64()) {
                if (k as usize) < r.len() {
                    r[k as usize] = Scalar::ZERO;
                }
            }
        }
        if cfg["witness_shift"].as_u64() == Some(j as u64) && x >= 2 {
            // another opening of the same commitment under degenerate_g: (r0 + 2, r1 - 1)
            r[0] = r[0] + Scalar::from(2u8);
            r[1] = r[1] - Scalar::ONE;
        }
        commitments.push(params.pc_gens().commit(&Scalar::from(values[j]), &r).expect("commit"));
        openings.push((values[j], r.clone()));
        blindings.push(r);
    }
    // invalid witnesses (C06): the commitments stay those of the valid openings
    let wt = &cfg["witness_tamper"];
    let mut wt_info = Value::Null;
    if !wt.is_null() {
        let j = wt["j"].as_u64().unwrap_or(0) as usize;
        match wt["op"].as_str().unwrap_or("") {
            "blinding_delta" => {
                let k = wt["k"].as_u64().unwrap_or(0) as usize;
                let d = env::sym_scalar(&format!("wdelta_{}_{}", j, k), "delta");
                openings[j].1[k] = openings[j].1[k] + d;
                wt_info = json!({"delta": env::scalar_id(&d)});
            },
            "value_set" => {
                openings[j].0 = wt["value"].as_str().unwrap().parse::<u64>().unwrap();
            },
            "drop_opening" => {
                openings.pop();
            },
            "extra_opening" => {
                let r: Vec<Scalar> = (0..x).map(|k| env::sym_scalar(&format!("r_extra_{}", k), "blinding")).collect();
                openings.push((1, r));
            },
            "extra_blinding" => {
                for (jj, o) in openings.iter_mut().enumerate() {
                    o.1.push(env::sym_scalar(&format!("r_xb_{}", jj), "blinding"));
                }
            },
            "fewer_blinding" => {
                for o in openings.iter_mut() {
                    o.1.pop();
                }
            },
            "swap_openings" => {
                let i = wt["i"].as_u64().unwrap() as usize;
                openings.swap(i, j);
            },
            other => panic!("unknown witness tamper {}", other),
        }
    }
    let seed = if seeded {
        Some(env::sym_scalar(&format!("seed_{}", cfg["seed_name"].as_str().unwrap_or(&nidx.to_string())), "seed"))
    } else {
        None
    };
    let commit_ids: Vec<Value> = commitments.iter().map(env::point_id).collect();
    let statement = RangeStatement::init(params, commitments, promises.clone(), seed).expect("RangeStatement::init");
    let wres = if cfg["witness_in_place"].as_bool().unwrap_or(false) {
        // the witness object is built from PLACEHOLDER openings of the same shape and every opening is then overwritten through the public field:
        // what the prover proves and what it keys its randomness with must both be the CURRENT openings (nothing derived at construction time)
        let ph: Vec<CommitmentOpening> = openings.iter().map(|(_, r)| CommitmentOpening::new(1, r.iter().map(|_| Scalar::ONE).collect())).collect();
        RangeWitness::init(ph).map(|mut w| {
            for (j, (v, r)) in openings.into_iter().enumerate() {
                if j < w.openings.len() {
                    w.openings[j] = CommitmentOpening::new(v, r);
                }
            }
            w
        })
    } else {
        RangeWitness::init(openings.into_iter().map(|(v, r)| CommitmentOpening::new(v, r)).collect())
    };
    let (witness, witness_err) = match wres {
        Ok(w) => (Some(w), None),
        Err(e) => (None, Some(format!("{:?}", e))),
    };
    transcripts.push(Transcript::new(context_label(cfg["label"].as_str())));
    let info = json!({"idx":idx,"m":m,"cap":cap,"seeded":seeded,"seed_node": seed.as_ref().map(env::scalar_id),
        "values":vinfo,"blindings":blindings.iter().map(|r| r.iter().map(env::scalar_id).collect::<Vec<_>>()).collect::<Vec<_>>(),
        "commitments":commit_ids,"witness_err":witness_err,"witness_tamper":wt_info});
    Member { statement, witness, witness_err, proof: None, blindings, info }
}

/// the caller's transcript context of a member: "alt" and the default are the two historical labels, any other string names its own context
fn context_label(l: Option<&str>) -> &'static [u8] {
    match l {
        Some("alt") => b"alternative context",
        None | Some("symx") => b"symx context",
        Some(other) => Box::leak(format!("caller context {}", other).into_bytes().into_boxed_slice()),
    }
}

fn run_batch(cfg: &Value) -> Value {
    let n = cfg["n"].as_u64().unwrap() as usize;
    let x = cfg["x"].as_u64().unwrap_or(1) as usize;
    let members_cfg = cfg["members"].as_array().expect("members").clone();
    let mut picker = Picker { used: Vec::new(), salt: env::seed() ^ 0x5eed };
    let mut transcripts: Vec<Transcript> = Vec::new();
    let mut members: Vec<Member> = Vec::new();
    for (i, mc) in members_cfg.iter().enumerate() {
        // a validating constructor that refuses (or panics on) the scenario's valid parameters / statement is an outcome, not a harness failure:
        // reported as a prover result so that the honest-scenario checks see "no proof" (and the replay sees the same on the real crates)
        match catch_unwind(AssertUnwindSafe(|| build_member(i, n, x, mc, &mut picker, &mut transcripts))) {
            Ok(mem) => members.push(mem),
            Err(e) => {
                let msg = e.downcast_ref::<String>().cloned().or_else(|| e.downcast_ref::<&str>().map(|s| s.to_string())).unwrap_or_default();
                return json!({"members": [], "prove": [{"result": {"err": format!("constructing member {} failed: {}", i, msg)}}], "verify": Value::Null,
                              "constructor_refused": true, "hook": Value::Null});
            },
        }
    }
    // prove
    #[cfg(feature = "model")]
    hook::install();
    let mut prove_out = Vec::new();
    let mut rngs: Vec<SymRng> = Vec::new();
    let mut all_proved = true;
    for (i, mem) in members.iter_mut().enumerate() {
        let mc = &members_cfg[i];
        #[cfg(feature = "model")]
        hook::configure(mc["values"].as_str() == Some("sym") || mc["sym_bits"].as_bool().unwrap_or(false), i);
        let mut rng = match mc["rng_replay_of"].as_u64() {
            Some(k) => rngs[k as usize].replay(),
            None => SymRng::new(mc["rng"].as_str().unwrap_or("sym"), &format!("stream{}", i)),
        };
        rngs.push(rng.replay());
        let mut t = transcripts[i].clone();
        let ev0 = env::events_len();
        let w = match mem.witness.take() {
            Some(w) => w,
            None => {
                prove_out.push(json!({"result":{"err":"witness constructor refused"},"events":[ev0,ev0]}));
                all_proved = false;
                continue;
            },
        };
        let st = &mem.statement;
        let r = catch_unwind(AssertUnwindSafe(|| RistrettoRangeProof::prove_with_rng(&mut t, st, &w, &mut rng)));
        let ev1 = env::events_len();
        match r {
            Ok(res) => {
                let mut o = json!({"result": err_json(&res), "events":[ev0, ev1]});
                #[cfg(feature = "model")]
                {
                    o["log_after"] = json!(t.log_id());
                }
                if let Ok(p) = res {
                    let bytes = p.to_bytes();
                    o["proof"] = env::layout(&bytes);
                    o["proof_len"] = json!(bytes.len());
                    // encode/decode round trip of prover output (C15)
                    o["roundtrip"] = match RistrettoRangeProof::from_bytes(&bytes) {
                        Ok(q) => json!({"decoded": true, "equal": q == p, "bytes_equal": q.to_bytes() == bytes}),
                        Err(e) => json!({"decoded": false, "err": format!("{:?}", e)}),
                    };
                    #[cfg(not(feature = "model"))]
                    {
                        // REAL flavour: the blinding part of A, i.e. A minus the bit part recomputed from the known witness
                        let bl = st.generators.bit_length();
                        let mut a_pt = curve25519_dalek::ristretto::CompressedRistretto::from_slice(&bytes[1 + 32 * x..33 + 32 * x]).unwrap().decompress().unwrap();
                        let gs: Vec<RistrettoPoint> = st.generators.gi_base_iter().cloned().collect();
                        let hs: Vec<RistrettoPoint> = st.generators.hi_base_iter().cloned().collect();
                        let vals: Vec<u64> = mem.info["values"].as_array().unwrap().iter().map(|v| v["v"].as_str().unwrap().parse::<u64>().unwrap()).collect();
                        for (j, v) in vals.iter().enumerate() {
                            let o = v.wrapping_sub(st.minimum_value_promises[j].unwrap_or(0));
                            for i in 0..bl {
                                if (o >> i) & 1 == 1 {
                                    a_pt = a_pt - gs[j * bl + i];
                                } else {
                                    a_pt = a_pt + hs[j * bl + i];
                                }
                            }
                        }
                        o["a_blind"] = env::point_id(&a_pt);
                    }
                    if cfg["repeat_prove"].as_bool().unwrap_or(false) {
                        // the SAME statement and witness objects, an identically initialised transcript and the same RNG stream once more:
                        // proving is a function of its arguments and the stream, so the bytes must be the same
                        let mut rng2 = rngs[i].replay();
                        let mut t2 = transcripts[i].clone();
                        o["repeat"] = match catch_unwind(AssertUnwindSafe(|| RistrettoRangeProof::prove_with_rng(&mut t2, st, &w, &mut rng2))) {
                            Ok(Ok(p2)) => env::layout(&p2.to_bytes()),
                            Ok(Err(e)) => json!({"err": format!("{:?}", e)}),
                            Err(_) => json!("panic"),
                        };
                    }
                    mem.proof = Some(p);
                } else {
                    all_proved = false;
                }
                prove_out.push(o);
            },
            Err(_) => {
                all_proved = false;
                prove_out.push(json!({"result":"panic","events":[ev0,ev1]}));
            },
        }
        mem.witness = Some(w);
    }
    #[cfg(feature = "model")]
    hook::configure(false, 0);
    #[cfg(not(feature = "model"))]
    if cfg["documented_prover"].as_bool().unwrap_or(false) && all_proved {
        // REAL flavour: with a stuck external RNG the library's proof must be BYTE FOR BYTE the one the documented nonce derivation gives
        // (refimpl::reference_prove_documented); `alias` = pairs (nonce name, other nonce name) re-derives it with these two nonces identified
        let alias: Vec<(String, String)> = cfg["alias"].as_array().map(|a| a.iter().map(|p| (p[0].as_str().unwrap_or("").to_string(), p[1].as_str().unwrap_or("").to_string())).collect()).unwrap_or_default();
        let mut outv = Vec::new();
        for (i, mem) in members.iter().enumerate() {
            let ext = match members_cfg[i]["rng"].as_str() {
                Some("zero") => 0u8,
                Some("const") => 0x42u8,
                _ => {
                    outv.push(json!({"skipped": "external RNG model is not a stuck one"}));
                    continue;
                },
            };
            let vals: Vec<u64> = mem.info["values"].as_array().unwrap().iter().map(|v| v["v"].as_str().unwrap().parse::<u64>().unwrap()).collect();
            let lib = mem.proof.as_ref().unwrap().to_bytes();
            let diff = |a: &[u8], b: &[u8]| -> Value {
                if a == b {
                    return Value::Null;
                }
                let k = a.iter().zip(b.iter()).position(|(x, y)| x != y).unwrap_or(a.len().min(b.len()));
                json!(if k == 0 { 0 } else { (k - 1) / 32 })
            };
            let doc = refimpl::reference_prove_documented(&transcripts[i], &mem.statement, &vals, &mem.blindings, ext, &[]);
            let ali = if alias.is_empty() { None } else { refimpl::reference_prove_documented(&transcripts[i], &mem.statement, &vals, &mem.blindings, ext, &alias) };
            outv.push(json!({"documented_equal": doc.as_ref().map(|d| d == &lib), "first_differing_element": doc.as_ref().map(|d| diff(d, &lib)),
                "aliased_equal": ali.as_ref().map(|d| d == &lib)}));
        }
        return json!({"members": members.iter().map(|m| m.info.clone()).collect::<Vec<_>>(), "prove": prove_out, "documented": outv, "verify": Value::Null});
    }
    #[cfg(not(feature = "model"))]
    if cfg["attacks"].as_bool().unwrap_or(false) && all_proved {
        // REAL flavour: concrete attacks that only succeed when a derivation is weaker than documented (replay of C08 / C13 / C14 findings)
        let mut proofs: Vec<Vec<u8>> = members.iter().map(|m| m.proof.as_ref().unwrap().to_bytes()).collect();
        let mut statements: Vec<RangeStatement<RistrettoPoint>> = members.iter().map(|m| m.statement.clone()).collect();
        let mut transcripts = transcripts.clone();
        let mut honest: Vec<RistrettoRangeProof> = members.iter().map(|m| m.proof.as_ref().unwrap().clone()).collect();
        if cfg["duplicate_last"].as_bool().unwrap_or(false) {
            // the last (statement, proof, transcript) submitted twice
            proofs.push(proofs.last().unwrap().clone());
            statements.push(statements.last().unwrap().clone());
            transcripts.push(transcripts.last().unwrap().clone());
            honest.push(honest.last().unwrap().clone());
        }
        let verify = |forged: &[Vec<u8>]| -> Vec<bool> {
            let ps: Vec<RistrettoRangeProof> = match forged.iter().map(|b| RistrettoRangeProof::from_bytes(b)).collect::<Result<Vec<_>, _>>() {
                Ok(p) => p,
                Err(_) => return vec![false],
            };
            // each forged proof must be invalid on its own ...
            for i in 0..ps.len() {
                if ps[i] != honest[i] {
                    let mut t1 = vec![transcripts[i].clone()];
                    if RangeProof::verify_batch(&mut t1, &statements[i..i + 1], &ps[i..i + 1], VerifyAction::VerifyOnly).is_ok() {
                        return vec![false];
                    }
                }
            }
            // ... and the batch must be refused in both verifying modes
            [VerifyAction::VerifyOnly, VerifyAction::RecoverAndVerify]
                .iter()
                .map(|a| {
                    let mut ts = transcripts.clone();
                    RangeProof::verify_batch(&mut ts, &statements, &ps, *a).is_ok()
                })
                .collect()
        };
        let wa = refimpl::weight_attack(&transcripts, &statements, &proofs, &verify, &cfg["weight_recipe"]);
        let mut guesses = Vec::new();
        let mut opened = Vec::new();
        for (i, mem) in members.iter().enumerate() {
            let ext = match members_cfg[i]["rng"].as_str() {
                Some("zero") => Some(0u8),
                Some("const") => Some(0x42u8),
                _ => None,
            };
            let ab = prove_out[i]["a_blind"].as_str().map(|h| {
                let mut b = [0u8; 32];
                for k in 0..32 {
                    b[k] = u8::from_str_radix(&h[2 * k..2 * k + 2], 16).unwrap();
                }
                curve25519_dalek::ristretto::CompressedRistretto(b).decompress().unwrap()
            });
            if let (Some(ext), Some(ab)) = (ext, ab) {
                guesses.push(json!(refimpl::public_nonce_guess(&transcripts[i], &mem.statement, &proofs[i], &ab, ext)));
            } else {
                guesses.push(Value::Null);
            }
            let v0: u64 = mem.info["values"][0]["v"].as_str().unwrap().parse().unwrap();
            let off = v0.wrapping_sub(mem.statement.minimum_value_promises[0].unwrap_or(0));
            let vals_all: Vec<u64> = mem.info["values"].as_array().unwrap().iter().map(|v| v["v"].as_str().unwrap().parse::<u64>().unwrap()).collect();
            opened.push(match refimpl::open_final_masks_1bit(&transcripts[i], &mem.statement, &proofs[i], off & 1)
                .or_else(|| refimpl::open_final_masks_seeded(&transcripts[i], &mem.statement, &vals_all, &mem.blindings, &proofs[i]))
            {
                Some((r, s)) => json!([env::scalar_id(&r), env::scalar_id(&s)]),
                None => Value::Null,
            });
        }
        // three members whose statements differ only in blinding generator 1 (g1_shift = 0, 1, 2) and whose commitment does not use it: the
        // blinding parts of A satisfy  A_2 - A_0 == 2 (A_1 - A_0)  exactly when all three runs drew the SAME alpha
        let mut lin = Value::Null;
        if members.len() == 3 && members_cfg.iter().enumerate().all(|(i, mc)| mc["g1_shift"].as_u64() == Some(i as u64)) {
            let pts: Vec<Option<RistrettoPoint>> = (0..3)
                .map(|i| {
                    prove_out[i]["a_blind"].as_str().and_then(|h| {
                        let mut b = [0u8; 32];
                        for k in 0..32 {
                            b[k] = u8::from_str_radix(&h[2 * k..2 * k + 2], 16).ok()?;
                        }
                        curve25519_dalek::ristretto::CompressedRistretto(b).decompress()
                    })
                })
                .collect();
            if let (Some(a0), Some(a1), Some(a2)) = (pts[0], pts[1], pts[2]) {
                lin = json!((a2 - a0) == (a1 - a0) * Scalar::from(2u8) && a1 != a0);
            }
        }
        return json!({"members": members.iter().map(|m| m.info.clone()).collect::<Vec<_>>(), "prove": prove_out, "weight_attack": wa, "public_nonce_guess": guesses,
            "opened_final_masks": opened, "generator_linearity": lin, "verify": Value::Null});
    }
    #[cfg(not(feature = "model"))]
    if cfg["reference_prover"].as_bool().unwrap_or(false) {
        // C19: proofs made by the independent straight-from-the-paper prover must be accepted by the library, masks recovered
        let mut outv = Vec::new();
        for (i, mem) in members.iter().enumerate() {
            let vals: Vec<u64> = mem.info["values"].as_array().unwrap().iter().map(|v| v["v"].as_str().unwrap().parse::<u64>().unwrap()).collect();
            let mut rng = SymRng::new("sym", &format!("refstream{}", i));
            let rp = refimpl::reference_prove(&transcripts[i], &mem.statement, &vals, &mem.blindings, &mut rng);
            let o = match rp {
                None => json!({"reference_prove": "refused"}),
                Some(bytes) => match RistrettoRangeProof::from_bytes(&bytes) {
                    Err(e) => json!({"reference_prove": "ok", "library_decode": format!("{:?}", e)}),
                    Ok(p) => {
                        let mut ts = vec![transcripts[i].clone()];
                        let r = catch_unwind(AssertUnwindSafe(|| RangeProof::verify_batch(&mut ts, &[mem.statement.clone()], &[p], VerifyAction::RecoverAndVerify)));
                        match r {
                            Ok(Ok(masks)) => json!({"reference_prove": "ok", "library_verify": "ok", "masks": masks_json(&masks),
                                "expected_mask": if mem.statement.seed_nonce.is_some() { json!(mem.blindings[0].iter().map(env::scalar_id).collect::<Vec<_>>()) } else { Value::Null },
                                "len": bytes.len()}),
                            Ok(Err(e)) => json!({"reference_prove": "ok", "library_verify": format!("{:?}", e)}),
                            Err(_) => json!({"reference_prove": "ok", "library_verify": "panic"}),
                        }
                    },
                },
            };
            outv.push(o);
        }
        return json!({"members": members.iter().map(|m| m.info.clone()).collect::<Vec<_>>(), "prove": prove_out, "reference_prover": outv, "verify": Value::Null});
    }
    let members_info: Vec<Value> = members.iter().map(|m| m.info.clone()).collect();
    if !all_proved || cfg["prove_only"].as_bool().unwrap_or(false) {
        return json!({"members": members_info, "prove": prove_out, "verify": Value::Null, "hook": hook_json()});
    }

    // optional tampering of the proofs / statements before verification
    let mut proofs: Vec<RistrettoRangeProof> = Vec::new();
    let mut tamper_info = Vec::new();
    for (i, mem) in members.iter().enumerate() {
        let mc = &members_cfg[i];
        let p = mem.proof.as_ref().unwrap();
        let (p2, ti) = codec::tamper_proof(p, &mc["tamper"], &mem.statement.generators, i);
        tamper_info.push(ti);
        proofs.push(p2);
    }
    let mut statements: Vec<RangeStatement<RistrettoPoint>> = Vec::new();
    for (i, mem) in members.iter().enumerate() {
        let mc = &members_cfg[i];
        statements.push(codec::tamper_statement(&mem.statement, &mc["tamper_statement"], n, x, i));
    }
    let mut vtranscripts: Vec<Transcript> = Vec::new();
    for (i, _) in members.iter().enumerate() {
        let mc = &members_cfg[i];
        match mc["verify_label"].as_str() {
            Some(l) => vtranscripts.push(Transcript::new(context_label(Some(l)))),
            None => vtranscripts.push(transcripts[i].clone()),
        }
    }
    // permutation / selection of the batch at verification time
    if let Some(perm) = cfg["verify_order"].as_array() {
        let idx: Vec<usize> = perm.iter().map(|v| v.as_u64().unwrap() as usize).collect();
        statements = idx.iter().map(|i| statements[*i].clone()).collect();
        proofs = idx.iter().map(|i| proofs[*i].clone()).collect();
        vtranscripts = idx.iter().map(|i| vtranscripts[*i].clone()).collect();
    }
    // length mismatches between the three input sequences (C03/C16)
    if let Some(k) = cfg["drop_last_statement"].as_u64() {
        for _ in 0..k {
            statements.pop();
        }
    }
    if let Some(k) = cfg["drop_last_proof"].as_u64() {
        for _ in 0..k {
            proofs.pop();
        }
    }
    if let Some(k) = cfg["drop_last_transcript"].as_u64() {
        for _ in 0..k {
            vtranscripts.pop();
        }
    }
    env::set_forced(&cfg["forced"]);
    if cfg["verify_each"].as_bool().unwrap_or(false) {
        // every member verified on its own (one verify_batch call per member and action)
        let each: Vec<Value> = (0..statements.len())
            .map(|i| Value::Array(run_verify(cfg, &vtranscripts[i..i + 1], &statements[i..i + 1], &proofs[i..i + 1])))
            .collect();
        return json!({"members": members_info, "prove": prove_out, "tamper": tamper_info, "verify": Value::Null, "verify_each": each, "hook": hook_json()});
    }
    let verify_out = run_verify(cfg, &vtranscripts, &statements, &proofs);
    json!({"members": members_info, "prove": prove_out, "tamper": tamper_info, "verify": verify_out, "hook": hook_json()})
}

pub fn run_verify(
    cfg: &Value,
    vtranscripts: &[Transcript],
    statements: &[RangeStatement<RistrettoPoint>],
    proofs: &[RistrettoRangeProof],
) -> Vec<Value> {
    let mut verify_out = Vec::new();
    #[cfg(not(feature = "model"))]
    let reference: Vec<Value> = vtranscripts
        .iter()
        .zip(statements.iter())
        .zip(proofs.iter())
        .map(|((t, s), p)| match catch_unwind(AssertUnwindSafe(|| refimpl::reference_verify(t, s, &p.to_bytes()))) {
            Ok(Some(b)) => json!(b),
            Ok(None) => json!("malformed"),
            Err(_) => json!("panic"),
        })
        .collect();
    #[cfg(feature = "model")]
    let reference: Vec<Value> = Vec::new();
    #[cfg(not(feature = "model"))]
    let reference_probe: Vec<Value> = vtranscripts
        .iter()
        .zip(statements.iter())
        .zip(proofs.iter())
        .map(|((t, s), p)| match catch_unwind(AssertUnwindSafe(|| refimpl::final_probe(t, s, &p.to_bytes()))) {
            Ok(Some(b)) => json!(b),
            _ => Value::Null,
        })
        .collect();
    #[cfg(feature = "model")]
    let reference_probe: Vec<Value> = Vec::new();
    let actions: Vec<String> = match cfg["actions"].as_array() {
        Some(a) => a.iter().map(|v| v.as_str().unwrap().to_string()).collect(),
        None => vec![cfg["action"].as_str().unwrap_or("VerifyOnly").to_string()],
    };
    for act in actions {
        let mut ts = vtranscripts.to_vec();
        let ev0 = env::events_len();
        let w0 = env::work();
        let r = catch_unwind(AssertUnwindSafe(|| RangeProof::verify_batch(&mut ts, statements, proofs, action_of(&act))));
        let ev1 = env::events_len();
        let w1 = env::work();
        #[cfg(feature = "model")]
        let logs_after: Vec<u32> = ts.iter().map(|t| t.log_id()).collect();
        #[cfg(not(feature = "model"))]
        let logs_after: Vec<String> = ts
            .iter_mut()
            .map(|t| {
                let mut b = [0u8; 16];
                t.challenge_bytes(b"replay-probe", &mut b);
                env::hex(&b)
            })
            .collect();
        match r {
            Ok(res) => {
                let mut o = json!({"action":act,"result": err_json(&res), "events":[ev0,ev1], "logs_after":logs_after,"work":w1-w0,
                    "reference": reference, "reference_probe": reference_probe});
                if let Ok(masks) = res {
                    o["n_results"] = json!(masks.len());
                    o["masks"] = masks_json(&masks);
                }
                verify_out.push(o);
            },
            Err(_) => verify_out.push(json!({"action":act,"result":"panic","events":[ev0,ev1]})),
        }
    }
    verify_out
}

/// REAL flavour: secrets made of marker bytes, the allocator armed around one operation; reports released blocks that still hold them
#[cfg(not(feature = "model"))]
fn run_zeroize(cfg: &Value) -> Value {
    let marker_scalar = || {
        let mut b = [zscan::MARK; 32];
        b[31] = 0x07;
        Option::<Scalar>::from(Scalar::from_canonical_bytes(b)).unwrap()
    };
    let marker_u64 = u64::from_le_bytes([zscan::MARK; 8]);
    let x = cfg["x"].as_u64().unwrap_or(1) as usize;
    let m = cfg["m"].as_u64().unwrap_or(1) as usize;
    let n = cfg["n"].as_u64().unwrap_or(64) as usize;
    let what = cfg["what"].as_str().unwrap_or("");
    let res: (usize, usize, usize) = match what {
        "opening" => {
            let o = CommitmentOpening::new(marker_u64, (0..x).map(|_| marker_scalar()).collect());
            zscan::arm();
            drop(o);
            zscan::disarm()
        },
        "opening_spare" => {
            // the caller's blinding vector has spare capacity: whatever the constructor does with it must not release a block that still holds it
            let mut r: Vec<Scalar> = Vec::with_capacity(x + 5);
            for _ in 0..x {
                r.push(marker_scalar());
            }
            zscan::arm();
            let o = CommitmentOpening::new(marker_u64, r);
            drop(o);
            zscan::disarm()
        },
        "witness" => {
            let w = RangeWitness::init((0..m).map(|_| CommitmentOpening::new(marker_u64, (0..x).map(|_| marker_scalar()).collect())).collect()).unwrap();
            zscan::arm();
            drop(w);
            zscan::disarm()
        },
        "opening_clone_from" => {
            // an opening object overwritten through clone_from by one with MORE blinding factors (and the other way round): the buffer the old
            // content lived in must be wiped before it is released, whatever way the new content gets in
            let mut small = CommitmentOpening::new(marker_u64, (0..x).map(|_| marker_scalar()).collect());
            let mut large = CommitmentOpening::new(marker_u64, (0..x + 3).map(|_| marker_scalar()).collect());
            let other_large = large.clone();
            let other_small = small.clone();
            zscan::arm();
            small.clone_from(&other_large);
            large.clone_from(&other_small);
            drop(small);
            drop(large);
            zscan::disarm()
        },
        "witness_popped" => {
            // openings (a public field) shortened by moving elements out after construction: the images the moved-out openings leave in the
            // vector's spare capacity (their values) must be wiped before the block is released
            let mut w = RangeWitness::init((0..m).map(|_| CommitmentOpening::new(marker_u64, (0..x).map(|_| marker_scalar()).collect())).collect()).unwrap();
            zscan::arm();
            for _ in 0..(m / 2).max(1).min(m.saturating_sub(1)) {
                let o = w.openings.pop();
                drop(o);
            }
            if cfg["swap_remove"].as_bool().unwrap_or(false) && w.openings.len() > 1 {
                let o = w.openings.swap_remove(0);
                drop(o);
            }
            drop(w);
            zscan::disarm()
        },
        "prove_refused_late" => {
            // a prover call refused because of the LAST opening of an aggregate (its value is below its promise): whatever the prover built from the
            // earlier, valid openings before it got there must not be released unwiped
            let pc = ristretto::create_pedersen_gens_with_extension_degree(ext_degree(x));
            let params = RangeParameters::init(n, m, pc).unwrap();
            let mut openings = Vec::new();
            let mut commitments = Vec::new();
            for _ in 0..m {
                let r: Vec<Scalar> = (0..x).map(|_| marker_scalar()).collect();
                commitments.push(params.pc_gens().commit(&Scalar::from(marker_u64), &r).unwrap());
                openings.push(CommitmentOpening::new(marker_u64, r));
            }
            let promises: Vec<Option<u64>> = (0..m).map(|j| if j + 1 == m { Some(marker_u64 + 1) } else { None }).collect();
            let st = RangeStatement::init(params, commitments, promises, None).unwrap();
            let w = RangeWitness::init(openings).unwrap();
            let mut rng = SymRng::new("sym", "zs");
            let mut t = Transcript::new(b"symx context");
            zscan::arm();
            let p = RistrettoRangeProof::prove_with_rng(&mut t, &st, &w, &mut rng);
            let refused = p.is_err();
            drop(p);
            let r = zscan::disarm();
            assert!(refused);
            r
        },
        "mask" => {
            let mk = ExtendedMask::assign(ext_degree(x), (0..x).map(|_| marker_scalar()).collect()).unwrap();
            zscan::arm();
            drop(mk);
            zscan::disarm()
        },
        "statement" | "prove" | "prove_twice" | "verify_recover" | "verify_recover_fail" | "verify_recover_fail_batch" | "prove_refused_g" | "prove_refused_h" => {
            #[allow(unused_mut)]
            let mut pc = ristretto::create_pedersen_gens_with_extension_degree(ext_degree(x));
            // a prover call that is refused INSIDE the transcript set-up (after the witness checks passed): the compressed form of a generator that is
            // hashed is the identity, while the generator used for the commitments is intact
            if what == "prove_refused_g" {
                pc.g_base_compressed_vec[0] = <curve25519_dalek::ristretto::CompressedRistretto as curve25519_dalek::traits::Identity>::identity();
            }
            if what == "prove_refused_h" {
                pc.h_base_compressed = <curve25519_dalek::ristretto::CompressedRistretto as curve25519_dalek::traits::Identity>::identity();
            }
            let params = RangeParameters::init(n, m, pc).unwrap();
            let seeded = cfg["seeded"].as_bool().unwrap_or(m == 1);
            let mut openings = Vec::new();
            let mut commitments = Vec::new();
            for _ in 0..m {
                let mut r: Vec<Scalar> = (0..x).map(|_| marker_scalar()).collect();
                // zero_last_blinding: a mask whose LAST component is the zero scalar (a legal mask): whatever the verifier does when it meets it,
                // the components recovered before it must not be released unwiped
                if cfg["zero_last_blinding"].as_bool().unwrap_or(false) && x >= 2 {
                    r[x - 1] = Scalar::ZERO;
                }
                commitments.push(params.pc_gens().commit(&Scalar::from(marker_u64), &r).unwrap());
                openings.push(CommitmentOpening::new(marker_u64, r));
            }
            let seed = if seeded { Some(marker_scalar()) } else { None };
            // promise: exercises the minimum-value offset path of the prover (value - promise)
            let promises: Vec<Option<u64>> = (0..m).map(|j| if cfg["promise"].as_bool().unwrap_or(false) && j == 0 { Some(3) } else { None }).collect();
            let st = RangeStatement::init(params, commitments, promises, seed).unwrap();
            let w = RangeWitness::init(openings).unwrap();
            if what == "statement" {
                // statements living on the heap (a Vec handed to verify_batch, a Box): the inline seed must be cleared before release
                let v = vec![st.clone(), st.clone()];
                let b = Box::new(st);
                zscan::arm();
                drop(v);
                drop(b);
                zscan::disarm()
            } else {
                let mut rng = SymRng::new("sym", "zs");
                let mut t = Transcript::new(b"symx context");
                if what == "prove" {
                    zscan::arm();
                    let p = RistrettoRangeProof::prove_with_rng(&mut t, &st, &w, &mut rng);
                    let r = zscan::disarm();
                    assert!(p.is_ok());
                    r
                } else if what == "prove_twice" {
                    // the same statement / witness objects used for two proofs and a recovering verification, then dropped: whatever an object keeps
                    // between calls (memoised bytes, scratch) is released at the end and must be wiped by then
                    zscan::arm();
                    let p1 = RistrettoRangeProof::prove_with_rng(&mut t, &st, &w, &mut rng);
                    let mut t2 = Transcript::new(b"symx context");
                    let p2 = RistrettoRangeProof::prove_with_rng(&mut t2, &st, &w, &mut rng);
                    let ok = p1.is_ok() && p2.is_ok();
                    let mut ts = vec![Transcript::new(b"symx context"), Transcript::new(b"symx context")];
                    let masks = RangeProof::verify_batch(&mut ts, &[st.clone(), st.clone()], &[p1.unwrap(), p2.unwrap()], VerifyAction::RecoverAndVerify);
                    let ok = ok && masks.is_ok();
                    drop(masks);
                    drop(w);
                    drop(st);
                    let r = zscan::disarm();
                    assert!(ok);
                    return json!({"what": what, "freed_blocks": r.0, "dirty_blocks": r.1, "a_dirty_block_size": r.2});
                } else if what == "prove_refused_g" || what == "prove_refused_h" {
                    zscan::arm();
                    let p = RistrettoRangeProof::prove_with_rng(&mut t, &st, &w, &mut rng);
                    let refused = p.is_err();
                    drop(p);
                    let r = zscan::disarm();
                    assert!(refused);
                    r
                } else if what == "verify_recover_fail" || what == "verify_recover_fail_batch" {
                    // a recovering verification that FAILS after the mask was recovered: r1 does not enter the challenges or the recovery,
                    // so the true mask is computed before the proof is refused (alone, and as the later member of a batch after a good one)
                    let p = RistrettoRangeProof::prove_with_rng(&mut t, &st, &w, &mut rng).unwrap();
                    let mut bytes = p.to_bytes();
                    let off = 1 + 32 * (x + 3);
                    let mut b = [0u8; 32];
                    b.copy_from_slice(&bytes[off..off + 32]);
                    let r1 = Option::<Scalar>::from(Scalar::from_canonical_bytes(b)).unwrap() + Scalar::ONE;
                    bytes[off..off + 32].copy_from_slice(r1.as_bytes());
                    let bad = RistrettoRangeProof::from_bytes(&bytes).unwrap();
                    let (mut ts, sts, ps) = if what == "verify_recover_fail" {
                        (vec![Transcript::new(b"symx context")], vec![st.clone()], vec![bad])
                    } else {
                        (vec![Transcript::new(b"symx context"), Transcript::new(b"symx context")], vec![st.clone(), st.clone()], vec![p, bad])
                    };
                    zscan::arm();
                    let r = RangeProof::verify_batch(&mut ts, &sts, &ps, VerifyAction::RecoverAndVerify);
                    let failed = r.is_err();
                    drop(r);
                    let res = zscan::disarm();
                    assert!(failed);
                    res
                } else {
                    let p = RistrettoRangeProof::prove_with_rng(&mut t, &st, &w, &mut rng).unwrap();
                    let mut ts = vec![Transcript::new(b"symx context")];
                    zscan::arm();
                    let r = RangeProof::verify_batch(&mut ts, &[st.clone()], &[p], VerifyAction::RecoverAndVerify);
                    drop(r);
                    zscan::disarm()
                }
            }
        },
        _ => (0, 0, 0),
    };
    json!({"what": what, "freed_blocks": res.0, "dirty_blocks": res.1, "a_dirty_block_size": res.2})
}

fn hook_json() -> Value {
    #[cfg(feature = "model")]
    {
        hook::to_json()
    }
    #[cfg(not(feature = "model"))]
    {
        Value::Null
    }
}

fn dispatch(cfg: &Value) -> Value {
    match cfg["scenario"].as_str().unwrap_or("batch") {
        "batch" => run_batch(cfg),
        "codec" => codec::run_codec(cfg),
        "adversarial" => codec::run_adversarial(cfg),
        "odd_statement" => codec::run_odd_statement(cfg),
        "ctor" => codec::run_ctor(cfg),
        "gens" => codec::run_gens(cfg),
        "history" => run_history(cfg),
        #[cfg(not(feature = "model"))]
        "zeroize" => run_zeroize(cfg),
        #[cfg(not(feature = "model"))]
        "threads" => run_threads(cfg),
        other => json!({"error": format!("unknown scenario {}", other)}),
    }
}

/// C18: a sequence of calls in ONE process (one address space, one set of statics / caches / thread-locals): every step is an ordinary
/// scenario; the outputs of all steps are returned so that a step can be compared with the same step run first in a fresh process
fn run_history(cfg: &Value) -> Value {
    let mut outs = Vec::new();
    for st in cfg["steps"].as_array().cloned().unwrap_or_default() {
        let ev0 = env::events_len();
        let o = match catch_unwind(AssertUnwindSafe(|| dispatch(&st))) {
            Ok(o) => o,
            Err(_) => json!({"panic": true}),
        };
        outs.push(json!({"out": o, "events": [ev0, env::events_len()]}));
    }
    json!({"steps": outs})
}

/// C18, REAL flavour only (concrete companion, decides nothing on its own): the same deterministic call made by `threads` threads that are
/// released together by a barrier, so that the first use of every lazily initialised static and of the shared parameter object races;
/// every thread's bytes are compared with the bytes of the first one, over `rounds` rounds in this process (only round 0 races the statics)
#[cfg(not(feature = "model"))]
fn run_threads(cfg: &Value) -> Value {
    use std::sync::{Arc, Barrier};
    let nthreads = cfg["threads"].as_u64().unwrap_or(8) as usize;
    let rounds = cfg["rounds"].as_u64().unwrap_or(4) as usize;
    // `steps`: thread t runs steps[t % len] (calls with DIFFERENT arguments race the first use of whatever they share); `step`: all the same
    let steps: Vec<Value> = match cfg["steps"].as_array() {
        Some(a) if !a.is_empty() => a.clone(),
        _ => vec![cfg["step"].clone()],
    };
    let pick = |o: &Value| json!({"prove": o["prove"], "verify": o["verify"], "verify_each": o["verify_each"], "gens": o["gens"], "gi": o["gi"], "hi": o["hi"], "g": o["g"], "h": o["h"],
        "g_compressed_accessor": o["g_compressed_accessor"], "precomp_units": o["precomp_units"], "panic": o["panic"]});
    let mut diffs = Vec::new();
    let mut reference: Vec<Option<String>> = vec![None; steps.len()];
    for round in 0..rounds {
        let barrier = Arc::new(Barrier::new(nthreads));
        let handles: Vec<_> = (0..nthreads)
            .map(|t| {
                let b = barrier.clone();
                let st = steps[t % steps.len()].clone();
                std::thread::spawn(move || {
                    b.wait();
                    match catch_unwind(AssertUnwindSafe(|| dispatch(&st))) {
                        Ok(o) => o,
                        Err(_) => json!({"panic": true}),
                    }
                })
            })
            .collect();
        for (ti, h) in handles.into_iter().enumerate() {
            let got = match h.join() {
                Ok(o) => pick(&o).to_string(),
                Err(_) => "thread panicked".to_string(),
            };
            let k = ti % steps.len();
            match &reference[k] {
                None => reference[k] = Some(got),
                Some(r) => {
                    if *r != got && diffs.len() < 4 {
                        diffs.push(json!({"round": round, "thread": ti, "step": k, "reference": r.chars().take(600).collect::<String>(), "got": got.chars().take(600).collect::<String>()}));
                    }
                },
            }
        }
    }
    // after the races: every step once more, sequentially, in this process (what a racing initialisation left behind serves later calls)
    let after: Vec<Value> = steps
        .iter()
        .map(|st| match catch_unwind(AssertUnwindSafe(|| dispatch(st))) {
            Ok(o) => pick(&o),
            Err(_) => json!({"panic": true}),
        })
        .collect();
    json!({"threads": nthreads, "rounds": rounds, "differences": diffs, "reference": reference[0], "references": reference, "after": after})
}

fn main() {
    let arg = std::env::args().nth(1).expect("scenario json");
    let cfg: Value = if let Some(path) = arg.strip_prefix('@') {
        serde_json::from_str(&std::fs::read_to_string(path).expect("read scenario")).expect("json")
    } else {
        serde_json::from_str(&arg).expect("json")
    };
    env::install_panic_hook();
    let out = dispatch(&cfg);
    println!("{}", json!({"flavour": env::FLAVOUR, "config": cfg, "out": out, "core": env::dump()}));
}
