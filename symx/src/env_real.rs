//! environment layer, REAL flavour (replay crate): the same scenarios on the real curve25519-dalek /
//! merlin / blake2 / sha3 with pseudo-random concrete values derived from names and VERIF_SEED
use curve25519_dalek::{ristretto::RistrettoPoint, scalar::Scalar};
use rand_core::{CryptoRng, RngCore};
use serde_json::{json, Value};

pub const FLAVOUR: &str = "real";

pub fn seed() -> u64 {
    std::env::var("VERIF_SEED").ok().and_then(|s| s.parse::<u64>().ok()).unwrap_or(1)
}
fn expand(name: &str, out: &mut [u8]) {
    let mut h = seed().wrapping_mul(0x100000001b3) ^ 0xcbf29ce484222325;
    for b in name.bytes() {
        h = (h ^ b as u64).wrapping_mul(0x100000001b3);
    }
    let mut s = h;
    for chunk in out.chunks_mut(8) {
        s = s.wrapping_add(0x9e3779b97f4a7c15);
        let mut z = s;
        z = (z ^ (z >> 30)).wrapping_mul(0xbf58476d1ce4e5b9);
        z = (z ^ (z >> 27)).wrapping_mul(0x94d049bb133111eb);
        z ^= z >> 31;
        let l = chunk.len();
        chunk.copy_from_slice(&z.to_le_bytes()[..l]);
    }
}
pub fn sym_scalar(name: &str, _kind: &str) -> Scalar {
    let mut b = [0u8; 64];
    expand(name, &mut b);
    Scalar::from_bytes_mod_order_wide(&b)
}
pub fn seed_variant_topbyte(s: &Scalar, _idx: usize) -> Scalar {
    let mut b = s.to_bytes();
    b[31] = (b[31] ^ 0x01) & 0x0f;
    Option::<Scalar>::from(Scalar::from_canonical_bytes(b)).unwrap_or_else(|| {
        b[31] = 0;
        Scalar::from_bytes_mod_order(b)
    })
}
pub fn noncanonical_encoding_of(cur: &[u8; 32], _name: &str) -> [u8; 32] {
    // value + l as a 256-bit little-endian integer (fits: value < l < 2^253)
    const L: [u8; 32] = [
        0xed, 0xd3, 0xf5, 0x5c, 0x1a, 0x63, 0x12, 0x58, 0xd6, 0x9c, 0xf7, 0xa2, 0xde, 0xf9, 0xde, 0x14, 0, 0, 0, 0, 0, 0, 0, 0, 0, 0, 0, 0, 0, 0, 0, 0x10,
    ];
    let mut out = [0u8; 32];
    let mut carry = 0u16;
    for i in 0..32 {
        let t = cur[i] as u16 + L[i] as u16 + carry;
        out[i] = t as u8;
        carry = t >> 8;
    }
    out
}
pub fn free_point(name: &str) -> RistrettoPoint {
    let mut b = [0u8; 64];
    expand(&format!("point:{}", name), &mut b);
    RistrettoPoint::from_uniform_bytes(&b)
}
pub fn hex(b: &[u8]) -> String {
    b.iter().map(|x| format!("{:02x}", x)).collect()
}
pub fn scalar_id(s: &Scalar) -> Value {
    json!(hex(s.as_bytes()))
}
pub fn point_id(p: &RistrettoPoint) -> Value {
    json!(hex(p.compress().as_bytes()))
}
pub fn hex32(b: &[u8; 32]) -> String {
    b.iter().map(|x| format!("{:02x}", x)).collect()
}
pub fn events_len() -> usize {
    0
}
pub fn work() -> u64 {
    0
}
pub fn new_elem(is_point: bool, name: &str) -> ([u8; 32], Value) {
    let b = if is_point { free_point(name).compress().to_bytes() } else { sym_scalar(name, "elem").to_bytes() };
    (b, json!(hex(&b)))
}
pub fn mark_undecodable(_b: &[u8; 32]) -> [u8; 32] {
    [0xff; 32]
}
pub fn mark_noncanonical(_b: &[u8; 32]) -> [u8; 32] {
    [0xff; 32]
}
pub fn register_u64(_name: &str, _kind: &str, _concrete: u64, _meta: Value) -> bool {
    true
}
pub fn set_forced(_list: &Value) {}
pub fn layout(bytes: &[u8]) -> Value {
    json!({"len": bytes.len(), "hex": hex(bytes)})
}
pub fn dump() -> Value {
    Value::Null
}
pub fn install_panic_hook() {
    std::panic::set_hook(Box::new(|_| {}));
}

pub struct SymRng {
    name: String,
    ctr: u32,
    model: String,
}
impl SymRng {
    pub fn new(model: &str, name: &str) -> SymRng {
        let name = if model == "period2" { "period2-device" } else { name };
        SymRng { name: name.to_string(), ctr: 0, model: model.to_string() }
    }
    pub fn replay(&self) -> SymRng {
        SymRng { name: self.name.clone(), ctr: 0, model: self.model.clone() }
    }
}
impl RngCore for SymRng {
    fn next_u32(&mut self) -> u32 {
        self.next_u64() as u32
    }
    fn next_u64(&mut self) -> u64 {
        let mut b = [0u8; 8];
        self.fill_bytes(&mut b);
        u64::from_le_bytes(b)
    }
    fn fill_bytes(&mut self, dest: &mut [u8]) {
        match self.model.as_str() {
            "zero" => dest.iter_mut().for_each(|x| *x = 0),
            "const" => dest.iter_mut().for_each(|x| *x = 0x42),
            m => {
                let ctr = if m == "period2" { self.ctr % 2 } else { self.ctr };
                self.ctr += 1;
                expand(&format!("rng:{}:{}", self.name, ctr), dest);
            },
        }
    }
    fn try_fill_bytes(&mut self, dest: &mut [u8]) -> Result<(), rand_core::Error> {
        self.fill_bytes(dest);
        Ok(())
    }
}
impl CryptoRng for SymRng {}
