#!/bin/bash
# builds the harness crates once (offline); every check rebuilds incrementally from /repo's working tree
cd "$(dirname "$0")"
V="$(pwd)"
export CARGO_NET_OFFLINE=true
set -e
(cd symx && CARGO_TARGET_DIR="$V/.build/symx" RUSTFLAGS="--cfg bpp_verif" cargo build --quiet)
(cd replay && CARGO_TARGET_DIR="$V/.build/replay" RUSTFLAGS="" cargo build --quiet)
(cd kani && RUSTFLAGS="--cfg bpp_verif" timeout 900 cargo kani -Z stubbing --target-dir "$V/.build/kani" --only-codegen >/dev/null 2>&1 || true)
echo setup-ok
