#!/bin/bash
# builds the harness crates once (offline); every check rebuilds incrementally from /repo's working tree
cd "$(dirname "$0")"
export CARGO_NET_OFFLINE=true
set -e
(cd symx && CARGO_TARGET_DIR=/verif/.build/symx RUSTFLAGS="--cfg bpp_verif" cargo build --quiet)
(cd replay && CARGO_TARGET_DIR=/verif/.build/replay RUSTFLAGS="" cargo build --quiet)
echo setup-ok
