#!/usr/bin/env python3
"""tools/dbg_clone.py <patch> <dir>: a patched scratch worktree of /repo HEAD + a copy of /verif pointing at it, kept for debugging
(remove with: git -C /repo worktree remove --force <dir>/repo; rm -rf <dir>)"""
import sys, os
sys.path.insert(0, os.path.dirname(os.path.abspath(__file__)))
import par_matrix as pm
patch, d = os.path.abspath(sys.argv[1]), sys.argv[2]
pm.ROOT = os.path.dirname(d.rstrip('/'))
i = int(os.path.basename(d.rstrip('/')))
os.makedirs(pm.ROOT, exist_ok=True)
# make_clone names the directory w<i>
repo, verif = pm.make_clone(i)
print(pm.sh('git -C %s apply %s' % (repo, patch)).stdout)
print(repo, verif)
