#!/usr/bin/env python3
"""copies the behaviour-preserving refactors written by the sub-agents (/tmp/ben/<id>.out/ben{A,B}.diff) into /verif/benign/<id>-ben{A,B}/
and records what every check answered on them (from the JSON files written by tools/par_matrix.py --out).
usage: tools/assemble_benign.py <bendir> <results.json> [<results.json> ...]     (later files override earlier ones per (patch, check))"""
import json, os, re, shutil, sys, glob

V = os.path.dirname(os.path.dirname(os.path.abspath(__file__)))
bendir, results = sys.argv[1], sys.argv[2:]
TAG = os.environ.get('BEN_TAG', '')      # second wave (API-variation refactors): BEN_TAG=2 -> ids Cxx-ben2A
res = {}
for rf in results:
    for rec in json.load(open(rf)):
        m = re.search(r'/(C\d\d)\.out/(ben[A-Z])\.diff$', rec['patch'])
        if not m:
            continue
        if os.path.dirname(os.path.dirname(rec['patch'])) != os.path.abspath(bendir):
            continue
        sid = '%s-%s' % (m.group(1), m.group(2).replace('ben', 'ben' + TAG))
        if 'error' in rec:
            res.setdefault(sid, {})['_error'] = rec['error']
        for c, v in rec.get('checks', {}).items():
            notes = [l for l in v['lines'] if l.startswith('NOTE')]
            res.setdefault(sid, {})[c] = {'exit': v['exit'], 'engine_m_groups_not_decided': len(notes)}
rows = []
for d in sorted(glob.glob(os.path.join(bendir, 'C??.out'))):
    pid = os.path.basename(d)[:3]
    for diff in sorted(glob.glob(os.path.join(d, 'ben?.diff'))):
        v = os.path.basename(diff)[:-5]
        sid = '%s-%s' % (pid, v.replace('ben', 'ben' + TAG))
        dst = os.path.join(V, 'benign', sid)
        os.makedirs(dst, exist_ok=True)
        shutil.copy(diff, os.path.join(dst, 'patch.diff'))
        if os.path.exists(os.path.join(d, 'notes.md')):
            shutil.copy(os.path.join(d, 'notes.md'), os.path.join(dst, 'author_notes.md'))
        r = res.get(sid, {})
        files = sorted(set(re.findall(r'^\+\+\+ b/(\S+)', open(diff).read(), re.M)))
        nonzero = {c: x['exit'] for c, x in r.items() if not c.startswith('_') and x['exit'] != 0}
        meta = {'id': sid, 'written_for_property': pid, 'kind': 'behaviour-preserving refactor (the property still holds)',
                'written_by': 'independent sub-agent given only the property text and a scratch worktree; asked for a realistic non-trivial rewrite with all observable behaviour unchanged',
                'files': files, 'checks_run': {c: x for c, x in sorted(r.items()) if not c.startswith('_')},
                'expected': 'every check exits 0', 'non_zero_exits': nonzero,
                'what_was_run': 'tools/par_matrix.py (patched scratch worktree of /repo HEAD + a copy of /verif pointing at it; quick tier)'}
        json.dump(meta, open(os.path.join(dst, 'meta.json'), 'w'), indent=1)
        nd = sum(x['engine_m_groups_not_decided'] for c, x in r.items() if not c.startswith('_'))
        rows.append((sid, ', '.join(files), len([c for c in r if not c.startswith('_')]), nonzero, nd))
mpath = os.path.join(V, 'benign', 'MATRIX.md')
keep = []
if TAG and os.path.exists(mpath):
    keep = [l for l in open(mpath).read().splitlines()[2:] if l.strip() and ('-ben' + TAG) not in l.split('|')[1]]
with open(mpath, 'w') as f:
    f.write('| refactor | files | checks run (quick) | non-zero exits | Engine M groups not decided (NOTE) |\n|---|---|---|---|---|\n')
    for l in keep:
        f.write(l + '\n')
    for sid, files, n, nz, nd in rows:
        f.write('| %s | %s | %d | %s | %d |\n' % (sid, files, n, ', '.join('%s: exit %d' % kv for kv in sorted(nz.items())) or 'none', nd))
print('%d refactors, %d with a non-zero exit' % (len(rows), len([r for r in rows if r[3]])))
