#!/usr/bin/env python3
"""records proofs / masks from the CURRENT tree with the real crates (run once on the unchanged tree; the file is the frozen
0.4.0 wire behaviour used to replay layout findings of C13/C19)"""
import sys, os, json
sys.path.insert(0, os.path.join(os.path.dirname(os.path.abspath(__file__)), '..', 'smt'))
from lib import run_replay, VERIF
vec = []
for (n, m, cap, x, seeded) in [(8, 1, 1, 1, True), (64, 1, 1, 1, True), (64, 1, 2, 2, True), (8, 2, 2, 1, False), (4, 4, 8, 3, False), (16, 1, 1, 6, True), (2, 8, 8, 2, False), (32, 2, 2, 1, False)]:
    for rng in ('sym', 'zero'):
        cfg = {'scenario': 'batch', 'n': n, 'x': x, 'members': [{'m': m, 'cap': cap, 'seeded': seeded, 'rng': rng, 'promises': ['3' if n >= 2 else None] + [None] * (m - 1)}],
               'actions': ['RecoverAndVerify']}
        o = run_replay(cfg, 7)
        assert o['prove'][0]['result'] == 'ok' and o['verify'][0]['result'] == 'ok', o
        vec.append({'cfg': cfg, 'seed': 7, 'proof_hex': o['prove'][0]['proof']['hex'], 'masks': o['verify'][0]['masks'], 'a_blind': o['prove'][0]['a_blind']})
json.dump(vec, open(os.path.join(VERIF, 'replay', 'vectors', 'v040.json'), 'w'), indent=0)
print(len(vec), 'vectors recorded')
