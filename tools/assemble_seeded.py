#!/usr/bin/env python3
"""copies the confirmed seeded changes from the sub-agents' output directories into /verif/seeded/<id>/"""
import json, os, re, shutil, glob
V = os.path.dirname(os.path.dirname(os.path.abspath(__file__)))
conf = {}
for l in open('/tmp/confirm_all.log'):
    if l.startswith('{'):
        d = json.loads(l)
        conf[(d['id'], d['mut'])] = d
for l in open('/tmp/confirm_extra.log') if os.path.exists('/tmp/confirm_extra.log') else []:
    if l.startswith('{'):
        d = json.loads(l)
        conf[(d['id'], d['mut'])] = d
needs = json.load(open(os.path.join(V, 'tools', 'seeded_needs.json')))
# ROUND2: second batch of sub-agent changes (written against the repaired tree, told to avoid the first batch)
conf2 = {}
if os.path.exists('/tmp/confirm2_all.log'):
    for l in open('/tmp/confirm2_all.log'):
        if l.startswith('{'):
            d = json.loads(l)
            conf2[(d['id'], d['mut'])] = d
n = 0
for (pid, mut), c in sorted(conf.items()):
    ok = c['applies'] == 'yes' and c['suite_with_change'] == 'pass' and c['demo_with_change'] == 'fail' and c['demo_without_change'] == 'pass'
    if not ok:
        print('skipping (not confirmed):', pid, mut, c)
        continue
    sid = '%s-%s' % (pid, mut)
    dst = os.path.join(V, 'seeded', sid)
    os.makedirs(dst, exist_ok=True)
    src = '/tmp/mut/%s.out' % pid
    if os.path.exists(os.path.join(dst, 'patch.orig.diff')):
        shutil.copy(os.path.join(src, mut + '.diff'), os.path.join(dst, 'patch.orig.diff'))      # rebased onto a later /repo HEAD: patch.diff stays
    else:
        shutil.copy(os.path.join(src, mut + '.diff'), os.path.join(dst, 'patch.diff'))
    shutil.copy(os.path.join(src, mut + '_demo.rs'), os.path.join(dst, 'demo.rs'))
    if os.path.exists(os.path.join(src, 'notes.md')):
        shutil.copy(os.path.join(src, 'notes.md'), os.path.join(dst, 'author_notes.md'))
    meta = {'id': sid, 'breaks_property': pid, 'summary': needs.get(sid, {}).get('summary', ''), 'needs_to_manifest': needs.get(sid, {}).get('needs', ''),
            'written_by': 'independent sub-agent given only the property text and a scratch worktree of the pinned commit',
            'confirmed_here': {'how': 'tools/confirm_seeded.sh %s %s (scratch worktree of /repo HEAD, removed afterwards)' % (pid, mut),
                               'patch_applies_to_repo_head': True, 'existing_suite_with_change': 'pass (26 unit + 4 integration + 1 doc test)',
                               'demo_with_change': 'fails', 'demo_without_change': 'passes'},
            'demo': 'demo.rs is an integration test: copy to /repo/tests/ and run cargo test --offline --test <name>'}
    old = os.path.join(dst, 'meta.json')
    if os.path.exists(old):
        prev = json.load(open(old))
        if 'detected_by' in prev:
            meta['detected_by'] = prev['detected_by']
        if 'rebased' in prev:
            meta['rebased'] = prev['rebased']
    json.dump(meta, open(old, 'w'), indent=1)
    n += 1
for (pid, mut), c in sorted(conf2.items()):
    ok = c['applies'] == 'yes' and c['suite_with_change'] == 'pass' and c['demo_with_change'] == 'fail' and c['demo_without_change'] == 'pass'
    if not ok:
        print('skipping (not confirmed):', pid, mut, c)
        continue
    sid = '%s-r2%s' % (pid, mut[-1])
    dst = os.path.join(V, 'seeded', sid)
    os.makedirs(dst, exist_ok=True)
    src = '/tmp/mut2/%s.out' % pid
    if os.path.exists(os.path.join(dst, 'patch.orig.diff')):
        shutil.copy(os.path.join(src, mut + '.diff'), os.path.join(dst, 'patch.orig.diff'))      # rebased onto a later /repo HEAD: patch.diff stays
    else:
        shutil.copy(os.path.join(src, mut + '.diff'), os.path.join(dst, 'patch.diff'))
    shutil.copy(os.path.join(src, mut + '_demo.rs'), os.path.join(dst, 'demo.rs'))
    if os.path.exists(os.path.join(src, 'notes.md')):
        shutil.copy(os.path.join(src, 'notes.md'), os.path.join(dst, 'author_notes.md'))
    meta = {'id': sid, 'breaks_property': pid, 'summary': needs.get(sid, {}).get('summary', ''), 'needs_to_manifest': needs.get(sid, {}).get('needs', ''),
            'written_by': 'independent sub-agent (second round: told which two changes were already known, asked for a different kind), given only the property text and a scratch worktree',
            'confirmed_here': {'how': 'MUTDIR=/tmp/mut2 tools/confirm_seeded.sh %s %s (scratch worktree of /repo HEAD, removed afterwards)' % (pid, mut),
                               'patch_applies_to_repo_head': True, 'existing_suite_with_change': 'pass (26 unit + 4 integration + 1 doc test)',
                               'demo_with_change': 'fails', 'demo_without_change': 'passes'},
            'demo': 'demo.rs is an integration test: copy to /repo/tests/ and run cargo test --offline --test <name>'}
    old = os.path.join(dst, 'meta.json')
    if os.path.exists(old):
        prev = json.load(open(old))
        if 'detected_by' in prev:
            meta['detected_by'] = prev['detected_by']
        if 'rebased' in prev:
            meta['rebased'] = prev['rebased']
    json.dump(meta, open(old, 'w'), indent=1)
    n += 1

# ROUND3: third batch (told all known changes of the property; asked for different kinds, possibly hidden inside a behaviour-preserving refactor)
conf3 = {}
if os.path.exists('/tmp/confirm3_all.log'):
    for l in open('/tmp/confirm3_all.log'):
        if l.startswith('{'):
            d = json.loads(l)
            conf3[(d['id'], d['mut'])] = d
for (pid, mut), c in sorted(conf3.items()):
    ok = c['applies'] == 'yes' and c['suite_with_change'] == 'pass' and c['demo_with_change'] == 'fail' and c['demo_without_change'] == 'pass'
    if not ok:
        print('skipping (not confirmed):', pid, mut, c)
        continue
    sid = '%s-r3%s' % (pid, mut[-1])
    dst = os.path.join(V, 'seeded', sid)
    os.makedirs(dst, exist_ok=True)
    src = '/tmp/mut3/%s.out' % pid
    if os.path.exists(os.path.join(dst, 'patch.orig.diff')):
        shutil.copy(os.path.join(src, mut + '.diff'), os.path.join(dst, 'patch.orig.diff'))      # rebased onto a later /repo HEAD: patch.diff stays
    else:
        shutil.copy(os.path.join(src, mut + '.diff'), os.path.join(dst, 'patch.diff'))
    shutil.copy(os.path.join(src, mut + '_demo.rs'), os.path.join(dst, 'demo.rs'))
    if os.path.exists(os.path.join(src, 'notes.md')):
        shutil.copy(os.path.join(src, 'notes.md'), os.path.join(dst, 'author_notes.md'))
    meta = {'id': sid, 'breaks_property': pid, 'summary': needs.get(sid, {}).get('summary', ''), 'needs_to_manifest': needs.get(sid, {}).get('needs', ''),
            'written_by': 'independent sub-agent (third round: told every change already known for the property, asked for a different kind, possibly hidden inside a behaviour-preserving refactor), given only the property text and a scratch worktree',
            'confirmed_here': {'how': 'MUTDIR=/tmp/mut3 tools/confirm_seeded.sh %s %s (scratch worktree of /repo HEAD, removed afterwards)' % (pid, mut),
                               'patch_applies_to_repo_head': True, 'existing_suite_with_change': 'pass (26 unit + 4 integration + 1 doc test)',
                               'demo_with_change': 'fails', 'demo_without_change': 'passes'},
            'demo': 'demo.rs is an integration test: copy to /repo/tests/ and run cargo test --offline --test <name>'}
    old = os.path.join(dst, 'meta.json')
    if os.path.exists(old):
        prev = json.load(open(old))
        if 'detected_by' in prev:
            meta['detected_by'] = prev['detected_by']
        if 'rebased' in prev:
            meta['rebased'] = prev['rebased']
    json.dump(meta, open(old, 'w'), indent=1)
    n += 1
# ROUND4: third batch (told all known changes of the property; asked for different kinds, possibly hidden inside a behaviour-preserving refactor)
conf4 = {}
if os.path.exists('/tmp/confirm4_all.log'):
    for l in open('/tmp/confirm4_all.log'):
        if l.startswith('{'):
            d = json.loads(l)
            conf4[(d['id'], d['mut'])] = d
for (pid, mut), c in sorted(conf4.items()):
    ok = c['applies'] == 'yes' and c['suite_with_change'] == 'pass' and c['demo_with_change'] == 'fail' and c['demo_without_change'] == 'pass'
    if not ok:
        print('skipping (not confirmed):', pid, mut, c)
        continue
    sid = '%s-r4%s' % (pid, mut[-1])
    dst = os.path.join(V, 'seeded', sid)
    os.makedirs(dst, exist_ok=True)
    src = '/tmp/mut4/%s.out' % pid
    if os.path.exists(os.path.join(dst, 'patch.orig.diff')):
        shutil.copy(os.path.join(src, mut + '.diff'), os.path.join(dst, 'patch.orig.diff'))      # rebased onto a later /repo HEAD: patch.diff stays
    else:
        shutil.copy(os.path.join(src, mut + '.diff'), os.path.join(dst, 'patch.diff'))
    shutil.copy(os.path.join(src, mut + '_demo.rs'), os.path.join(dst, 'demo.rs'))
    if os.path.exists(os.path.join(src, 'notes.md')):
        shutil.copy(os.path.join(src, 'notes.md'), os.path.join(dst, 'author_notes.md'))
    meta = {'id': sid, 'breaks_property': pid, 'summary': needs.get(sid, {}).get('summary', ''), 'needs_to_manifest': needs.get(sid, {}).get('needs', ''),
            'written_by': 'independent sub-agent (fourth round: told every change already known for the property, asked to place the change outside src/range_proof.rs where possible), given only the property text and a scratch worktree',
            'confirmed_here': {'how': 'MUTDIR=/tmp/mut4 tools/confirm_seeded.sh %s %s (scratch worktree of /repo HEAD, removed afterwards)' % (pid, mut),
                               'patch_applies_to_repo_head': True, 'existing_suite_with_change': 'pass (26 unit + 4 integration + 1 doc test)',
                               'demo_with_change': 'fails', 'demo_without_change': 'passes'},
            'demo': 'demo.rs is an integration test: copy to /repo/tests/ and run cargo test --offline --test <name>'}
    old = os.path.join(dst, 'meta.json')
    if os.path.exists(old):
        prev = json.load(open(old))
        if 'detected_by' in prev:
            meta['detected_by'] = prev['detected_by']
        if 'rebased' in prev:
            meta['rebased'] = prev['rebased']
    json.dump(meta, open(old, 'w'), indent=1)
    n += 1
# ROUND5: third batch (told all known changes of the property; asked for different kinds, possibly hidden inside a behaviour-preserving refactor)
conf5 = {}
if os.path.exists('/tmp/confirm5_all.log'):
    for l in open('/tmp/confirm5_all.log'):
        if l.startswith('{'):
            d = json.loads(l)
            conf5[(d['id'], d['mut'])] = d
for (pid, mut), c in sorted(conf5.items()):
    ok = c['applies'] == 'yes' and c['suite_with_change'] == 'pass' and c['demo_with_change'] == 'fail' and c['demo_without_change'] == 'pass'
    if not ok:
        print('skipping (not confirmed):', pid, mut, c)
        continue
    sid = '%s-r5%s' % (pid, mut[-1])
    dst = os.path.join(V, 'seeded', sid)
    os.makedirs(dst, exist_ok=True)
    src = '/tmp/mut5/%s.out' % pid
    if os.path.exists(os.path.join(dst, 'patch.orig.diff')):
        shutil.copy(os.path.join(src, mut + '.diff'), os.path.join(dst, 'patch.orig.diff'))      # rebased onto a later /repo HEAD: patch.diff stays
    else:
        shutil.copy(os.path.join(src, mut + '.diff'), os.path.join(dst, 'patch.diff'))
    shutil.copy(os.path.join(src, mut + '_demo.rs'), os.path.join(dst, 'demo.rs'))
    if os.path.exists(os.path.join(src, 'notes.md')):
        shutil.copy(os.path.join(src, 'notes.md'), os.path.join(dst, 'author_notes.md'))
    meta = {'id': sid, 'breaks_property': pid, 'summary': needs.get(sid, {}).get('summary', ''), 'needs_to_manifest': needs.get(sid, {}).get('needs', ''),
            'written_by': 'independent sub-agent (fifth round: told every change already known for the property, asked for a SELF-CONSISTENT change (prover and verifier changed together so that the library still accepts its own proofs)), given only the property text and a scratch worktree',
            'confirmed_here': {'how': 'MUTDIR=/tmp/mut5 tools/confirm_seeded.sh %s %s (scratch worktree of /repo HEAD, removed afterwards)' % (pid, mut),
                               'patch_applies_to_repo_head': True, 'existing_suite_with_change': 'pass (26 unit + 4 integration + 1 doc test)',
                               'demo_with_change': 'fails', 'demo_without_change': 'passes'},
            'demo': 'demo.rs is an integration test: copy to /repo/tests/ and run cargo test --offline --test <name>'}
    old = os.path.join(dst, 'meta.json')
    if os.path.exists(old):
        prev = json.load(open(old))
        if 'detected_by' in prev:
            meta['detected_by'] = prev['detected_by']
        if 'rebased' in prev:
            meta['rebased'] = prev['rebased']
    json.dump(meta, open(old, 'w'), indent=1)
    n += 1
print(n, 'seeded changes assembled')
