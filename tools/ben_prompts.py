#!/usr/bin/env python3
"""writes the prompts for the behaviour-preserving-refactor sub-agents (false-alarm test of the checks) to /tmp/ben/<id>.prompt.txt
usage: tools/ben_prompts.py [outdir]   (each sub-agent gets ONLY its prompt: property text + its own scratch worktree)"""
import json, os, sys

OUT = sys.argv[1] if len(sys.argv) > 1 else '/tmp/ben'
T = """You are helping test a verification effort by playing the role of a maintainer who makes a BEHAVIOUR-PRESERVING refactor / optimisation / clean-up of a Rust library. The goal is to find out whether an automated checker raises FALSE ALARMS on correct code, so your change must keep the library correct.

The library is tari-project/bulletproofs-plus (Bulletproofs+ range proofs over Ristretto). You have your OWN scratch git worktree of it at @OUT@/@ID@ (detached HEAD of the pinned commit). Work ONLY inside @OUT@/@ID@ and write your deliverables to @OUT@/@ID@.out/. Do NOT touch /repo or /verif and do not read anything under /verif. Do NOT use `git stash` (the stash is shared between all worktrees of the repository, other people are working in sibling worktrees): to set work aside, save it with `git diff > file` and restore with `git apply`. The sandbox is offline: always build with `cargo ... --offline` (all dependencies are in the cargo cache).

The library satisfies this semantic property, and must STILL satisfy it after your change:

-----
@ID@ — @TITLE@

Statement: @STATEMENT@

Quantifier: @QUANT@

Code it is anchored in: @ANCHORS@
-----

YOUR TASK: produce TWO independent, different source changes (call them benA and benB) to the library's src/ (not to tests), each a NON-TRIVIAL rewrite of code that implements the behaviour described above (touch the functions the property is anchored in), such that
  (1) the crate compiles and the existing test suite passes completely: `cargo test --offline` in the worktree (unit tests, tests/ristretto.rs, doc tests). Do not edit tests.
  (2) ALL externally observable behaviour is unchanged for every input: same accept/reject decision, same error variant AND the same error message text for every failing input, same proof bytes for the same inputs and RNG stream, same transcript contents (labels, order, lengths), same generator derivation, same recovered masks, same order in which the RNG is consumed, same zeroization guarantees, no new panics. The property above, and every other documented behaviour, still holds.
  (3) it is REALISTIC and substantial — what a maintainer would do for readability or speed: restructure a loop (iterator chain <-> indexed loop, split or fuse loops), extract a helper function or inline one, reorder INDEPENDENT computations, replace an arithmetic expression by an algebraically equivalent one (factor out a common product, precompute an inverse, compute powers differently, use a batch inversion or a different summation order), reformulate a guard as an equivalent condition (e.g. checked arithmetic vs comparison, `!=` chains vs iterator `any`), change a temporary container type or capacity reservation, rename locals. Aim for 20-80 changed lines. Not a whitespace / comment change.
  benA and benB should differ in kind and location.
  Be careful to REALLY preserve behaviour in the corner cases (boundary bit lengths 1 and 64, aggregation up to the generator capacity, capacity larger than the aggregation factor, extension degree 1..6, batches, all three verification modes VerifyOnly / RecoverOnly / RecoverAndVerify, malformed proofs, overflowing sizes): a change that subtly alters behaviour is useless for this exercise. If you are unsure whether an edit preserves behaviour in some corner, do not make that edit.

Deliver, in @OUT@/@ID@.out/:
  - benA.diff / benB.diff: unified diffs produced by `git diff` in the worktree (relative to the pinned HEAD, applying with `git apply` at the repository root). Each diff must stand alone.
  - notes.md: for each change: what it rewrites, the argument why behaviour is preserved for every input (including the corner cases above), and the exact commands you ran with their outcomes (the full existing test suite passes).
Procedure: for each change, start from a clean worktree (`git checkout -- . && git clean -fd -e target`), apply, run the full test suite. Finally leave the worktree clean (only target/ may remain). The tree already contains three maintainer fixes relative to the release (batch chunk loop, nonce() seed copy, generator-count check in the batch consistency function) and a cfg-guarded hook (`#[cfg(bpp_verif)]`, inactive in normal builds): keep those as they are (you may move the hook call along with the code around it, but do not delete it). Reply with a short summary of the two changes when done.
"""
here = os.path.dirname(os.path.abspath(__file__))
for l in open(os.path.join(here, '..', 'properties.jsonl')):
    d = json.loads(l)
    pid = d['id']
    if pid == 'C18' and '--with-c18' not in sys.argv:
        continue
    t = (T.replace('@OUT@', OUT).replace('@ID@', pid).replace('@TITLE@', d['title']).replace('@STATEMENT@', d['statement'])
         .replace('@QUANT@', d['quantifier']['text']).replace('@ANCHORS@', json.dumps(d['anchors'])))
    os.makedirs(os.path.join(OUT, pid + '.out'), exist_ok=True)
    open(os.path.join(OUT, pid + '.prompt.txt'), 'w').write(t)
print('prompts written to', OUT)
