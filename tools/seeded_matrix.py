#!/usr/bin/env python3
"""runs the property's own quick check (and extra checks named on the command line as Cxx=seedid,...) against every seeded change;
applies each patch to /repo and undoes it straight afterwards. Writes seeded/MATRIX.json and the markdown table for DESIGN.md."""
import json, os, subprocess, sys, glob, re, time
V = os.path.dirname(os.path.dirname(os.path.abspath(__file__)))
ALSO = {'C01-mutB': ['C06'], 'C02-mutA': ['C08', 'C03'], 'C02-mutB': ['C04'], 'C03-mutA': ['C08'], 'C04-mutB': ['C19'], 'C07-mutA': ['C04'], 'C10-mutA': ['C05'], 'C10-mutB': ['C13'],
        'C13-mutB': ['C14'], 'C14-mutB': ['C04'], 'C16-mutB': ['C17'], 'C19-mutA': ['C11'], 'C19-mutB': ['C12'], 'C05-mutB': ['C10'],
        'C02-r2B': ['C08'], 'C04-r2A': ['C05'], 'C05-r2A': ['C15'], 'C05-r2C': ['C16'], 'C07-r2A': ['C06'], 'C14-r2A': ['C13'], 'C19-r2A': ['C11'], 'C19-r2B': ['C13'], 'C04-r2B': ['C19']}
only = set(sys.argv[1:])
res = json.load(open(os.path.join(V, 'seeded', 'MATRIX.json'))) if os.path.exists(os.path.join(V, 'seeded', 'MATRIX.json')) else {}
for d in sorted(glob.glob(os.path.join(V, 'seeded', 'C*-*'))):
    sid = os.path.basename(d)
    if only and sid not in only:
        continue
    prop = sid.split('-')[0]
    patch = os.path.join(d, 'patch.diff')
    if subprocess.run(['git', '-C', '/repo', 'diff', '--quiet']).returncode != 0:
        sys.exit('/repo is not clean')
    if subprocess.run(['git', '-C', '/repo', 'apply', patch]).returncode != 0:
        if subprocess.run(['git', '-C', '/repo', 'apply', '--3way', patch]).returncode != 0:
            res[sid] = {'error': 'patch does not apply'}
            continue
        subprocess.run(['git', '-C', '/repo', 'reset', '-q'])
    try:
        row = {}
        for c in [prop] + ALSO.get(sid, []):
            t0 = time.time()
            r = subprocess.run(['./check', c, '--tier', 'quick'], cwd=V, stdout=subprocess.PIPE, stderr=subprocess.STDOUT, text=True)
            viol = [l for l in r.stdout.splitlines() if l.startswith('VIOLATION')]
            what = [l.strip() for l in r.stdout.splitlines() if l.strip().startswith('what:')]
            row[c] = {'exit': r.returncode, 'violation': bool(viol), 'first': (what[0][:240] if what else ''), 'wall_s': round(time.time() - t0, 1)}
            print(sid, c, row[c]['exit'], row[c]['first'][:120], flush=True)
        res[sid] = row
    finally:
        subprocess.run(['git', '-C', '/repo', 'checkout', '--', '.'])
        subprocess.run(['git', '-C', '/repo', 'clean', '-fdq', '-e', 'target'])
    json.dump(res, open(os.path.join(V, 'seeded', 'MATRIX.json'), 'w'), indent=1)
    meta_p = os.path.join(d, 'meta.json')
    meta = json.load(open(meta_p))
    meta['detected_by'] = {c: ('VIOLATION (exit 1)' if v['exit'] == 1 else 'exit %d' % v['exit']) for c, v in res[sid].items()} if 'error' not in res[sid] else res[sid]
    meta['what_was_run'] = 'git -C /repo apply patch.diff; ./check <property> --tier quick; git -C /repo checkout -- .'
    json.dump(meta, open(meta_p, 'w'), indent=1)
# table
needs = json.load(open(os.path.join(V, 'tools', 'seeded_needs.json')))
lines = ['| seeded change | what it does | own check (quick) | also caught by |', '|---|---|---|---|']
for sid in sorted(res):
    row = res[sid]
    if 'error' in row:
        lines.append('| %s | %s | %s | |' % (sid, needs.get(sid, {}).get('summary', ''), row['error']))
        continue
    prop = sid.split('-')[0]
    own = row.get(prop, {})
    also = ', '.join('%s (exit %d)' % (c, v['exit']) for c, v in row.items() if c != prop)
    lines.append('| %s | %s | %s | %s |' % (sid, needs.get(sid, {}).get('summary', ''), 'VIOLATION, exit 1' if own.get('exit') == 1 else 'exit %s' % own.get('exit'), also))
open(os.path.join(V, 'seeded', 'MATRIX.md'), 'w').write('\n'.join(lines) + '\n')
print('\n'.join(lines))
