#!/bin/bash
# usage: tools/mut_test.sh <patch.diff> <tier> <Cxx> [<Cyy> ...]
# applies a seeded change to /repo, runs the listed checks, and undoes it straight afterwards
patch="$1"; tier="$2"; shift 2
cd /repo || exit 9
if ! git diff --quiet; then echo "/repo has uncommitted changes"; exit 9; fi
git apply "$patch" 2>/dev/null || git apply --3way "$patch" 2>/dev/null || { echo "patch does not apply"; exit 9; }
git reset -q 2>/dev/null
trap 'git -C /repo checkout -- . ; git -C /repo clean -fdq -e target' EXIT
for p in "$@"; do
  echo "=== $p ($tier) with $(basename $(dirname $patch))/$(basename $patch)"
  (cd /verif && ./check "$p" --tier "$tier" 2>&1 | tail -${MUT_TAIL:-6}; echo "exit=${PIPESTATUS[0]}")
done
