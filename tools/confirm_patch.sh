#!/bin/bash
# usage: tools/confirm_patch.sh <seeded-id>  — re-confirms seeded/<id>/patch.diff + demo.rs against the CURRENT /repo HEAD in a scratch worktree
# (applies, existing suite passes with it, demo fails with it, demo passes without it); prints one JSON line; removes the worktree.
id="$1"; V="$(cd "$(dirname "$0")/.." && pwd)"
wt=${CONFDIR:-/tmp/confirm_re}/$id
mkdir -p ${CONFDIR:-/tmp/confirm_re}
git -C /repo worktree remove --force "$wt" 2>/dev/null
git -C /repo worktree add -q --detach "$wt" HEAD || exit 9
cd "$wt" || exit 9
export CARGO_NET_OFFLINE=true CARGO_TARGET_DIR="$wt/target"
applies=no; suite=unknown; demo_with=unknown; demo_without=unknown
if git apply "$V/seeded/$id/patch.diff" 2>/dev/null; then applies=yes; fi
if [ $applies = yes ]; then
  if cargo test --offline > "$wt.suite.log" 2>&1; then suite=pass; else suite=FAIL; fi
  cp "$V/seeded/$id/demo.rs" tests/seeded_demo.rs
  if timeout 1500 cargo test --offline --test seeded_demo > "$wt.demo_with.log" 2>&1; then demo_with=pass; else demo_with=fail; fi
  git checkout -q -- src Cargo.toml 2>/dev/null
  if timeout 1500 cargo test --offline --test seeded_demo > "$wt.demo_without.log" 2>&1; then demo_without=pass; else demo_without=fail; fi
fi
echo "{\"id\":\"$id\",\"head\":\"$(git -C /repo rev-parse --short HEAD)\",\"applies\":\"$applies\",\"suite_with_change\":\"$suite\",\"demo_with_change\":\"$demo_with\",\"demo_without_change\":\"$demo_without\"}"
cd /; git -C /repo worktree remove --force "$wt"; rm -rf "$wt"
