#!/usr/bin/env python3
"""writes the prompts for the property-breaking sub-agents (round N) to <outdir>/<id>.prompt.txt
usage: tools/mut_prompts.py <outdir>     e.g. /tmp/mut3
Each sub-agent gets ONLY its prompt (property text, its own scratch worktree, and one-line summaries of the changes already known
for that property so that it looks for a different kind); nothing from /verif."""
import json, os, sys, glob

OUT = sys.argv[1]
here = os.path.dirname(os.path.abspath(__file__))
V = os.path.dirname(here)
PRE = 'You are helping test a verification effort by playing the role of a developer who introduces a subtle regression into a Rust library.\n\nThe library is tari-project/bulletproofs-plus (Bulletproofs+ range proofs over Ristretto). You have your OWN scratch git worktree of it at /tmp/mut2/C05 (detached HEAD of the pinned commit). Work ONLY inside /tmp/mut2/C05 and write your deliverables to /tmp/mut2/C05.out/. Do NOT touch /repo or /verif and do not read anything under /verif. Do NOT use `git stash` (the stash is shared between all worktrees of the repository, other people are working in sibling worktrees): to set work aside, save it with `git diff > file` and restore with `git apply`. The sandbox is offline: always build with `cargo ... --offline` (all dependencies are already vendored in the cargo cache). Use `CARGO_TARGET_DIR=/tmp/mut2/C05/target` (the default inside the worktree is fine).\n\nThe library is supposed to satisfy this semantic property:\n\n-----\n'
POST = '-----\n\nYOUR TASK: produce TWO independent, different source changes (call them mutA and mutB) to the library\'s src/ (not to tests) each of which BREAKS this property, while\n  (1) the crate still compiles, and\n  (2) the existing test suite still passes completely with the change applied: `cargo test --offline` in the worktree (unit tests in src/, tests/ristretto.rs and doc tests) — all green. Do not edit, delete or weaken any existing test.\n  (3) the change is REALISTIC — something a maintainer could plausibly write during a refactor, optimisation or "clean-up" (an off-by-one, a dropped term, a wrong index, a swapped argument, a truncating cast, a missed loop iteration, a check moved or weakened, a label or order changed, a term absorbed in the wrong place, a cached value reused where it should be recomputed, ...). No `if input == magic` back doors, no random behaviour, no cfg tricks.\n  (4) it needs SOMETHING SPECIFIC TO MANIFEST — e.g. an unusual input or configuration (a particular aggregation factor / extension degree / bit length / capacity / batch size / position within an aggregate or a batch / boundary value), a multi-step sequence of operations, or two cooperating sites that each look fine alone — rather than something that ordinary use exposes at once. Prefer changes where the everyday paths (single 64-bit proof, extension degree 1, batch of 1–2) keep working.\n  mutA and mutB should differ in kind and location (do not make both variants of the same edit).\n\nFor EACH of the two changes deliver, in /tmp/mut2/C05.out/:\n  - mutA.diff / mutB.diff: a unified diff produced by `git diff` in the worktree (relative to the pinned HEAD, applying with `git apply` at the repository root). Each diff must stand alone (apply to a clean tree without the other).\n  - mutA_demo.rs / mutB_demo.rs: a demonstration — a self-contained Rust integration test file (to be dropped into the crate\'s tests/ directory and run with `cargo test --offline --test <name>`) that PASSES on the unchanged tree and FAILS with the change applied, and which shows the property violation through the public API (real Ristretto types; `rand_chacha` is available as a dev-dependency for deterministic RNGs; `bincode` too). Keep it reasonably fast (< 2 min).\n  - notes.md: for each change: what it does, why it breaks the property, what specifically is needed for it to manifest, and the exact commands you ran with their outcomes (existing tests pass with the change; demo passes without / fails with the change).\n\nProcedure you must follow and report on: for each change, starting from a clean worktree (`git checkout -- . && git clean -fd -e target`): apply it, run the full existing test suite (must pass), copy in the demo and run it (must fail); then revert the src change and run the demo again (must pass). Finally leave the worktree clean (only target/ may remain). If after real effort you can only find one such change, deliver one and say so. Reply with a short summary of the two changes when done.\n\n\n'
EXTRA = """
ADDITIONAL CONSTRAINTS FOR THIS ROUND: these changes breaking this property are ALREADY KNOWN and must NOT be repeated or trivially varied:
@KNOWN@
Find changes of a DIFFERENT kind and location. Prefer subtle ones: an interaction of two code sites, a rarely taken branch (an error path, a RecoverOnly / RecoverAndVerify-only path, a batch-only path, capacity > aggregation, extension degree > 1, a boundary bit length such as 1 or 64, a late position in an aggregate or a batch), an arithmetic slip that cancels in the common case, a change hidden inside an otherwise behaviour-preserving refactor (helper extraction, loop restructuring, algebraic rewrite) so that the surrounding code looks different from the original. The tree you work on already contains three maintainer fixes relative to the release (batch chunk loop, nonce() seed copy, generator-count check in the batch consistency function) and a cfg-guarded verification hook (`#[cfg(bpp_verif)]`, inactive in normal builds): leave those alone.
"""
ROUND4 = '''
THIS ROUND: earlier rounds concentrated on src/range_proof.rs. Put your change OUTSIDE src/range_proof.rs if at all possible — src/protocols/*.rs (scalar / transcript / curve-point protocol traits), src/generators/*.rs (generator chain, aggregated iterator, Bulletproof / Pedersen generators), src/transcripts.rs, src/utils/*.rs (nonce, padding, NullRng), src/ristretto.rs, src/range_statement.rs, src/range_witness.rs, src/range_parameters.rs, src/commitment_opening.rs, src/extended_mask.rs, src/traits.rs — or, if this property can only be broken inside range_proof.rs, in a part of it that none of the known changes touched. At most one of your two changes may be in src/range_proof.rs.
'''
ROUND5 = '''
THIS ROUND: make the change SELF-CONSISTENT — prover and verifier (or code they share) are changed together so that the library still accepts its own proofs in every configuration and recovers its own masks, all existing tests pass, and a casual round-trip test notices nothing; yet the property above is broken (the verified relation is no longer the specified one, something is no longer bound or no longer fresh, the result is no longer the documented / released one, ...). Your demonstration must therefore use something OUTSIDE the changed code as reference: an independent evaluation written from the Bulletproofs+ paper, an independently derived generator / nonce / transcript, a recorded proof of the unchanged tree, or an explicit forgery.
'''
if len(sys.argv) > 2 and sys.argv[2] == '--outside-range-proof':
    EXTRA = EXTRA + ROUND4
if len(sys.argv) > 2 and sys.argv[2] == '--self-consistent':
    EXTRA = EXTRA + ROUND5
for l in open(os.path.join(V, 'properties.jsonl')):
    d = json.loads(l)
    pid = d['id']
    if pid == 'C18':
        continue
    known = []
    for mp in sorted(glob.glob(os.path.join(V, 'seeded', pid + '-*', 'meta.json'))):
        known.append('  - ' + json.load(open(mp)).get('summary', ''))
    text = '%s \u2014 %s\n\nStatement: %s\n\nQuantifier: %s\n\nWhy the existing tests cannot settle it: %s\n\n' % (pid, d['title'], d['statement'], d['quantifier']['text'], d['why_tests_cant'])
    t = (PRE + text + POST + EXTRA.replace('@KNOWN@', '\n'.join(known))).replace('/tmp/mut2/C05', OUT + '/' + pid).replace('C05', pid)
    os.makedirs(os.path.join(OUT, pid + '.out'), exist_ok=True)
    open(os.path.join(OUT, pid + '.prompt.txt'), 'w').write(t)
print('prompts written to', OUT)
