#!/usr/bin/env python3
"""run checks against patched scratch copies of /repo IN PARALLEL, without touching /repo's working tree.

usage: tools/par_matrix.py [-j N] [--tier quick] [--out results.json] JOB...
   JOB = <patch-file>:<Cxx>[,<Cyy>...]        (the word ALL = every claimed check; patch '-' = unchanged tree)

Each worker owns /tmp/vclone/<pid>/w<i>/{repo,verif}: `repo` is a detached git worktree of /repo's HEAD with the patch applied,
`verif` is a copy of /verif's working tree whose three harness manifests and MIR dump point at that `repo`.
Nothing is written to /verif (evidence files of the clones are thrown away); the clones are removed at the end.
This is tooling for the seeded / benign matrices, not a registered check: the registered commands always use /repo itself."""
import json, os, re, shutil, subprocess, sys, threading, queue, time

ROOT = '/tmp/vclone/%d' % os.getpid()    # one root per invocation: several matrices may run at the same time
VERIF = os.path.dirname(os.path.dirname(os.path.abspath(__file__)))
ALL = 'C01 C02 C03 C04 C05 C06 C07 C08 C09 C10 C11 C12 C13 C14 C15 C16 C17 C18 C19 C20'.split()


def sh(cmd, **kw):
    return subprocess.run(cmd, shell=True, stdout=subprocess.PIPE, stderr=subprocess.STDOUT, text=True, **kw)


def make_clone(i):
    w = os.path.join(ROOT, 'w%d' % i)
    repo, verif = os.path.join(w, 'repo'), os.path.join(w, 'verif')
    sh('git -C /repo worktree remove --force %s' % repo)
    shutil.rmtree(w, ignore_errors=True)
    os.makedirs(w)
    r = sh('git -C /repo worktree add -q --detach %s HEAD' % repo)
    if r.returncode != 0:
        sys.exit('worktree: ' + r.stdout)
    sh("rsync -a --exclude .git --exclude .build --exclude replays --exclude seeded --exclude evidence --exclude notes %s/ %s/" % (VERIF, verif))
    os.makedirs(os.path.join(verif, 'evidence'), exist_ok=True)
    for f in ('symx/Cargo.toml', 'replay/Cargo.toml', 'kani/Cargo.toml'):
        p = os.path.join(verif, f)
        s = open(p).read().replace('path = "/repo"', 'path = "%s"' % repo)
        open(p, 'w').write(s)
    for f in ('smt/mirx.py', 'smt/mirx_props.py'):
        p = os.path.join(verif, f)
        s = open(p).read().replace("repo='/repo'", "repo='%s'" % repo).replace("dump_mir('/repo')", "dump_mir('%s')" % repo)
        open(p, 'w').write(s)
    return repo, verif


def worker(i, jobs, results, tier, lock):
    repo, verif = make_clone(i)
    while True:
        try:
            patch, checks = jobs.get_nowait()
        except queue.Empty:
            break
        sh('git -C %s reset -q --hard HEAD && git -C %s clean -fdq -e target' % (repo, repo))
        rec = {'patch': patch, 'checks': {}}
        if patch != '-':
            r = sh('git -C %s apply %s || git -C %s apply --3way %s' % (repo, patch, repo, patch))
            if r.returncode != 0 or sh('git -C %s diff --name-only --diff-filter=U' % repo).stdout.strip():
                rec['error'] = 'patch does not apply: ' + r.stdout[-300:]
                with lock:
                    results.append(rec)
                continue
            sh('git -C %s reset -q' % repo)
        for c in checks:
            t0 = time.time()
            r = sh('./check %s --tier %s' % (c, tier), cwd=verif)
            lines = [l for l in r.stdout.splitlines() if l.startswith(('VIOLATION', 'INCONCLUSIVE', 'KNOWN-FINDING', 'NOTE', '  what:')) or '-> exit' in l]
            rec['checks'][c] = {'exit': r.returncode, 'wall_s': round(time.time() - t0, 1), 'lines': [l[:400] for l in lines[:16]]}
            with lock:
                print('[w%d] %s %s -> exit %d (%.0fs)' % (i, os.path.relpath(patch, '/') if patch != '-' else '-', c, r.returncode, time.time() - t0), flush=True)
                for l in lines[:4]:
                    if not l.startswith('KNOWN') and '-> exit' not in l:
                        print('       ' + l[:300], flush=True)
        with lock:
            results.append(rec)
    sh('git -C /repo worktree remove --force %s' % repo)
    shutil.rmtree(os.path.join(ROOT, 'w%d' % i), ignore_errors=True)


def main():
    args = sys.argv[1:]
    n, tier, out = 3, 'quick', None
    jobs = queue.Queue()
    while args:
        a = args.pop(0)
        if a == '-j':
            n = int(args.pop(0))
        elif a == '--tier':
            tier = args.pop(0)
        elif a == '--out':
            out = args.pop(0)
        else:
            patch, cs = a.rsplit(':', 1)
            checks = ALL if cs == 'ALL' else cs.split(',')
            jobs.put((os.path.abspath(patch) if patch != '-' else '-', checks))
    results, lock = [], threading.Lock()
    n = min(n, jobs.qsize())
    ths = [threading.Thread(target=worker, args=(i, jobs, results, tier, lock)) for i in range(n)]
    for t in ths:
        t.start()
    for t in ths:
        t.join()
    shutil.rmtree(ROOT, ignore_errors=True)
    sh('git -C /repo worktree prune')
    if out:
        json.dump(results, open(out, 'w'), indent=1)
    bad = [(r['patch'], c, v['exit']) for r in results for c, v in r.get('checks', {}).items() if v['exit'] != 0]
    print('jobs: %d, non-zero exits: %d' % (len(results), len(bad)))


if __name__ == '__main__':
    main()
