#!/usr/bin/env python3
"""records what the checks answered on seeded changes from the JSON written by tools/par_matrix.py --out (parallel, on scratch clones):
updates seeded/<id>/meta.json (detected_by), seeded/MATRIX.json and seeded/MATRIX.md.  usage: tools/seeded_record.py results.json [...]"""
import json, os, re, sys
V = os.path.dirname(os.path.dirname(os.path.abspath(__file__)))
mp = os.path.join(V, 'seeded', 'MATRIX.json')
res = json.load(open(mp)) if os.path.exists(mp) else {}
for rf in sys.argv[1:]:
    for rec in json.load(open(rf)):
        m = re.search(r'/seeded/(C\d\d-[A-Za-z0-9]+)/patch\.diff$', rec['patch'])
        if not m:
            continue
        sid = m.group(1)
        if 'error' in rec:
            res[sid] = {'error': rec['error'][:200]}
            continue
        row = res.get(sid, {}) if 'error' not in res.get(sid, {}) else {}
        for c, v in rec['checks'].items():
            what = [l.strip() for l in v['lines'] if l.strip().startswith('what:')]
            row[c] = {'exit': v['exit'], 'violation': any(l.startswith('VIOLATION') for l in v['lines']), 'first': (what[0][:240] if what else ''), 'wall_s': v['wall_s']}
        res[sid] = row
        meta_p = os.path.join(V, 'seeded', sid, 'meta.json')
        meta = json.load(open(meta_p))
        meta['detected_by'] = {c: ('VIOLATION (exit 1)' if v['exit'] == 1 else 'exit %d' % v['exit']) for c, v in row.items()}
        meta['what_was_run'] = 'patch applied to a scratch worktree of /repo HEAD (tools/par_matrix.py) or to /repo itself and undone (tools/seeded_matrix.py); ./check <property> --tier quick'
        json.dump(meta, open(meta_p, 'w'), indent=1)
json.dump(res, open(mp, 'w'), indent=1)
needs = json.load(open(os.path.join(V, 'tools', 'seeded_needs.json')))
lines = ['| seeded change | what it does | own check (quick) | also caught by |', '|---|---|---|---|']
for sid in sorted(res):
    row = res[sid]
    if 'error' in row:
        lines.append('| %s | %s | %s | |' % (sid, needs.get(sid, {}).get('summary', ''), row['error']))
        continue
    prop = sid.split('-')[0]
    own = row.get(prop, {})
    also = ', '.join('%s (exit %d)' % (c, v['exit']) for c, v in row.items() if c != prop)
    lines.append('| %s | %s | %s | %s |' % (sid, needs.get(sid, {}).get('summary', ''), 'VIOLATION, exit 1' if own.get('exit') == 1 else 'exit %s' % own.get('exit'), also))
open(os.path.join(V, 'seeded', 'MATRIX.md'), 'w').write('\n'.join(lines) + '\n')
bad = [s for s in sorted(res) if 'error' in res[s] or res[s].get(s.split('-')[0], {}).get('exit') != 1]
print('%d seeded changes recorded; own check not exit 1: %s' % (len(res), bad))
