#!/bin/bash
# usage: tools/confirm_seeded.sh <Cxx> <mutA|mutB>   — independent confirmation of a seeded change in a scratch worktree:
#  (1) applies to the current /repo HEAD, (2) existing suite passes with it, (3) demo fails with it, (4) demo passes without it.
id="$1"; mut="$2"
src=${MUTDIR:-/tmp/mut}/$id.out
wt=${CONFDIR:-/tmp/confirm}/${id}_${mut}
out=${CONFDIR:-/tmp/confirm}/${id}_${mut}.json
mkdir -p ${CONFDIR:-/tmp/confirm}
git -C /repo worktree remove --force "$wt" 2>/dev/null
git -C /repo worktree add -q --detach "$wt" HEAD || exit 9
cd "$wt" || exit 9
export CARGO_NET_OFFLINE=true CARGO_TARGET_DIR="$wt/target"
applies=no; suite=unknown; demo_with=unknown; demo_without=unknown
if git apply "$src/$mut.diff" 2>/dev/null || git apply --3way "$src/$mut.diff" 2>/dev/null; then applies=yes; git reset -q; fi
if [ $applies = yes ]; then
  if cargo test --offline > "$wt.suite.log" 2>&1; then suite=pass; else suite=FAIL; fi
  cp "$src/${mut}_demo.rs" tests/seeded_demo.rs
  if timeout 1500 cargo test --offline --test seeded_demo > "$wt.demo_with.log" 2>&1; then demo_with=pass; else demo_with=fail; fi
  git checkout -q -- src Cargo.toml 2>/dev/null; git checkout -q -- . 2>/dev/null
  cp "$src/${mut}_demo.rs" tests/seeded_demo.rs
  if timeout 1500 cargo test --offline --test seeded_demo > "$wt.demo_without.log" 2>&1; then demo_without=pass; else demo_without=fail; fi
fi
echo "{\"id\":\"$id\",\"mut\":\"$mut\",\"applies\":\"$applies\",\"suite_with_change\":\"$suite\",\"demo_with_change\":\"$demo_with\",\"demo_without_change\":\"$demo_without\"}" > "$out"
cd /; git -C /repo worktree remove --force "$wt"; rm -rf "$wt"
cat "$out"
