#!/usr/bin/env python3
"""round 6 pipeline: confirm (scratch worktree), assemble into seeded/<pid>-r6X, run the property's own quick check on a patched clone.
usage: tools/round6.py [--mutdir /tmp/mut6] [--checks own|ALL] PID[:mutA|mutB] ...   (summaries: tools/seeded_needs.json)"""
import json, os, shutil, subprocess, sys, concurrent.futures
V = os.path.dirname(os.path.dirname(os.path.abspath(__file__)))
args = sys.argv[1:]
mutdir, checks = '/tmp/mut6', 'own'
while args and args[0].startswith('--'):
    if args[0] == '--mutdir':
        mutdir = args[1]
    elif args[0] == '--checks':
        checks = args[1]
    args = args[2:]
jobs = []
for a in args:
    pid, _, mut = a.partition(':')
    for m in ([mut] if mut else ['mutA', 'mutB']):
        if os.path.exists('%s/%s.out/%s.diff' % (mutdir, pid, m)):
            jobs.append((pid, m))


def confirm(j):
    pid, m = j
    env = dict(os.environ, MUTDIR=mutdir, CONFDIR='/tmp/confirm6')
    r = subprocess.run([os.path.join(V, 'tools', 'confirm_seeded.sh'), pid, m], env=env, stdout=subprocess.PIPE, stderr=subprocess.STDOUT, text=True)
    line = [l for l in r.stdout.splitlines() if l.startswith('{')]
    return j, (json.loads(line[-1]) if line else {'error': r.stdout[-400:]})


needs = json.load(open(os.path.join(V, 'tools', 'seeded_needs.json')))
confirmed = []
with concurrent.futures.ThreadPoolExecutor(max_workers=4) as ex:
    for (pid, m), c in ex.map(confirm, jobs):
        ok = c.get('applies') == 'yes' and c.get('suite_with_change') == 'pass' and c.get('demo_with_change') == 'fail' and c.get('demo_without_change') == 'pass'
        print('confirm', pid, m, 'OK' if ok else 'NOT CONFIRMED', c, flush=True)
        if not ok:
            continue
        suffix = ('r7' + m[-1]) if os.path.basename(mutdir) == 'mut7' else 'r6' + m[-1] + ('' if mutdir == '/tmp/mut6' else os.path.basename(mutdir)[-1])
        sid = '%s-%s' % (pid, suffix)
        dst = os.path.join(V, 'seeded', sid)
        os.makedirs(dst, exist_ok=True)
        src = '%s/%s.out' % (mutdir, pid)
        shutil.copy(os.path.join(src, m + '.diff'), os.path.join(dst, 'patch.diff'))
        shutil.copy(os.path.join(src, m + '_demo.rs'), os.path.join(dst, 'demo.rs'))
        if os.path.exists(os.path.join(src, 'notes.md')):
            shutil.copy(os.path.join(src, 'notes.md'), os.path.join(dst, 'author_notes.md'))
        meta = {'id': sid, 'breaks_property': pid, 'summary': needs.get(sid, {}).get('summary', ''), 'needs_to_manifest': needs.get(sid, {}).get('needs', ''),
                'written_by': 'independent sub-agent (sixth / seventh round: told every change already known for the property, asked for a DATA-DEPENDENT or HISTORY-DEPENDENT change), given only the property text and a scratch worktree',
                'confirmed_here': {'how': 'MUTDIR=%s tools/confirm_seeded.sh %s %s (scratch worktree of /repo HEAD, removed afterwards)' % (mutdir, pid, m),
                                   'patch_applies_to_repo_head': True, 'existing_suite_with_change': 'pass', 'demo_with_change': 'fails', 'demo_without_change': 'passes'},
                'demo': 'demo.rs is an integration test: copy to /repo/tests/ and run cargo test --offline --test <name>',
                'what_was_run': 'patch applied to a scratch worktree of /repo HEAD (tools/par_matrix.py); ./check <property> --tier quick'}
        old = os.path.join(dst, 'meta.json')
        if os.path.exists(old):
            prev = json.load(open(old))
            for k in ('detected_by',):
                if k in prev:
                    meta[k] = prev[k]
        json.dump(meta, open(old, 'w'), indent=1)
        confirmed.append((pid, sid))
if confirmed:
    spec = ['%s:%s' % (os.path.join(V, 'seeded', sid, 'patch.diff'), pid if checks == 'own' else 'ALL') for pid, sid in confirmed]
    out = '/tmp/round6_matrix_%d.json' % os.getpid()
    subprocess.run([sys.executable, os.path.join(V, 'tools', 'par_matrix.py'), '-j', '4', '--out', out] + spec)
    for r in json.load(open(out)):
        sid = os.path.basename(os.path.dirname(r['patch']))
        mp = os.path.join(V, 'seeded', sid, 'meta.json')
        meta = json.load(open(mp))
        det = meta.get('detected_by', {})
        for c, v in r.get('checks', {}).items():
            det[c] = {0: 'not detected (exit 0)', 1: 'VIOLATION (exit 1)', 2: 'inconclusive (exit 2)'}.get(v['exit'], 'exit %d' % v['exit'])
            print('RESULT', sid, c, det[c], '|', ' ; '.join(l for l in v['lines'] if l.startswith(('VIOLATION', '  what', 'INCONCL')))[:400], flush=True)
        meta['detected_by'] = det
        json.dump(meta, open(mp, 'w'), indent=1)
