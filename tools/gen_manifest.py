#!/usr/bin/env python3
"""writes MANIFEST.json from the table below (kept in one place so that it stays valid)"""
import json, os
V = os.path.dirname(os.path.dirname(os.path.abspath(__file__)))
S_TECH = 'symbolic execution of the real Rust source on symbolic scalars/group elements/hash oracles (model dependency crates), obligations decided by z3 (QF_NRA)'
CHECKS = {
 'C01': dict(engine='S', tech=S_TECH, text='bounded symbolic verification: for every configuration of an enumerated lattice the prover and verifier source is executed with all witness bits, values, promises, blindings, nonces, challenges and weights symbolic; z3 proves every coefficient of the verifier\'s final linear form identically zero',
             note='A1 random-oracle, A2 algebraic group model, A4 reals for F_l with replay, A5 model crates implement documented contracts; configurations (n,m,cap,x) enumerated, n*m<=64 quick / <=256 thorough; bit-decomposition link lemma is Engine M (C06)', ref='§5 C01'),
}
NA = {
}
def main():
    checks = []
    for pid, c in sorted(CHECKS.items()):
        checks.append({'property_id': pid, 'quick_cmd': './check %s --tier quick' % pid, 'thorough_cmd': './check %s --tier thorough' % pid,
                       'evidence_file': 'evidence/%s.json' % pid, 'replay_cmd_template': './check %s --replay {path}' % pid,
                       'engine': c['engine'], 'technique': c['tech'],
                       'level_claimed': {'category': 'other', 'text': c['text'], 'design_ref': c['ref']}, 'level_note': c['note']})
    props = [json.loads(l)['id'] for l in open(os.path.join(V, 'properties.jsonl'))]
    na = [{'property_id': p, 'reason': NA.get(p, 'check not yet built in this round (planned, see DESIGN.md §5)')} for p in props if p not in CHECKS]
    m = {'version': 1, 'setup_cmd': './setup.sh',
         'hooks': {'guard': 'bpp_verif', 'enable': 'RUSTFLAGS="--cfg bpp_verif" (set by the checks for the harness crates)',
                   'baseline_off_cmd': 'cd /repo && cargo test --workspace --no-fail-fast --offline',
                   'source_commits': ['caaba90'], 'add_only': True},
         'engines': [{'name': 'S', 'path': 'symx/ + shim/ + smt/', 'serves_properties': sorted(k for k, c in CHECKS.items() if 'S' in c['engine']), 'kind_free_text': 'term-recording symbolic execution of the real source + z3/cvc5'},
                     {'name': 'M', 'path': 'smt/mirx.py', 'serves_properties': sorted(k for k, c in CHECKS.items() if 'M' in c['engine']), 'kind_free_text': 'nightly MIR of /repo -> SMT (bit-vectors / integers)'},
                     {'name': 'K', 'path': 'kani/', 'serves_properties': sorted(k for k, c in CHECKS.items() if 'K' in c['engine']), 'kind_free_text': 'Kani/CBMC harnesses over the compiled real source for leaf units'}],
         'checks': checks, 'not_applicable': na,
         'notes': 'exit 0 = held on everything explored; exit 1 + VIOLATION line = violation replayed on the real crates; exit 2 = inconclusive (solver unknown/timeout, model mismatch, build failure) and never counted as held'}
    json.dump(m, open(os.path.join(V, 'MANIFEST.json'), 'w'), indent=1)
if __name__ == '__main__':
    main()
