#!/usr/bin/env python3
"""writes MANIFEST.json from the table below (kept in one place so that it stays valid)"""
import json, os
V = os.path.dirname(os.path.dirname(os.path.abspath(__file__)))
S_TECH = 'symbolic execution of the real Rust source on symbolic scalars/group elements/hash oracles (model dependency crates), obligations decided by z3 (QF_NRA)'
CHECKS = {
 'C01': dict(engine='S', tech=S_TECH, text='bounded symbolic verification: for every configuration of an enumerated lattice the prover and verifier source is executed with all witness bits, values, promises, blindings, nonces, challenges and weights symbolic; z3 proves every coefficient of the verifier\'s final linear form identically zero',
             note='A1 random-oracle, A2 algebraic group model, A4 reals for F_l with replay, A5 model crates implement documented contracts; configurations (n,m,cap,x) enumerated, n*m<=64 quick / <=256 thorough; bit-decomposition link lemma is Engine M (C06)', ref='§5 C01'),
}
CHECKS['C02'] = dict(engine='S', tech=S_TECH + '; oracle = the Bulletproofs+ relation written from the paper (smt/spec.py)',
    text='bounded symbolic verification against an independent specification: verify_batch is executed on a fully adversarial proof (free points, free response scalars); z3 proves for every basis element that the coefficient the implementation gives it equals weight x the coefficient of the published relation, and that the weight cannot vanish; malformed shapes are shown to be refused before the comparison',
    note='A1, A2, A3, A4, A5; configurations enumerated; the paper\'s extraction theorem is outside the claim', ref='§5 C02')
CHECKS['C08'] = dict(engine='S', tech=S_TECH + '; two-copy injectivity queries on the recorded hash inputs',
    text='bounded symbolic verification: on adversarial batches z3 proves the verifier\'s residual equals sum_i w_i x (paper relation of member i) with pairwise distinct weight variables, each weight non-zero on the path, that the hash input of the weights determines every response scalar of every member (so any change re-randomises all weights under A1), and that equal-and-opposite defects leave the non-zero polynomial (w_i-w_j)*delta',
    note='A1 (weights are oracle outputs: "unpredictable" = derived from the responses), A2, A3, A4, A5; batch sizes k<=3 quick / 5 thorough', ref='§5 C08')
CHECKS['C03'] = dict(engine='S', tech=S_TECH,
    text='bounded symbolic verification of batch verification: honest batches in every order (k<=3) and at sizes across the internal chunk limit verify with exactly k results and result i term-equal to member i\'s mask; in adversarial batches z3 shows the coefficient of every member\'s own proof point cannot vanish (a member that is never examined has coefficient 0); one invalid member at any position leaves a non-zero polynomial; malformed batch shapes are refused',
    note='A1, A2, A3, A4, A5; batch size k and positions are enumerated (k up to 257 quick / 513 thorough), contents symbolic', ref='§5 C03')
CHECKS['C05'] = dict(engine='S', tech=S_TECH,
    text='bounded symbolic verification: starting from the symbolic honest (accepted) triple, each component is altered in turn (+delta*X for every proof point/commitment and generator direction X, +delta for scalars, swaps, rounds, tag, promises, bit length, generators, context, also inside batches); the library must return Err in both verifying modes, and z3 shows the altered residual is non-zero for EVERY delta != 0 (scalars) or not identically zero (points/statement)',
    note='A1, A2, A3, A4, A5; configurations and positions enumerated, values symbolic', ref='§5 C05')
CHECKS['C09'] = dict(engine='S', tech=S_TECH,
    text='bounded symbolic verification: for seeded non-aggregated proofs z3 proves each recovered mask component term-equal to the blinding variable of that component (distinct variables per component, so an index mix-up is a failed identity), for x = 1..6 and every bit length; presence/absence and position of masks in mixed batches in every order',
    note='A1 (nonce(seed,label,j,k) are oracle symbols: prover and verifier must query the same ones), A2, A4, A5', ref='§5 C09')
CHECKS['C10'] = dict(engine='S', tech=S_TECH,
    text='bounded symbolic verification: one proof viewed through three statements (prover\'s seed, another seed, no seed) in three modes: z3 proves the verifier\'s residual linear form identical across views and modes (honest and altered proofs), recovery with another seed differs from the mask by a polynomial that is not identically zero, RecoverOnly == RecoverAndVerify masks',
    note='A1, A2, A4, A5; aggregation 1', ref='§5 C10')
CHECKS['C07'] = dict(engine='S+M', tech=S_TECH + '; integer guards from MIR (Engine M, see C16)',
    text='bounded symbolic verification: a proof made under promise vector p is refused under any single substituted promise (residual not identically zero) and accepted with identically-zero residual under None<->Some(0); promises that do not fit the bit length are refused before the comparison at every position, batch position and mode; the h-coefficient of each promise is part of the C02 relation check',
    note='A1, A2, A4, A5; positions enumerated, promise values symbolic (registry) or boundary constants', ref='§5 C07')
CHECKS['C12'] = dict(engine='S+M', tech=S_TECH,
    text='bounded symbolic verification: proofs made under capacity c_p verify under every c_v (residual identically zero) alone and in mixed-capacity batches in every order; generators are basis elements named by their derivation input, so capacity-dependent derivations would be distinct basis elements and the identity would fail; the model MSM asserts the backend length contracts',
    note='A1, A2, A4, A5; capacities up to 4m quick / 8m thorough', ref='§5 C12')
CHECKS['C04'] = dict(engine='S', tech='symbolic execution of the real transcript code on an interned absorb-log model of merlin; two-copy injectivity queries decided by z3',
    text='bounded symbolic verification under the random-oracle abstraction: every datum the verifier absorbs is made a free symbol (caller context, free generators H/G_k, commitments, promises, A, L_j, R_j, A1, B); for every challenge and every datum that precedes it z3 shows that equal hash inputs force the datum equal; prover and verifier reach the same interned log; integer fields are absorbed as LE64',
    note='A1 (a challenge "changes" iff its hash input changes), A3, A5 (merlin frames messages by label and length)', ref='§5 C04')
CHECKS['C13'] = dict(engine='S', tech=S_TECH + ' (random-oracle model: nonces are oracle symbols named by their recorded derivation)',
    text='bounded symbolic verification in the random-oracle model: the blinding coordinates of every prover message are read off the linear forms of the proof points produced by the real prover; each is shown to be exactly one oracle output (transcript RNG state that absorbed the external stream, or Blake2b(00|seed|j|k, persona=label) with a seed), pairwise distinct, non-zero on the path; the two final masking scalars are RNG outputs also with a seed; two runs with different external streams share none',
    note='A1 (freshness/unpredictability = distinct oracle inputs), A2, A4, A5', ref='§5 C13')
CHECKS['C14'] = dict(engine='S', tech=S_TECH + ' (random-oracle model; RNG states are recorded derivations)',
    text='bounded symbolic verification in the random-oracle model under four external-RNG fault models: every nonce the prover draws from randomness is an output of a recorded state (current transcript incl. every prover message so far, rekey with the serialised witness of ALL openings, external bytes); z3 shows the state input determines every blinding factor; pairs of runs differing in witness (same commitment), context or statement share no nonce symbol, identical runs reproduce',
    note='A1, A2, A4, A5', ref='§5 C14')
CHECKS['C15'] = dict(engine='S', tech='symbolic execution of the real codec on buffers of opaque symbolic 32-byte elements (shapes enumerated), path conditions checked by z3',
    text='bounded check: from_bytes/to_bytes/serde are executed on buffers whose 32-byte elements are opaque symbols, so one run covers every content of a shape; tag, element count, trailing remainder and canonicity forks are enumerated; the verdict must equal the stated acceptance set, the accepting path must have established canonicity of exactly the scalar elements (propositional query), re-encoding and serde must be the identity; prover output length formula and round trip on the lattice',
    note='A3, A5; shapes are enumerated (tags 0..255 thorough), not symbolic: stated as such; known finding: (bits,aggregation)=(1,1) prover output has zero rounds and is refused by the decoder', ref='§5 C15')
M_TECH = 'symbolic evaluation of the nightly MIR of /repo (regions located by source anchors, one loop iteration from an arbitrary state), bit-vector obligations decided by z3'
M_NOTE = ' Engine M obligation groups are tied to a code shape: on a tree whose shape the translator does not recognise a group is reported NOT DECIDED (NOTE line, evidence field engine_m_groups_not_decided) and the other engines of the check decide the enumerated cases; on the pinned tree every group is decided (VERIF_STRICT_M=1 makes a not-decided group exit 2).'
CHECKS['C06'] = dict(engine='M+S', tech=M_TECH + '; plus concrete position sweep on the symbolic harness',
    text='bounded verification from the compiler IR: the head checks, the value guard loop, the opening check loop, the promise offset and the bit-decomposition loop of prove_with_rng are evaluated symbolically from the MIR; z3 proves Err <=> value >= 2^bits, Err <=> promise > value, From<u64> argument == ((value-promise)>>i)&1 with i in 0..bits, pushes a_li<-bit / a_ri<-bit-1, rustc overflow assertions cannot fire, recomposition sum bit_i 2^i == offset; each single violation at each position of an aggregate is run concretely',
    note='Engine M call table (~30 core functions); loop coverage by the concrete position sweep (enumeration); invariant bit_length = power of two <= 64 from C17', ref='§5 C06')
CHECKS['C17'] = dict(engine='M+S', tech=M_TECH + '; plus concrete sweep of the documented ranges',
    text='bounded verification from the compiler IR: for every constructor the condition under which it reaches construction is proved equal to the documented domain for ALL integer arguments / element counts (bit-vector validity), path conditions exhaustive, arguments stored unchanged; the documented ranges (0..=130, counts 0..=17, blinding counts 0..=8, all u8) are additionally swept concretely',
    note='Engine M call table; the sweep is enumeration (stated); Kani cross-check of the container-shaped constructors listed in DESIGN as optional', ref='§5 C17')
CHECKS['C16'] = dict(engine='S+M', tech=S_TECH + '; ' + M_TECH,
    text='bounded verification: every decoding shape of C15 and a cross product of verification shapes (round counts incl. 20/40, tags, identity/undecodable points at every position, zero-challenge forks, mixed batches in every order with shared capacity, deviating members, statements of unusual shape through the constructor, three modes) run under catch_unwind with the model MSM asserting the real backend\'s length contracts, contents symbolic; from the MIR z3 proves for ALL usize: the round-count guard continues iff 2^rounds == full_length, compute_generator_padding, encode_usize, the promise guard, and that no rustc overflow assertion in these regions / AggregatedGensIter can fire',
    note='A3, A5; shapes enumerated, contents symbolic; Engine M call table; allocation failure out of scope', ref='§5 C16')
CHECKS['C11'] = dict(engine='S', tech='execution of the real generator construction on model hash crates that name every hash-to-group output by (hash, input bytes, block); structural comparison with the documented derivation; one z3 bit-vector query for label injectivity',
    text='partial claim (derivation structure only): every vector generator is block i of SHAKE256("GeneratorsChain"|G/H|LE32(party)), every blinding generator SHA3-512 of its indexed label, the value generator the basepoint; all are distinct basis elements and none the identity in the model; compressed accessors and the precomputed table (interleaved, party/index order) belong to the same points. Sizes are enumerated up to (64,32)',
    note='A1 (distinct oracle inputs => distinct points), A5; NOT claimed: distinctness of the actual Ristretto points (concrete cryptography) and the concurrency part (see C18)', ref='§5 C11')
CHECKS['C19'] = dict(engine='S', tech='symbolic execution of the real transcript / nonce / codec code on model crates and structural comparison of the recorded hash inputs with the frozen 0.4.0 layout; plus concrete recorded vectors and an independent reference verifier on the real crates',
    text='partial claim: (layout) for every lattice configuration the verifier\'s recorded transcript (labels, order, lengths, which object is absorbed where, LE64 integers), the seed-nonce key layout and the proof byte layout equal the frozen 0.4.0 specification for all symbolic contents; (concrete, stated as enumeration) 16 proofs/masks recorded from the pinned tree are reproduced byte for byte, the library\'s verdict agrees with an independent unoptimised paper-form verifier on honest and altered proofs, proofs from an independent paper-form prover are accepted and their masks recovered, generator bytes equal an independent SHAKE256/SHA3-512 derivation',
    note='A3, A5; the solver plays no role in the concrete part; the reference prover/verifier share the hash and curve crates with the library', ref='§5 C19')
CHECKS['C20'] = dict(engine='K', tech='Kani/CBMC bounded model checking of the compiled real source: harnesses drop the owning types / run nonce() on symbolic secret bytes with the deallocation primitive replaced by a block-inspecting checker',
    text='partial claim: for CommitmentOpening, RangeWitness, ExtendedMask drops and for nonce() as a unit, CBMC shows that no heap block released during the harness contains a secret byte, for ALL secret byte values (container shapes enumerated, unwinding assertions on, vacuity twin). The statement seed and the prover / verifier temporaries are covered by a concrete allocator scan on the real crates (ordinary executions, stated as such)',
    note='A6 (dev profile, CBMC memory model), stubs listed in the evidence; NOT claimed by the solver: RangeStatement drop, prove/verify temporaries, stack copies', ref='§5 C20')
NA = {
 'C18': 'not applicable to this family here: the quantifier is over thread interleavings and racing first use of OnceCell statics; Kani/CBMC as shipped does not model Rust threads (rejects std::thread / atomics-based sync), the symbolic-execution engine runs one sequential path, and "deterministic function of its arguments" cannot be asserted over models whose hash/RNG outputs are uninterpreted by construction (DESIGN.md §6)',
}
def main():
    for pid in ('C03', 'C04', 'C06', 'C07', 'C16', 'C17', 'C19'):
        CHECKS[pid]['note'] += M_NOTE
    checks = []
    for pid, c in sorted(CHECKS.items()):
        checks.append({'property_id': pid, 'quick_cmd': './check %s --tier quick' % pid, 'thorough_cmd': './check %s --tier thorough' % pid,
                       'evidence_file': 'evidence/%s.json' % pid, 'replay_cmd_template': './check %s --replay {path}' % pid,
                       'engine': c['engine'], 'technique': c['tech'],
                       'level_claimed': {'category': 'other', 'text': c['text'], 'design_ref': c['ref']}, 'level_note': c['note']})
    props = [json.loads(l)['id'] for l in open(os.path.join(V, 'properties.jsonl'))]
    na = [{'property_id': p, 'reason': NA.get(p, 'check not yet built in this round (planned, see DESIGN.md §5)')} for p in props if p not in CHECKS]
    m = {'version': 1, 'setup_cmd': './setup.sh',
         'hooks': {'guard': 'bpp_verif', 'enable': 'RUSTFLAGS="--cfg bpp_verif" (set by the checks for the harness crates)',
                   'baseline_off_cmd': 'cd /repo && cargo test --workspace --no-fail-fast --offline',
                   'source_commits': ['caaba90'], 'add_only': True},
         'engines': [{'name': 'S', 'path': 'symx/ + shim/ + smt/', 'serves_properties': sorted(k for k, c in CHECKS.items() if 'S' in c['engine']), 'kind_free_text': 'term-recording symbolic execution of the real source + z3/cvc5'},
                     {'name': 'M', 'path': 'smt/mirx.py', 'serves_properties': sorted(k for k, c in CHECKS.items() if 'M' in c['engine']), 'kind_free_text': 'nightly MIR of /repo -> SMT (bit-vectors / integers)'},
                     {'name': 'K', 'path': 'kani/', 'serves_properties': sorted(k for k, c in CHECKS.items() if 'K' in c['engine']), 'kind_free_text': 'Kani/CBMC harnesses over the compiled real source for leaf units'}],
         'checks': checks, 'not_applicable': na,
         'notes': 'exit 0 = held on everything explored; exit 1 + VIOLATION line = violation replayed on the real crates; exit 2 = inconclusive (solver unknown/timeout, model mismatch, build failure) and never counted as held'}
    json.dump(m, open(os.path.join(V, 'MANIFEST.json'), 'w'), indent=1)
if __name__ == '__main__':
    main()
