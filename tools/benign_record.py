#!/usr/bin/env python3
"""records what every check answered on the refactors kept under benign/ (JSON written by tools/par_matrix.py --out run on benign/<id>/patch.diff):
updates benign/<id>/meta.json and rewrites benign/MATRIX.md.   usage: tools/benign_record.py results.json [...]"""
import json, os, re, sys, glob
V = os.path.dirname(os.path.dirname(os.path.abspath(__file__)))
res = {}
for rf in sys.argv[1:]:
    for rec in json.load(open(rf)):
        m = re.search(r'/benign/(C\d\d-ben\d?[A-Z])/patch\.diff$', rec['patch'])
        if not m:
            continue
        sid = m.group(1)
        if 'error' in rec:
            res.setdefault(sid, {})['_error'] = rec['error'][:200]
        for c, v in rec.get('checks', {}).items():
            res.setdefault(sid, {})[c] = {'exit': v['exit'], 'engine_m_groups_not_decided': len([l for l in v['lines'] if l.startswith('NOTE')])}
rows = []
for d in sorted(glob.glob(os.path.join(V, 'benign', 'C*-ben*'))):
    sid = os.path.basename(d)
    mp = os.path.join(d, 'meta.json')
    meta = json.load(open(mp))
    r = res.get(sid)
    if r:
        merged = dict(meta.get('checks_run', {}))      # a later partial re-run (some checks only) updates those entries and keeps the others
        merged.update({c: x for c, x in r.items() if not c.startswith('_')})
        meta['checks_run'] = dict(sorted(merged.items()))
        meta['non_zero_exits'] = {c: x['exit'] for c, x in merged.items() if x['exit'] != 0}
        meta.pop('error', None)
        if '_error' in r and not meta['checks_run']:
            meta['error'] = r['_error']
        meta['what_was_run'] = 'tools/par_matrix.py on benign/<id>/patch.diff (patched scratch worktree of /repo HEAD + a copy of /verif pointing at it; quick tier; all checks at the time of the wave, later re-runs of the own check and C18)'
        json.dump(meta, open(mp, 'w'), indent=1)
    cr = meta.get('checks_run', {})
    rows.append((sid, ', '.join(meta.get('files', [])), len(cr), meta.get('non_zero_exits', {}), sum(x.get('engine_m_groups_not_decided', 0) for x in cr.values()), meta.get('error', '')))
with open(os.path.join(V, 'benign', 'MATRIX.md'), 'w') as f:
    f.write('| refactor | files | checks run (quick) | non-zero exits | parts reported "not decided" (NOTE) |\n|---|---|---|---|---|\n')
    for sid, files, n, nz, nd, err in rows:
        f.write('| %s | %s | %d | %s | %d |\n' % (sid, files, n, (', '.join('%s: exit %d' % kv for kv in sorted(nz.items())) or 'none') + ((' (' + err[:60] + ')') if err else ''), nd))
print('%d refactors, %d with a non-zero exit, %d with an error' % (len(rows), len([r for r in rows if r[3]]), len([r for r in rows if r[5]])))
